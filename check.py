#!/usr/bin/env python3
"""python3 check.py <property id> [--tier quick|thorough] [--root /repo] [--evidence DIR]
exit 0: property held on everything analysed; exit 1 + `VIOLATION property=<id> replay=<path>`: violation;
exit 2 + `ANALYSIS-ERROR ...`: an anchor vanished or the analysis itself failed (never a silent pass)."""
import sys, os, importlib, argparse
HERE = os.path.dirname(os.path.abspath(__file__))
sys.path.insert(0, HERE)
from sa.report import run_property
ap = argparse.ArgumentParser()
ap.add_argument('pid'); ap.add_argument('--tier', default=os.environ.get('VERIF_TIER', 'quick'))
ap.add_argument('--root', default='/repo'); ap.add_argument('--evidence', default=None)
a = ap.parse_args()
mod = importlib.import_module(f"sa.rules.{a.pid.lower()}")
extra = None
if a.tier == 'thorough':
    import thorough
    extra = thorough.deepen
sys.exit(run_property(a.pid, mod, root=a.root, tier=a.tier, seed=int(os.environ.get('VERIF_SEED', '0')),
                      evidence_dir=a.evidence or os.path.join(HERE, 'evidence'), deepen=extra))
