"""Property check: single-allele Gibbs / Metropolis-Hastings updates of the
call-pedigree sampler are stationary at the joint pedigree posterior.

The joint posterior is rebuilt here from first principles (brute-force
enumeration of gametes), independently of mchap.pedigree.prior:

    joint(G_1..G_n) = prod_i  lik(reads_i | G_i) * P(G_i | G_parents(i))

The sampler state is an ordered allele vector per individual, so the target
density of an ordered state is joint / (number of orderings of each genotype).

Checked for every individual and every allele copy of several small pedigrees
(founder, trio, half-sibs, backcross, and *selfing* families):
  * gibbs_probabilities == exact full conditional of the joint
  * metropolis_hastings_probabilities rows sum to one and satisfy detailed
    balance with respect to that full conditional.

Run as:  cd <worktree> && /venv/bin/python <path>/demo.py
Exit code 0 = property holds, 1 = violated.
"""
import sys, os

sys.path.insert(0, os.getcwd())

import itertools
import math
from collections import defaultdict

import numpy as np
import mchap

assert mchap.__file__.startswith(os.getcwd()), (mchap.__file__, os.getcwd())

from mchap.pedigree.mcmc import (  # noqa: E402
    gibbs_probabilities,
    metropolis_hastings_probabilities,
    sample_children_matrix,
)

HAPS = np.array([[0, 0, 0], [0, 1, 1], [1, 0, 1], [1, 1, 0]])
TOL = 1e-9


# ---------------------------------------------------------------------------
# independent reference model
# ---------------------------------------------------------------------------
def gamete_dist(parent, tau, lam, err, freqs):
    """Distribution (sorted allele tuple -> prob) of a gamete of size tau.

    With probability (1 - err) the gamete is drawn from the parent: tau copies
    without replacement, or with probability lam (tau == 2 only) one random
    copy duplicated (double reduction).  With probability err, or if the
    parent is unknown, the alleles are iid draws from the population
    frequencies.
    """
    out = defaultdict(float)
    tau = int(tau)
    if tau == 0:
        out[()] = 1.0
        return out
    rand = defaultdict(float)
    for combo in itertools.product(range(len(freqs)), repeat=tau):
        pr = 1.0
        for a in combo:
            pr *= freqs[a]
        rand[tuple(sorted(combo))] += pr
    if parent is None:
        return rand
    for g, pr in rand.items():
        out[g] += err * pr
    if err < 1.0:
        ploidy = len(parent)
        draws = list(itertools.permutations(range(ploidy), tau))
        for idx in draws:
            g = tuple(sorted(parent[i] for i in idx))
            out[g] += (1 - err) * (1 - lam) / len(draws)
        if lam > 0:
            assert tau == 2
            for i in range(ploidy):
                out[(parent[i], parent[i])] += (1 - err) * lam / ploidy
    return out


def trio_prob(child, par_p, par_q, tau_p, tau_q, lam_p, lam_q, err_p, err_q, freqs):
    child = tuple(sorted(child))
    gp = gamete_dist(par_p, tau_p, lam_p, err_p, freqs)
    gq = gamete_dist(par_q, tau_q, lam_q, err_q, freqs)
    total = 0.0
    for a, pa in gp.items():
        for b, pb in gq.items():
            if tuple(sorted(a + b)) == child:
                total += pa * pb
    return total


def n_orderings(genotype):
    counts = defaultdict(int)
    for a in genotype:
        counts[a] += 1
    n = math.factorial(len(genotype))
    for c in counts.values():
        n //= math.factorial(c)
    return n


def read_llk(read_dists, read_counts, i, g):
    total = 0.0
    for r in range(read_dists.shape[1]):
        c = read_counts[i, r]
        if c <= 0:
            continue
        pr = 0.0
        for a in g:
            x = 1.0
            for j in range(HAPS.shape[1]):
                x *= read_dists[i, r, j, HAPS[a, j]]
            pr += x / len(g)
        total += c * np.log(pr)
    return total


def log_joint_ordered(G, ploidy, parents, tau, lam, err, freqs, read_dists, read_counts):
    total = 0.0
    for i in range(len(G)):
        g = tuple(int(a) for a in G[i][: ploidy[i]])
        p, q = parents[i]
        gp = None if p < 0 else tuple(int(a) for a in G[p][: ploidy[p]])
        gq = None if q < 0 else tuple(int(a) for a in G[q][: ploidy[q]])
        pr = trio_prob(
            g, gp, gq, tau[i][0], tau[i][1], lam[i][0], lam[i][1],
            err[i][0], err[i][1], freqs,
        )
        with np.errstate(divide="ignore"):
            total += np.log(pr) - np.log(n_orderings(g))
        total += read_llk(read_dists, read_counts, i, g)
    return total


# ---------------------------------------------------------------------------
# check of one pedigree
# ---------------------------------------------------------------------------
def scratch(max_ploidy):
    names = ["dosage", "dosage_p", "dosage_q", "gamete_p", "gamete_q",
             "constraint_p", "constraint_q"]
    out = {k: np.zeros(max_ploidy, dtype=np.int64) for k in names}
    out["dosage_log_frequencies"] = np.zeros(max_ploidy, dtype=np.float64)
    return out


def check(name, parents, tau, lam, err, genotypes, seed=0, n_reads=2):
    rng = np.random.default_rng(seed)
    parents = np.array(parents, int)
    tau = np.array(tau, int)
    lam = np.array(lam, float)
    err = np.array(err, float)
    genotypes = np.array(genotypes, int)
    n, max_ploidy = genotypes.shape
    ploidy = tau.sum(axis=-1)
    n_alleles = len(HAPS)
    freqs = rng.random(n_alleles) + 0.2
    freqs /= freqs.sum()
    # weakly informative reads so that the inheritance prior matters
    read_dists = rng.random((n, n_reads, HAPS.shape[1], 2)) * 0.8 + 0.1
    read_dists /= read_dists.sum(axis=-1, keepdims=True)
    read_counts = rng.integers(0, 3, size=(n, n_reads))
    children = sample_children_matrix(parents)
    sc = scratch(max_ploidy)

    worst_gibbs, worst_mh = 0.0, 0.0
    where_gibbs, where_mh = None, None
    for t in range(n):
        for k in range(ploidy[t]):
            G = genotypes.copy()
            expect = np.empty(n_alleles)
            for a in range(n_alleles):
                G[t, k] = a
                expect[a] = log_joint_ordered(
                    G, ploidy, parents, tau, lam, err, freqs, read_dists, read_counts
                )
            expect = np.exp(expect - expect.max())
            expect /= expect.sum()
            gibbs = gibbs_probabilities(
                t, k, genotypes.copy(), ploidy, parents, children, tau, lam, err,
                read_dists, read_counts, HAPS, np.log(freqs), None, **sc
            )
            d = np.abs(gibbs - expect).max()
            if d > worst_gibbs:
                worst_gibbs, where_gibbs = d, (t, k, gibbs.round(4), expect.round(4))
            mtx = np.empty((n_alleles, n_alleles))
            for a in range(n_alleles):
                G = genotypes.copy()
                G[t, k] = a
                mtx[a] = metropolis_hastings_probabilities(
                    t, k, G, ploidy, parents, children, tau, lam, err,
                    read_dists, read_counts, HAPS, np.log(freqs), None, **sc
                )
            flow = expect[:, None] * mtx
            d = max(np.abs(flow - flow.T).max(), np.abs(mtx.sum(axis=1) - 1).max())
            stat = np.abs(expect @ mtx - expect).max()
            d = max(d, stat)
            if d > worst_mh:
                worst_mh, where_mh = d, (t, k)
    ok = (worst_gibbs < TOL) and (worst_mh < TOL)
    print(
        f"{'ok  ' if ok else 'FAIL'} {name:32s} max|gibbs - conditional| = {worst_gibbs:.2e}"
        f"   MH detailed-balance/stationarity error = {worst_mh:.2e}"
    )
    if not ok and where_gibbs is not None and worst_gibbs >= TOL:
        t, k, g, e = where_gibbs
        print(f"       individual {t} allele {k}: gibbs={g} exact conditional={e}")
    if not ok and where_mh is not None and worst_mh >= TOL:
        print(f"       MH worst at individual {where_mh[0]} allele {where_mh[1]}")
    return ok


def main():
    F = [1.0, 1.0]  # founders: error terms unused
    results = []
    results.append(check(
        "tetraploid founder", [[-1, -1]], [[2, 2]], [[0, 0]], [F], [[0, 1, 1, 2]]))
    results.append(check(
        "tetraploid trio (lambda)", [[-1, -1], [-1, -1], [0, 1]], [[2, 2]] * 3,
        [[0, 0], [0, 0], [0.1, 0.2]], [F, F, [0.05, 0.2]],
        [[0, 1, 1, 2], [1, 2, 2, 3], [1, 1, 2, 3]]))
    results.append(check(
        "tetraploid half-sibs", [[-1, -1], [-1, -1], [-1, -1], [0, 1], [1, 2]],
        [[2, 2]] * 5, [[0, 0]] * 5, [F, F, F, [0.1, 0.02], [0.3, 0.05]],
        [[0, 0, 1, 2], [0, 1, 1, 3], [2, 2, 3, 0], [0, 1, 1, 2], [1, 3, 2, 0]]))
    results.append(check(
        "tetraploid backcross", [[-1, -1], [0, -1], [0, 1]], [[2, 2]] * 3,
        [[0, 0]] * 3, [F, [0.1, 1], [0.2, 0.05]],
        [[0, 1, 1, 2], [1, 1, 2, 3], [1, 1, 2, 2]]))
    # selfing: both parents of an individual are the same sample
    results.append(check(
        "tetraploid selfing", [[-1, -1], [0, 0]], [[2, 2]] * 2, [[0, 0]] * 2,
        [F, [0.05, 0.1]], [[0, 1, 1, 2], [1, 1, 2, 2]]))
    results.append(check(
        "tetraploid selfing (lambda)", [[-1, -1], [0, 0]], [[2, 2]] * 2,
        [[0, 0], [0.15, 0.05]], [F, [0.01, 0.01]], [[0, 1, 2, 3], [1, 1, 2, 3]], seed=3))
    results.append(check(
        "diploid selfing + outcross sib",
        [[-1, -1], [0, 0], [0, 0], [-1, -1], [0, 3]], [[1, 1]] * 5, [[0, 0]] * 5,
        [F, [0.05, 0.1], [0.1, 0.1], F, [0.1, 0.2]],
        [[0, 1], [1, 1], [0, 1], [2, 3], [1, 3]]))
    results.append(check(
        "selfed line, 3 generations", [[-1, -1], [0, 0], [1, 1]], [[1, 1]] * 3,
        [[0, 0]] * 3, [F, [0.02, 0.02], [0.02, 0.02]], [[0, 1], [0, 1], [1, 1]], seed=5))
    if all(results):
        print("PASS: allele updates are stationary at the joint pedigree posterior")
        return 0
    print("FAIL: an allele update is not stationary at the joint pedigree posterior")
    return 1


if __name__ == "__main__":
    sys.exit(main())
