import sys, os
HERE = os.path.dirname(os.path.abspath(__file__)); os.chdir(os.environ.get('MCHAP_ROOT', '/repo')); sys.path.insert(0, os.getcwd()); sys.path.insert(1, HERE)
import mchap; assert mchap.__file__.startswith(os.getcwd())
import brute_force_joint as d
F=[1.0,1.0]
r=[]
r.append(d.check("tetraploid trio tau (3,1)", [[-1,-1],[-1,-1],[0,1]], [[2,2],[2,2],[3,1]], [[0,0]]*3, [F,F,[0.05,0.2]], [[0,1,1,2],[1,2,2,3],[1,1,2,3]]))
r.append(d.check("tetraploid trio tau (3,1) no error", [[-1,-1],[-1,-1],[0,1]], [[2,2],[2,2],[3,1]], [[0,0]]*3, [F,F,[0.0,0.0]], [[0,1,1,2],[1,2,2,3],[0,1,1,3]]))
r.append(d.check("tetraploid trio tau (1,3)", [[-1,-1],[-1,-1],[0,1]], [[2,2],[2,2],[1,3]], [[0,0]]*3, [F,F,[0.3,0.1]], [[0,1,1,2],[1,2,2,3],[1,1,2,3]], seed=4))
r.append(d.check("triploid from 4x x 2x, tau (2,1)", [[-1,-1],[-1,-1],[0,1]], [[2,2],[1,1],[2,1]], [[0,0]]*3, [F,F,[0.05,0.2]], [[0,1,1,2],[1,2,-1,-1],[1,1,2,-1]]))
r.append(d.check("triploid tau (2,1) lambda", [[-1,-1],[-1,-1],[0,1]], [[2,2],[1,1],[2,1]], [[0,0],[0,0],[0.2,0.0]], [F,F,[0.05,0.2]], [[0,1,1,2],[1,2,-1,-1],[1,1,2,-1]], seed=2))
r.append(d.check("clone tau (4,0)", [[-1,-1],[-1,-1],[0,1]], [[2,2],[2,2],[4,0]], [[0,0]]*3, [F,F,[0.1,0.2]], [[0,1,1,2],[1,2,2,3],[0,1,1,2]]))
r.append(d.check("one known parent tau (2,2)", [[-1,-1],[0,-1]], [[2,2],[2,2]], [[0,0]]*2, [F,[0.1,1.0]], [[0,1,1,2],[1,1,2,3]]))
r.append(d.check("one known parent tau (3,1)", [[-1,-1],[0,-1]], [[2,2],[3,1]], [[0,0]]*2, [F,[0.1,1.0]], [[0,1,1,2],[1,1,2,3]]))
r.append(d.check("balanced control", [[-1,-1],[-1,-1],[0,1]], [[2,2],[2,2],[2,2]], [[0,0]]*3, [F,F,[0.05,0.2]], [[0,1,1,2],[1,2,2,3],[1,1,2,3]]))
print(r)
