"""Known finding M (property C14): the assemble chain-incongruence flag is not a functional of the set of chains.
Run: cd /repo && /venv/bin/python /verif/findings/M/repro.py   (exits 1 while the defect is present)"""
import os, sys
sys.path.insert(0, os.getcwd())
import numpy as np
from mchap.assemble.classes import GenotypeMultiTrace
H = np.array([[0, 0], [0, 1], [1, 0], [1, 1]], dtype=np.int8)
a, b, c = H[[0, 0, 0, 1]], H[[0, 1, 2, 3]], H[[0, 0, 0, 2]]
def flag(x, y):
    g = np.array([np.tile(x, (10, 1, 1)), np.tile(y, (10, 1, 1))])
    return GenotypeMultiTrace(g, np.zeros((2, 10))).replicate_incongruence()
print("chains (AAAB, ABCD):", flag(a, b), " chains (ABCD, AAAB):", flag(b, a), " - same chains, other order")
print("chains (AAAB, AAAC):", flag(a, c), " - three alleles in a tetraploid, 2 means 'more alleles than the ploidy'")
sys.exit(0 if flag(a, b) == flag(b, a) and flag(a, c) == 1 else 1)
