"""Finding N (C13, C14): a threshold is compared exactly with a floating point sum of relative frequencies.

C13: a haplotype that occurs in every genotype of a sample's posterior has occurrence probability 1, but 0.7 + 0.2 + 0.1 is
0.9999999999999999 in floating point and `>= 1.0` fails: with --haplotype-posterior-threshold 1.0 the haplotype is not listed (the
repository's golden simple.output.nullallele.assemble.vcf pins this behaviour at CHR2_10_30).
C14: the support probability of a chain's mode is 0.1 + 0.7 = 0.7999999999999999 for 8 of 10 retained steps; at threshold 0.8 the chain
is dropped and the incongruence flag is 0 instead of 2.

run:  cd /repo && /venv/bin/python /verif/findings/N/repro.py      exit 1 = present, 0 = absent
"""
import sys
import numpy as np
from mchap.assemble.classes import PosteriorGenotypeDistribution
from mchap.assemble.haplotype_calling import call_posterior_haplotypes
from mchap.calling.classes import GenotypeAllelesMultiTrace

bad = 0
haps = {0: [0, 0], 1: [0, 1], 2: [1, 0], 3: [1, 1]}
gens = np.array([[haps[a] for a in g] for g in ([0, 1, 2], [0, 1, 3], [0, 1, 1])], dtype=np.int8)
post = PosteriorGenotypeDistribution(gens, np.array([0.7, 0.2, 0.1]))
called, ref_observed = call_posterior_haplotypes([post], threshold=1.0)
print("C13: threshold 1.0; haplotypes 00 and 01 occur in every genotype (probability 1). listed:", called.tolist(), "ref_observed:", ref_observed)
if not ref_observed or not any((h == [0, 1]).all() for h in called):
    bad += 1
chain1 = [[0, 0, 0, 1]] + [[0, 1, 1, 1]] * 7 + [[2, 2, 2, 2]] * 2
chain2 = [[2, 2, 2, 3]] * 10
trace = GenotypeAllelesMultiTrace(np.array([chain1, chain2]), np.zeros((2, 10)), 4)
flag = trace.replicate_incongruence(threshold=0.8)
print("C14: chain 1 supports alleles {0,1} in 8 of 10 steps, chain 2 {2,3} in 10 of 10; threshold 0.8 -> flag", flag, "(exact arithmetic: 2)")
if flag != 2:
    bad += 1
sys.exit(1 if bad else 0)
