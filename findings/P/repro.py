"""Known finding P (property C19): bam_region_depths relies on pysam's pileup() defaults, which filter base calls and reads that no
find-snvs option controls.  Builds a small BAM and prints the depths.  Run: cd /repo && /venv/bin/python /verif/findings/P/repro.py"""
import os, sys, tempfile
sys.path.insert(0, os.getcwd())
import numpy as np, pysam
from mchap.application.find_snvs import bam_region_depths

d = tempfile.mkdtemp()
fa = os.path.join(d, "ref.fa")
open(fa, "w").write(">chr1\n" + "A" * 60 + "\n")
pysam.faidx(fa)
header = {"HD": {"VN": "1.6", "SO": "coordinate"}, "SQ": [{"SN": "chr1", "LN": 60}], "RG": [{"ID": "rg", "SM": "s1"}]}


def write(path, reads):
    with pysam.AlignmentFile(path, "wb", header=header) as out:
        for i, (flag, qual, extra) in enumerate(reads):
            a = pysam.AlignedSegment()
            a.query_name = extra.get("name", f"r{i}")
            a.query_sequence = "A" * 20
            a.flag = flag
            a.reference_id = 0
            a.reference_start = 10
            a.mapping_quality = 60
            a.cigar = ((0, 20),)
            a.query_qualities = pysam.qualitystring_to_array(qual * 20)
            a.set_tag("RG", "rg")
            if flag & 1:
                a.next_reference_id = 0
                a.next_reference_start = 10
                a.template_length = 20
            out.write(a)
    pysam.index(path)


def depth(path):
    x = bam_region_depths([path], fa, "chr1", 15, 16, min_quality=0, skip_duplicates=False, skip_qcfail=False, skip_supplementary=False)
    return int(x[0, 0].sum())


ok = True
p = os.path.join(d, "q.bam"); write(p, [(0, "#", {})] * 5 + [(0, "I", {})] * 5)
got = depth(p); print("10 reads, 5 of them with base quality 2:", got, "(10 reads pass the configured filters)"); ok &= got == 10
p = os.path.join(d, "o.bam"); write(p, [(0x41, "I", {})] * 4 + [(0, "I", {})] * 3)
got = depth(p); print("7 reads, 4 of them paired without the proper-pair flag:", got, "(7 reads pass the configured filters)"); ok &= got == 7
sys.exit(0 if ok else 1)
