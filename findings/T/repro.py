"""Defect T (C15): a fixed SNV is restored with an allele it does not have / with the less probable allele.

DenovoMCMC._mcmc marks every (SNV, allele) whose homozygote reaches fix_homozygous and fills the template from np.where(mask):
the last marked allele of an SNV wins.  With a threshold of 0 the zero padding of SNVs with fewer alleles than max_allele is
marked too; with thresholds <= 0.5 two homozygotes of one SNV can both be marked.

run:  cd /repo && /venv/bin/python /verif/findings/T/repro.py      exit 1 = defect present, 0 = repaired
"""
import sys
import numpy as np
from mchap.assemble.mcmc import DenovoMCMC, _homozygosity_probabilities

bad = 0
# (1) threshold 0: SNV 0 has two alleles, SNV 1 three; the reads say allele 0 at both
reads = np.zeros((10, 2, 3))
reads[:, 0, :2] = (0.999, 0.001)
reads[:, 1] = (0.998, 0.001, 0.001)
trace = DenovoMCMC(ploidy=2, n_alleles=[2, 3], fix_homozygous=0.0, steps=5, chains=1, random_seed=1).fit(reads).genotypes
print("threshold 0.0, n_alleles [2, 3]: fixed alleles", trace[0, 0, 0].tolist())
if (trace[..., 0] >= 2).any():
    print("  SNV 0 restored with allele", int(trace[0, 0, 0, 0]), "but it has only 2 alleles"); bad += 1
hp = _homozygosity_probabilities(reads, np.array([2, 3], np.int8), 2, read_counts=None)
if not (trace[0, 0, 0] == hp.argmax(axis=-1)).all():
    print("  most probable homozygotes are", hp.argmax(axis=-1).tolist()); bad += 1
# (2) ties below one half: reads favour allele 0 of a biallelic SNV, both homozygotes reach 0.04
reads = np.zeros((3, 1, 2))
reads[:, 0] = (0.7, 0.3)
hp = _homozygosity_probabilities(reads, np.array([2], np.int8), 2, read_counts=None)
trace = DenovoMCMC(ploidy=2, n_alleles=[2], fix_homozygous=0.04, steps=5, chains=1, random_seed=1).fit(reads).genotypes
print("threshold 0.04: P(hom) =", hp.round(3).tolist(), "fixed allele", int(trace[0, 0, 0, 0]))
if trace[0, 0, 0, 0] != hp[0].argmax():
    print("  restored with the less probable homozygote"); bad += 1
sys.exit(1 if bad else 0)
