"""Defect U (C18, C17): hexaploid (gametes of three or more copies) Gibbs conditional is NaN and the sampler aborts.

gamete_allele_log_pmf(gamete_count, tau, parent_count, ploidy) computes (parent_count - (gamete_count - 1)) / (ploidy - (tau - 1)).
trio_allele_log_pmf enumerates every split of the progeny's alleles over the two gametes, including splits in which a gamete holds
two or more copies of an allele beyond what the parent has; those splits must contribute probability zero, but the numerator is
negative, log() gives NaN and `assert not np.isnan(lprob)` fires.  With gametes of two copies the numerator cannot go below zero, so
diploid and tetraploid pedigrees never see it.

run:  cd /repo && /venv/bin/python /verif/findings/U/repro.py      exit 1 = defect present, 0 = repaired
"""
import sys
import numpy as np
from mchap.pedigree.prior import gamete_allele_log_pmf, trio_allele_log_pmf, trio_log_pmf

bad = 0
v = gamete_allele_log_pmf.py_func(gamete_count=3, gamete_ploidy=3, parent_count=1, parent_ploidy=6)
print("gamete_allele_log_pmf(3 copies in the gamete, 1 in the parent) =", v, "(expected -inf)")
if not (v == -np.inf):
    bad += 1

progeny = np.array([0, 0, 0, 0, 1, 1]); p = np.array([0, 0, 0, 1, 1, 1]); q = np.array([0, 1, 1, 1, 1, 1])
lf = np.log(np.array([0.5, 0.5]))
def scratch():
    z = lambda: np.zeros(6, dtype=np.int64)
    return dict(dosage=z(), dosage_p=z(), dosage_q=z(), gamete_p=z(), gamete_q=z(), constraint_p=z(), constraint_q=z(),
                dosage_log_frequencies=np.zeros(6))
args = dict(progeny=progeny, parent_p=p, parent_q=q, ploidy_p=6, ploidy_q=6, tau_p=3, tau_q=3, lambda_p=0.0, lambda_q=0.0,
            error_p=0.01, error_q=0.01, log_frequencies=lf)
joint = trio_log_pmf(**args, **scratch())
print("trio_log_pmf =", joint)
for k in range(4):
    try:
        v = trio_allele_log_pmf(allele_index=k, **args, **scratch())
        print(f"trio_allele_log_pmf(allele_index={k}) =", v)
        if np.isnan(v):
            bad += 1
    except AssertionError:
        print(f"trio_allele_log_pmf(allele_index={k}) aborts with AssertionError (NaN log probability)")
        bad += 1
# the conditional must be proportional to the joint: ratio over the two alleles at copy 0 equals the ratio of the joints
if not bad:
    vals, joints = [], []
    for a in (0, 1):
        g = progeny.copy(); g[0] = a
        aa = dict(args, progeny=g)
        vals.append(trio_allele_log_pmf(allele_index=0, **aa, **scratch()))
        # ordered-state density: pmf of the sorted genotype divided by its number of orderings
        from math import factorial
        n = factorial(6) // (factorial(int((g == 0).sum())) * factorial(int((g == 1).sum())))
        joints.append(trio_log_pmf(**dict(aa, progeny=np.sort(g)), **scratch()) - np.log(n))
    print("conditional log ratio", vals[0] - vals[1], " joint log ratio", joints[0] - joints[1])
    if abs((vals[0] - vals[1]) - (joints[0] - joints[1])) > 1e-9:
        bad += 1
sys.exit(1 if bad else 0)
