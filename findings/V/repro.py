"""Defect V (C04): a read with count 0 is not "zero identical reads" when the genotype cannot have produced it.

log_likelihood multiplies log(P(read | genotype)) by the read's count; for an impossible read log(0) * 0 = -inf * 0 = NaN, so the
likelihood of the whole read set is NaN instead of the likelihood of the remaining reads.

run:  cd /repo && /venv/bin/python /verif/findings/V/repro.py      exit 1 = defect present, 0 = repaired
"""
import sys
import numpy as np
from mchap.assemble.likelihood import log_likelihood, log_likelihood_structural_change
from mchap.calling.likelihood import log_likelihood_alleles

bad = 0
reads = np.array([[[0.9, 0.1, 0.0]], [[0.0, 0.0, 1.0]]])      # the second read is allele 2 with certainty
genotype = np.array([[0], [1]], dtype=np.int8)               # a genotype without allele 2
expect = 3 * np.log(0.5 * 0.9 + 0.5 * 0.1)
for name, got in [
    ("log_likelihood", log_likelihood(reads, genotype, read_counts=np.array([3, 0]))),
    ("log_likelihood (py_func)", log_likelihood.py_func(reads, genotype, read_counts=np.array([3, 0]))),
    ("log_likelihood_structural_change", log_likelihood_structural_change(reads, genotype, np.array([1, 0]), interval=(0, 1), read_counts=np.array([3, 0]))),
    ("log_likelihood_alleles", log_likelihood_alleles(reads, np.array([3, 0]), np.array([[0], [1], [2]], dtype=np.int8), np.array([0, 1]))),
]:
    ok = np.isclose(got, expect)
    print(f"{name}: counts [3, 0] -> {got}   (the three counted reads alone: {expect:.4f})", "" if ok else "  <-- differs")
    bad += not ok
sys.exit(1 if bad else 0)
