"""Candidate W (C16): --filter-input-haplotypes on a Float INFO field at the boundary value.

pysam hands Float INFO values over at float32 precision (0.3 -> 0.30000001192...), the threshold of the filter string is parsed
as a Python float (float64).  A value written in the VCF exactly as the threshold compares as different from it.

run:  cd /repo && /venv/bin/python /verif/findings/W/repro.py      exit 1 = defect present, 0 = repaired
"""
import sys, os, tempfile
import pysam
from mchap.io.filter_alleles import parse_allele_filter, apply_allele_filter

vcf = """##fileformat=VCFv4.3
##contig=<ID=CHR1,length=100>
##INFO=<ID=AFP,Number=R,Type=Float,Description="x">
##INFO=<ID=AD,Number=R,Type=Integer,Description="x">
#CHROM	POS	ID	REF	ALT	QUAL	FILTER	INFO
CHR1	10	.	AAA	ATA,AAT	.	.	AFP=0.4,0.3,0.3;AD=4,3,3
"""
d = tempfile.mkdtemp()
path = os.path.join(d, "x.vcf")
open(path, "w").write(vcf)
rec = next(iter(pysam.VariantFile(path)))
bad = 0
for string, expect in [("AFP<=0.3", [False, True, True]), ("AFP=0.3", [False, True, True]), ("AFP>0.3", [True, False, False]),
                       ("AFP!=0.3", [True, False, False]), ("AFP>=0.3", [True, True, True]), ("AFP<0.3", [False, False, False]),
                       ("AD<=3", [False, True, True])]:
    keep = apply_allele_filter(rec, *parse_allele_filter(string)).tolist()
    print(f"{string:10s} values as written 0.4,0.3,0.3 -> keep {keep}  expected {expect}", "" if keep == expect else "  <-- differs")
    bad += keep != expect
sys.exit(1 if bad else 0)
