"""Defect X (C05, C03): the call prior without inbreeding takes log(prod f_a) over the allele copies; for pooled samples of high
ploidy and a rare allele the product underflows to 0 and the log-prior is -inf although the value is an ordinary negative number.

run:  cd /repo && /venv/bin/python /verif/findings/X/repro.py      exit 1 = defect present, 0 = repaired
"""
import sys
import numpy as np
from mchap.calling.prior import log_genotype_prior
from mchap.calling.exact import genotype_posteriors

bad = 0
f = np.array([0.001, 0.999])
g = np.zeros(108, dtype=np.int64)
v = log_genotype_prior(g, 2, inbreeding=0.0, frequencies=f)
want = 108 * np.log(0.001)
print("log_genotype_prior(108 copies of an allele of frequency 0.001, F=0) =", v, " expected", want)
bad += not np.isclose(v, want)
# effect on a posterior: pooled sample of ploidy 110, every one of 2000 reads supports the rare allele
from mchap.calling.exact import genotype_likelihoods
haplotypes = np.array([[0], [1]], dtype=np.int8)
reads = np.array([[[0.999, 0.001]]])
counts = np.array([2000])
llks = genotype_likelihoods(reads, 110, haplotypes, read_counts=counts)
post = genotype_posteriors(llks, 110, 2, inbreeding=0.0, frequencies=f)
# genotypes in VCF order: index k = number of copies of allele 1 (the common one)
k = int(np.argmax(post))
print("posterior mode has", k, "copies of the common allele; P(all 110 copies are the rare allele the reads show) =", float(post[0]))
bad += post[0] < 0.5
sys.exit(1 if bad else 0)
