"""Defect Y (C07): a target that runs past the end of its contig gives a record whose REF is shorter than [POS, END].

Locus.set_sequence fetches [start, stop) from the FASTA; pysam silently truncates at the contig end.  The locus keeps start and stop,
so assemble writes POS = start + 1, END = stop and a REF of fewer than END - POS + 1 bases (and END beyond the contig length declared
in the header).

run:  cd /repo && /venv/bin/python /verif/findings/Y/repro.py      exit 1 = defect present, 0 = repaired
"""
import sys, pathlib
from mchap.io.loci import Locus

data = pathlib.Path("mchap/tests/test_io/data")
locus = Locus(contig="CHR1", start=50, stop=70, name="X", sequence=None, variants=None)      # CHR1 of simple.fasta has 60 bases
try:
    out = locus.set_sequence(str(data / "simple.fasta"))
except ValueError as e:
    print("rejected:", e)
    sys.exit(0)
print(f"POS={out.start + 1} END={out.stop} REF={out.sequence} ({len(out.sequence)} bases for a span of {out.stop - out.start})")
sys.exit(1 if len(out.sequence) != out.stop - out.start else 0)
