"""Defect Z (C08): with --cores > 1 a fault in the writer process is lost: records are silently missing and the exit status is 0.

_run_stdout_multi_core discards the AsyncResult of the writer job.  If writing a line fails (here: a locus name that the output
encoding cannot represent; a closed pipe behaves the same way) the writer dies, every later record is dropped and the run still
exits 0.  With --cores 1 the same input fails with a traceback.

run:  cd /repo && /venv/bin/python /verif/findings/Z/repro.py      exit 1 = defect present, 0 = repaired
"""
import os, sys, subprocess, tempfile, pathlib

data = pathlib.Path("mchap/tests/test_io/data").resolve()
tmp = tempfile.mkdtemp()
bed = os.path.join(tmp, "targets.bed")
with open(bed, "w", encoding="utf-8") as fh:
    fh.write("CHR1\t5\t25\tné\nCHR1\t30\t50\tB\nCHR2\t10\t30\tC\nCHR3\t20\t40\tD\n")
cmd = [sys.executable, "-c", "import sys; from mchap.application.cli import main; sys.argv[0] = 'mchap'; main()", "assemble", "--bam", str(data / "simple.sample1.bam"), "--targets", bed,
       "--variants", str(data / "simple.vcf.gz"), "--reference", str(data / "simple.fasta"), "--ploidy", "4", "--mcmc-steps", "200",
       "--mcmc-burn", "50", "--cores", "2"]
env = dict(os.environ, PYTHONIOENCODING="ascii", PYTHONPATH=os.getcwd())
r = subprocess.run(cmd, capture_output=True, text=True, env=env, encoding="ascii", errors="replace")
records = [l for l in r.stdout.splitlines() if l and not l.startswith("#")]
print(f"--cores 2: exit status {r.returncode}, {len(records)} of 4 records written")
bad = r.returncode == 0 and len(records) != 4
sys.exit(1 if bad else 0)
