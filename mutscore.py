#!/usr/bin/env python3
"""Systematic mutation of the functions the checks analyse (not the hand-written corpus).

stage 1:  python3 mutscore.py gen ROOT OUT.json [per_function]   generate mutants, run the checks that analyse the function
stage 2:  python3 mutscore.py tests ROOT OUT.json                run the targeted tests on mutants no check reported
Mutation operators (AST level, one site per mutant): relational operator, arithmetic operator, constant, positional
argument swap, keyword value swap, statement deletion, parameter-for-parameter substitution.
"""
import ast, copy, json, os, pathlib, random, shutil, subprocess, sys, tempfile, collections
from concurrent.futures import ThreadPoolExecutor
HERE = pathlib.Path(__file__).resolve().parent

ROR = {ast.Lt: ast.LtE, ast.LtE: ast.Lt, ast.Gt: ast.GtE, ast.GtE: ast.Gt, ast.Eq: ast.NotEq, ast.NotEq: ast.Eq}
AOR = {ast.Add: ast.Sub, ast.Sub: ast.Add, ast.Mult: ast.Div, ast.Div: ast.Mult}


def sites(fn):
    """[(kind, description, mutate(fn_copy_nodes_by_index))] for one function"""
    out = []
    nodes = list(ast.walk(fn))
    params = [a.arg for a in fn.args.posonlyargs + fn.args.args + fn.args.kwonlyargs if a.arg not in ('self', 'cls')]
    for i, n in enumerate(nodes):
        if isinstance(n, ast.Compare) and len(n.ops) == 1 and type(n.ops[0]) in ROR:
            out.append(('ROR', i, f"{ast.unparse(n)}: {type(n.ops[0]).__name__} -> {ROR[type(n.ops[0])].__name__}"))
        if isinstance(n, ast.BinOp) and type(n.op) in AOR and not any(isinstance(m, ast.Constant) and isinstance(m.value, str) for m in ast.walk(n)):
            out.append(('AOR', i, f"{ast.unparse(n)}: {type(n.op).__name__} -> {AOR[type(n.op)].__name__}"))
        if isinstance(n, ast.AugAssign) and type(n.op) in AOR:
            out.append(('AOR', i, f"{ast.unparse(n)}: aug {type(n.op).__name__} -> {AOR[type(n.op)].__name__}"))
        if isinstance(n, ast.Constant) and (n.value is True or n.value is False or (isinstance(n.value, (int, float)) and n.value in (0, 1, 2, -1))):
            out.append(('CR', i, f"constant {n.value!r} at line {getattr(n, 'lineno', '?')}"))
        if isinstance(n, ast.Call):
            names = [a for a in n.args if isinstance(a, ast.Name)]
            if len(n.args) >= 2 and len(names) >= 2 and not any(isinstance(a, ast.Starred) for a in n.args):
                out.append(('ARG', i, f"{ast.unparse(n)[:80]}: first two name arguments exchanged"))
            kws = [k for k in n.keywords if k.arg and isinstance(k.value, (ast.Name, ast.Attribute, ast.Subscript))]
            if len(kws) >= 2:
                out.append(('KW', i, f"{ast.unparse(n)[:80]}: values of {kws[0].arg}= and {kws[1].arg}= exchanged"))
        if isinstance(n, ast.Name) and isinstance(n.ctx, ast.Load) and n.id in params and len(params) >= 2:
            out.append(('PAR', i, f"parameter {n.id} at line {n.lineno} replaced by another parameter"))
    # statement deletion: simple statements in any block
    for i, n in enumerate(nodes):
        for f in ('body', 'orelse'):
            b = getattr(n, f, None)
            if isinstance(b, list) and len(b) > 1:
                for k, st in enumerate(b):
                    if isinstance(st, (ast.Assign, ast.AugAssign, ast.Expr)) and not (isinstance(st, ast.Expr) and isinstance(st.value, ast.Constant)) \
                            and isinstance(st, (ast.AugAssign, ast.Expr)) or (isinstance(st, ast.Assign) and isinstance(st.targets[0], ast.Subscript)):
                        out.append(('SDL', (i, f, k), f"deleted: {ast.unparse(st)[:80]}"))
    return out


def apply(fn, kind, where, rng):
    nodes = list(ast.walk(fn))
    if kind == 'SDL':
        i, f, k = where
        getattr(nodes[i], f)[k] = ast.Pass()
        return
    n = nodes[where]
    if kind == 'ROR':
        n.ops = [ROR[type(n.ops[0])]()]
    elif kind == 'AOR':
        n.op = AOR[type(n.op)]()
    elif kind == 'CR':
        v = n.value
        n.value = (not v) if isinstance(v, bool) else {0: 1, 1: 0, 2: 1, -1: 0}[v]
    elif kind == 'ARG':
        idx = [j for j, a in enumerate(n.args) if isinstance(a, ast.Name)][:2]
        n.args[idx[0]], n.args[idx[1]] = n.args[idx[1]], n.args[idx[0]]
    elif kind == 'KW':
        kws = [k for k in n.keywords if k.arg and isinstance(k.value, (ast.Name, ast.Attribute, ast.Subscript))][:2]
        kws[0].value, kws[1].value = kws[1].value, kws[0].value
    elif kind == 'PAR':
        params = [a.arg for a in fn.args.posonlyargs + fn.args.args + fn.args.kwonlyargs if a.arg not in ('self', 'cls')]
        others = [p for p in params if p != n.id]
        n.id = rng.choice(others)


def find_function(tree, qual):
    """qual: 'func' or 'Class.method'"""
    parts = qual.split('.')
    body = tree.body
    node = None
    for p in parts:
        node = next((n for n in body if isinstance(n, (ast.FunctionDef, ast.ClassDef)) and n.name == p), None)
        if node is None:
            return None
        body = node.body
    return node if isinstance(node, ast.FunctionDef) else None


def function_map(root, evdir):
    m = collections.defaultdict(list)
    for i in range(1, 21):
        pid = f"C{i:02d}"
        subprocess.run([sys.executable, str(HERE / "check.py"), pid, "--root", root, "--evidence", evdir], capture_output=True)
        ev = json.load(open(f"{evdir}/{pid}.json"))
        for f in ev['coverage']['functions_analysed']:
            m[f].append(pid)
    return m


def module_of(root, fq):
    parts = fq.split('.')
    for k in range(len(parts) - 1, 0, -1):
        p = pathlib.Path(root, *parts[:k]).with_suffix('.py')
        if p.exists():
            return str(p.relative_to(root)), '.'.join(parts[k:])
        p = pathlib.Path(root, *parts[:k], '__init__.py')
        if p.exists() and k < len(parts):
            pass
    return None, None


def run_mutant(root, m, evroot):
    tmp = tempfile.mkdtemp(prefix="sa_mut_")
    try:
        shutil.copytree(pathlib.Path(root) / "mchap", pathlib.Path(tmp) / "mchap", ignore=shutil.ignore_patterns("tests", "__pycache__", "*.nbi", "*.nbc"))
        (pathlib.Path(tmp) / m['file']).write_text(m['source'])
        hits = []
        for pid in m['props']:
            r = subprocess.run([sys.executable, str(HERE / "check.py"), pid, "--root", tmp, "--evidence", tmp + "/ev"], capture_output=True, text=True)
            if r.returncode == 1:
                rules = sorted({l.strip().split(" construct=")[0] for l in r.stdout.splitlines() if l.strip().startswith("rule=")})
                hits.append((pid, 'violation', rules[:3]))
            elif r.returncode == 2:
                err = [l for l in r.stdout.splitlines() if l.startswith("ANALYSIS-ERROR")]
                hits.append((pid, 'analysis-error', err[:1]))
        return hits
    finally:
        shutil.rmtree(tmp, ignore_errors=True)


def gen(root, out, per_function=12):
    rng = random.Random(20260101)
    evdir = tempfile.mkdtemp(prefix="sa_ev_")
    fmap = function_map(root, evdir)
    mutants = []
    prefix = os.environ.get('MUT_PREFIX', '')
    for fq, props in sorted(fmap.items()):
        if not fq.startswith(prefix):
            continue
        rel, qual = module_of(root, fq)
        if rel is None:
            continue
        src = pathlib.Path(root, rel).read_text()
        tree = ast.parse(src)
        fn = find_function(tree, qual)
        if fn is None:
            continue
        ss = sites(fn)
        rng.shuffle(ss)
        # balanced over operator kinds
        bykind = collections.defaultdict(list)
        for s in ss:
            bykind[s[0]].append(s)
        chosen = []
        while len(chosen) < per_function and any(bykind.values()):
            for k in sorted(bykind):
                if bykind[k] and len(chosen) < per_function:
                    chosen.append(bykind[k].pop())
        for kind, where, desc in chosen:
            t2 = ast.parse(src)
            f2 = find_function(t2, qual)
            apply(f2, kind, where, rng)
            ast.fix_missing_locations(t2)
            new = ast.unparse(t2)
            if new == ast.unparse(ast.parse(src)):
                continue
            try:
                compile(new, rel, 'exec')
            except Exception:
                continue
            mutants.append(dict(id=len(mutants), file=rel, function=fq, kind=kind, desc=desc, props=props, source=new))
    print(f"{len(mutants)} mutants over {len(fmap)} functions", flush=True)
    with ThreadPoolExecutor(max_workers=16) as ex:
        res = list(ex.map(lambda m: run_mutant(root, m, evdir), mutants))
    for m, h in zip(mutants, res):
        m['hits'] = h
    shutil.rmtree(evdir, ignore_errors=True)
    json.dump(mutants, open(out, 'w'))
    summarise(mutants)


def summarise(mutants):
    n = len(mutants)
    viol = sum(1 for m in mutants if any(h[1] == 'violation' for h in m['hits']))
    aerr = sum(1 for m in mutants if not any(h[1] == 'violation' for h in m['hits']) and any(h[1] == 'analysis-error' for h in m['hits']))
    print(f"mutants={n} reported-as-violation={viol} analysis-error-only={aerr} silent={n - viol - aerr}")
    byk = collections.Counter((m['kind'], 'hit' if m['hits'] else 'silent') for m in mutants)
    for k in sorted({m['kind'] for m in mutants}):
        print(f"  {k}: hit {byk[(k, 'hit')]}  silent {byk[(k, 'silent')]}")
    if any('tests' in m for m in mutants):
        surv = [m for m in mutants if not m['hits'] and m.get('tests') == 'pass']
        killed = [m for m in mutants if not m['hits'] and m.get('tests') == 'fail']
        print(f"silent mutants: killed by targeted tests {len(killed)}, surviving targeted tests {len(surv)}")


TESTS = {
    'mchap/assemble/': lambda mod: [f"mchap/tests/test_assemble/test_{mod}.py"],
    'mchap/calling/': lambda mod: [f"mchap/tests/test_calling/test_calling_{mod}.py"],
    'mchap/pedigree/': lambda mod: [f"mchap/tests/test_pedigree/test_pedigree_{mod}.py"],
    'mchap/io/': lambda mod: [f"mchap/tests/test_io/test_{mod}.py"],
    'mchap/application/': lambda mod: [f"mchap/tests/test_application_{mod}.py"] if mod not in ('baseclass', 'arguments') else ["mchap/tests/test_application_call_exact.py"],
    'mchap/encoding/': lambda mod: ["mchap/tests/test_encoding"],
    'mchap/': lambda mod: [f"mchap/tests/test_{mod}.py"],
}


def run_tests(root, m):
    tmp = tempfile.mkdtemp(prefix="sa_mt_")
    try:
        dst = pathlib.Path(tmp) / "repo"
        shutil.copytree(root, dst, ignore=shutil.ignore_patterns("__pycache__", "*.nbi", "*.nbc", ".git"))
        (dst / m['file']).write_text(m['source'])
        rel = m['file']
        mod = pathlib.Path(rel).stem
        files = []
        for pre, fn in TESTS.items():
            if rel.startswith(pre) and (pre != 'mchap/' or rel.count('/') == 1):
                files = fn(mod)
                break
        files = [f for f in dict.fromkeys(files) if (dst / f).exists()]
        env = dict(os.environ, PATH="/venv/bin:" + os.environ.get("PATH", ""), PYTHONPATH=str(dst), NUMBA_CACHE_DIR=str(pathlib.Path(tmp) / "nb"))
        r = subprocess.run(["/venv/bin/python", "-m", "pytest", "-q", "-x", "-p", "no:cacheprovider", "--timeout=900",
                            "--deselect", "mchap/tests/test_jitutils.py::test_comb"] + files, cwd=dst, env=env, capture_output=True, text=True, timeout=900)
        tail = r.stdout.strip().splitlines()[-1] if r.stdout.strip() else ''
        return ('pass' if r.returncode == 0 else 'fail'), tail, files
    except subprocess.TimeoutExpired:
        return 'timeout', '', []
    finally:
        shutil.rmtree(tmp, ignore_errors=True)


def tests(root, out):
    mutants = json.load(open(out))
    todo = [m for m in mutants if not m['hits'] and 'tests' not in m and not (m['kind'] == 'CR' and 'True' in m['desc'])]
    print(f"{len(todo)} silent mutants to test", flush=True)
    import threading
    lock = threading.Lock()
    done = [0]

    def work(m):
        verdict, tail, files = run_tests(root, m)
        with lock:
            m['tests'], m['tests_tail'], m['tests_files'] = verdict, tail, files
            done[0] += 1
            if done[0] % 20 == 0:
                json.dump(mutants, open(out, 'w'))
                print(f"{done[0]} tested", flush=True)
    with ThreadPoolExecutor(max_workers=13) as ex:
        list(ex.map(work, todo))
    json.dump(mutants, open(out, 'w'))
    summarise(mutants)


def recheck(root, out, prefix):
    """re-run the checks on the stored mutants of functions whose qualified name starts with prefix (does not rewrite OUT)"""
    mutants = [m for m in json.load(open(out)) if m['function'].startswith(prefix)]
    with ThreadPoolExecutor(max_workers=8) as ex:
        res = list(ex.map(lambda m: run_mutant(root, m, None), mutants))
    for m, h in zip(mutants, res):
        was = 'HIT ' if m['hits'] else 'miss'
        now = 'HIT ' if h else 'miss'
        print(f"{was}->{now} {m.get('tests', '?'):5s} {m['function'].split('.')[-1]:32s} {m['kind']:3s} {m['desc'][:90]} {[x[2][:1] for x in h]}")


if __name__ == "__main__":
    if sys.argv[1] == 'recheck':
        recheck(sys.argv[2], sys.argv[3], sys.argv[4])
    elif sys.argv[1] == 'gen':
        gen(sys.argv[2], sys.argv[3], int(sys.argv[4]) if len(sys.argv) > 4 else 12)
    elif sys.argv[1] == 'tests':
        tests(sys.argv[2], sys.argv[3])
    else:
        summarise(json.load(open(sys.argv[2])))
