#!/usr/bin/env python3
"""Whole-tree behaviour-preserving transformations; every check must give the same verdicts as on the source tree.
 T1: ast.unparse round trip of every module (reformatting, comments dropped)
 T2: rename every local variable (not parameters, not globals) of every function: name -> name_zz
 T3: reverse the order of top-level function definitions in every module (keeps decorators; skips modules with module-level code using them)"""
import ast, sys, shutil, tempfile, pathlib, subprocess, builtins
HERE = pathlib.Path(__file__).resolve().parent

class RenameLocals(ast.NodeTransformer):
    def visit_FunctionDef(self, node):
        params = {a.arg for a in node.args.posonlyargs + node.args.args + node.args.kwonlyargs}
        if node.args.vararg: params.add(node.args.vararg.arg)
        if node.args.kwarg: params.add(node.args.kwarg.arg)
        stored = set()
        for n in ast.walk(node):
            if isinstance(n, ast.Name) and isinstance(n.ctx, ast.Store):
                stored.add(n.id)
            if isinstance(n, (ast.Global, ast.Nonlocal)):
                params |= set(n.names)
        # nested function names / lambda args are left alone
        for n in ast.walk(node):
            if isinstance(n, (ast.FunctionDef, ast.Lambda)) and n is not node:
                return node
        local = stored - params - {'_'}
        class R(ast.NodeTransformer):
            def visit_Name(s, n):
                if n.id in local:
                    return ast.copy_location(ast.Name(id=n.id + '_zz', ctx=n.ctx), n)
                return n
            def visit_ExceptHandler(s, n):
                s.generic_visit(n)
                return n
        node = R().visit(node)
        return node

class SwapCommutative(ast.NodeTransformer):
    """a + b -> b + a and a * b -> b * a where both operands are plainly numeric expressions"""
    depth = 0
    def visit_FunctionDef(self, node):
        self.depth += 1
        self.generic_visit(node)
        self.depth -= 1
        return node
    def visit_BinOp(self, node):
        self.generic_visit(node)
        if not self.depth:
            return node          # module level: parser argument lists are concatenated with +
        def texty(n):
            return any(isinstance(m, (ast.Constant,)) and isinstance(m.value, (str, bytes)) for m in ast.walk(n)) or \
                any(isinstance(m, (ast.JoinedStr, ast.Tuple, ast.List, ast.ListComp, ast.Dict)) for m in ast.walk(n)) or \
                any(isinstance(m, ast.Attribute) and m.attr in ('shape', 'alts', 'sequence', 'ref', 'id') for m in ast.walk(n)) or \
                any(isinstance(m, ast.Call) and ast.unparse(m.func) in ('str', 'list', 'tuple', 'np.char.add', 'vcfstr') for m in ast.walk(n))
        def numeric(n):
            if isinstance(n, ast.Constant):
                return isinstance(n.value, (int, float)) and not isinstance(n.value, bool)
            if isinstance(n, ast.Call):
                fn = ast.unparse(n.func)
                return fn == 'len' or fn.startswith(('np.log', 'np.exp', 'np.sum', 'math.', 'np.minimum', 'lgamma', 'np.prod'))
            if isinstance(n, ast.BinOp):
                return isinstance(n.op, (ast.Sub, ast.Mult, ast.Div, ast.Pow, ast.FloorDiv, ast.Mod)) or numeric(n.left) or numeric(n.right)
            if isinstance(n, ast.UnaryOp):
                return isinstance(n.op, ast.USub)
            if isinstance(n, ast.Subscript):
                return not any(isinstance(m, ast.Slice) for m in ast.walk(n.slice))
            return False
        if isinstance(node.op, (ast.Add, ast.Mult)) and not texty(node.left) and not texty(node.right) and (numeric(node.left) or numeric(node.right)):
            return ast.copy_location(ast.BinOp(left=node.right, op=node.op, right=node.left), node)
        return node


class SplitTemporaries(ast.NodeTransformer):
    """x = <a> <op> <b>  ->  tmp_k = <a>; x = tmp_k <op> <b>   (inside function bodies, simple Name targets)"""
    def __init__(self):
        self.k = 0
    def visit_FunctionDef(self, node):
        self.generic_visit(node)
        node.body = self._split(node.body)
        return node
    def _split(self, stmts):
        out = []
        for st in stmts:
            for field in ('body', 'orelse', 'finalbody'):
                if hasattr(st, field) and isinstance(getattr(st, field), list) and not isinstance(st, (ast.FunctionDef, ast.ClassDef)):
                    setattr(st, field, self._split(getattr(st, field)))
            if isinstance(st, ast.Assign) and len(st.targets) == 1 and isinstance(st.targets[0], ast.Name) and isinstance(st.value, ast.BinOp) \
                    and isinstance(st.value.left, (ast.Name, ast.BinOp, ast.Call)):
                self.k += 1
                tmp = f"tmp_sp_{self.k}"
                out.append(ast.copy_location(ast.Assign(targets=[ast.Name(id=tmp, ctx=ast.Store())], value=st.value.left), st))
                st.value = ast.BinOp(left=ast.Name(id=tmp, ctx=ast.Load()), op=st.value.op, right=st.value.right)
            out.append(st)
        return out


class FlipCompare(ast.NodeTransformer):
    """a < b -> b > a ; a == b -> b == a  (single comparisons only)"""
    FL = {ast.Lt: ast.Gt, ast.Gt: ast.Lt, ast.LtE: ast.GtE, ast.GtE: ast.LtE, ast.Eq: ast.Eq, ast.NotEq: ast.NotEq}
    def visit_Compare(self, node):
        self.generic_visit(node)
        if len(node.ops) == 1 and type(node.ops[0]) in self.FL:
            return ast.copy_location(ast.Compare(left=node.comparators[0], ops=[self.FL[type(node.ops[0])]()], comparators=[node.left]), node)
        return node


class ExpandAug(ast.NodeTransformer):
    """x op= e -> x = x op e for plain local names (numpy in-place semantics differ for arrays, so only names bound to
    scalars are safe: restricted to names never subscripted in the function)"""
    def visit_FunctionDef(self, node):
        subscripted = {n.value.id for n in ast.walk(node) if isinstance(n, ast.Subscript) and isinstance(n.value, ast.Name)}
        attr_used = {n.value.id for n in ast.walk(node) if isinstance(n, ast.Attribute) and isinstance(n.value, ast.Name)}
        params = {a.arg for a in node.args.args}
        returned = set()
        class R(ast.NodeTransformer):
            def visit_AugAssign(s, n):
                if isinstance(n.target, ast.Name) and n.target.id not in subscripted | attr_used | params:
                    return ast.copy_location(ast.Assign(targets=[ast.Name(id=n.target.id, ctx=ast.Store())],
                                                        value=ast.BinOp(left=ast.Name(id=n.target.id, ctx=ast.Load()), op=n.op, right=n.value)), n)
                return n
        return R().visit(node)


class InvertIf(ast.NodeTransformer):
    """if c: A else: B -> if not c: B else: A   (only when there is a non-elif else branch)"""
    def visit_If(self, node):
        self.generic_visit(node)
        if node.orelse and not (len(node.orelse) == 1 and isinstance(node.orelse[0], ast.If)) and not (len(node.body) == 1 and isinstance(node.body[0], ast.If)):
            return ast.copy_location(ast.If(test=ast.UnaryOp(op=ast.Not(), operand=node.test), body=node.orelse, orelse=node.body), node)
        return node


class ReverseKeywords(ast.NodeTransformer):
    def visit_Call(self, node):
        self.generic_visit(node)
        if len(node.keywords) > 1 and all(k.arg for k in node.keywords):
            node.keywords = list(reversed(node.keywords))
        return node


def _pure(n):
    """no calls except len/np.* attribute-free helpers, no subscript stores: evaluation order cannot matter"""
    for m in ast.walk(n):
        if isinstance(m, (ast.Call, ast.Await, ast.Yield, ast.YieldFrom, ast.NamedExpr, ast.Lambda, ast.ListComp, ast.GeneratorExp, ast.DictComp, ast.SetComp)):
            return False
    return True


class SwapBool(ast.NodeTransformer):
    """a and b -> b and a when both sides are pure and neither is a guard for the other (no subscripts / attributes of possibly-None)"""
    def visit_BoolOp(self, node):
        self.generic_visit(node)
        if len(node.values) == 2 and all(_pure(v) for v in node.values) \
                and all(isinstance(v, (ast.Name, ast.Compare)) and not any(isinstance(m, (ast.Subscript, ast.Attribute)) for m in ast.walk(v)) for v in node.values):
            node.values = list(reversed(node.values))
        return node


class SwapAdjacent(ast.NodeTransformer):
    """swap two adjacent assignments to different local names when each right-hand side is pure and independent of the other"""
    def visit_FunctionDef(self, node):
        self.generic_visit(node)
        self._blocks(node)
        return node
    def _blocks(self, node):
        for f in ('body', 'orelse', 'finalbody'):
            b = getattr(node, f, None)
            if isinstance(b, list) and b and isinstance(b[0], ast.stmt):
                i = 0
                while i + 1 < len(b):
                    a, c = b[i], b[i + 1]
                    if self._ok(a, c):
                        b[i], b[i + 1] = c, a
                        i += 2
                    else:
                        i += 1
                for st in b:
                    if not isinstance(st, (ast.FunctionDef, ast.ClassDef)):
                        self._blocks(st)
    @staticmethod
    def _ok(a, c):
        if not all(isinstance(x, ast.Assign) and len(x.targets) == 1 and isinstance(x.targets[0], ast.Name) and _pure(x.value) for x in (a, c)):
            return False
        ta, tc = a.targets[0].id, c.targets[0].id
        na = {m.id for m in ast.walk(a.value) if isinstance(m, ast.Name)}
        nc = {m.id for m in ast.walk(c.value) if isinstance(m, ast.Name)}
        return ta != tc and ta not in nc and tc not in na


class GuardClause(ast.NodeTransformer):
    """inside a for body whose last statement is `if c: pass else: B` or `if c: A else: B`: -> `if c: A; continue` followed by B"""
    def visit_For(self, node):
        self.generic_visit(node)
        if node.body and isinstance(node.body[-1], ast.If) and node.body[-1].orelse and not node.orelse:
            last = node.body[-1]
            if not any(isinstance(m, (ast.Break,)) for m in ast.walk(last)):
                new_if = ast.If(test=last.test, body=[s for s in last.body] + [ast.Continue()], orelse=[])
                node.body = node.body[:-1] + [ast.copy_location(new_if, last)] + list(last.orelse)
        return node


_SIGS = {}


def _collect_sigs(root):
    """bare function name -> parameter list, for top-level functions whose name is unique in the package"""
    seen = {}
    for p in (pathlib.Path(root) / "mchap").rglob("*.py"):
        if "tests" in p.parts:
            continue
        try:
            tree = ast.parse(p.read_text())
        except SyntaxError:
            continue
        for n in tree.body:
            if isinstance(n, ast.FunctionDef) and not n.args.vararg and not n.args.kwarg and not n.args.kwonlyargs:
                seen.setdefault(n.name, []).append([a.arg for a in n.args.args])
    return {k: v[0] for k, v in seen.items() if len(v) == 1}


class KeywordsToPositional(ast.NodeTransformer):
    """f(a, k1=x, k2=y) -> f(a, x, y) when k1, k2 are the next parameters of f in order (bare-name calls of package functions)"""
    def visit_Call(self, node):
        self.generic_visit(node)
        if isinstance(node.func, ast.Name) and node.func.id in _SIGS and not any(isinstance(a, ast.Starred) for a in node.args) \
                and all(k.arg for k in node.keywords):
            params = _SIGS[node.func.id]
            pos = len(node.args)
            kws = {k.arg: k for k in node.keywords}
            moved = []
            while pos < len(params) and params[pos] in kws:
                moved.append(kws.pop(params[pos]).value)
                pos += 1
            if moved:
                node.args = list(node.args) + moved
                node.keywords = [k for k in node.keywords if k.arg in kws]
        return node


def transform(root, kind):
    global _SIGS
    if kind in ('T13', 'TALL') and not _SIGS:
        _SIGS = _collect_sigs(root)
    tmp = tempfile.mkdtemp(prefix="sa_neutral_")
    dst = pathlib.Path(tmp) / "mchap"
    shutil.copytree(pathlib.Path(root) / "mchap", dst, ignore=shutil.ignore_patterns("tests", "__pycache__", "*.nbi", "*.nbc"))
    for p in dst.rglob("*.py"):
        src = p.read_text()
        try:
            tree = ast.parse(src)
        except SyntaxError:
            continue
        if kind == 'T2':
            tree = RenameLocals().visit(tree)
            ast.fix_missing_locations(tree)
        if kind == 'T4':
            tree = SwapCommutative().visit(tree)
            ast.fix_missing_locations(tree)
        if kind == 'T5':
            tree = SplitTemporaries().visit(tree)
            ast.fix_missing_locations(tree)
        ALL = [SwapCommutative, FlipCompare, InvertIf, ReverseKeywords, KeywordsToPositional, ExpandAug, SwapBool, SwapAdjacent, SplitTemporaries, RenameLocals]
        if kind == 'TALL':
            for cls in ALL:
                tree = cls().visit(tree)
                ast.fix_missing_locations(tree)
        for kk, cls in (('T6', FlipCompare), ('T7', ExpandAug), ('T8', InvertIf), ('T9', ReverseKeywords), ('T10', SwapBool), ('T11', SwapAdjacent), ('T12', GuardClause), ('T13', KeywordsToPositional)):
            if kind == kk:
                tree = cls().visit(tree)
                ast.fix_missing_locations(tree)
        if kind == 'T3':
            body = tree.body
            idx = [i for i, n in enumerate(body) if isinstance(n, ast.FunctionDef)]
            uses_at_module_level = any(isinstance(n, (ast.For, ast.Assign, ast.Expr)) and any(isinstance(m, ast.Call) for m in ast.walk(n)) and not isinstance(n, ast.Expr) for n in body if not isinstance(n, (ast.FunctionDef, ast.ClassDef, ast.Import, ast.ImportFrom)))
            if idx and not uses_at_module_level:
                funcs = [body[i] for i in idx][::-1]
                for i, fn in zip(idx, funcs):
                    body[i] = fn
        out = ast.unparse(tree)
        compile(out, str(p), "exec")
        p.write_text(out + "\n")
    return tmp

PROPS = None


def verdicts(root):
    out = {}
    for i in range(1, 21):
        pid = f"C{i:02d}"
        if PROPS and pid not in PROPS:
            continue
        evd = tempfile.mkdtemp(prefix="sa_ev_")      # never write into the analysed tree
        try:
            r = subprocess.run([sys.executable, str(HERE / "check.py"), pid, "--root", root, "--evidence", evd], capture_output=True, text=True)
        finally:
            shutil.rmtree(evd, ignore_errors=True)
        viol = sorted(l.strip().split(" at ")[0] for l in r.stdout.splitlines() if l.strip().startswith("rule="))
        err = [l for l in r.stdout.splitlines() if l.startswith("ANALYSIS-ERROR")]
        out[pid] = (r.returncode, viol, err[:1])
    return out


if __name__ == "__main__":
    root = sys.argv[1] if len(sys.argv) > 1 else "/repo"
    kinds = sys.argv[2].split(',') if len(sys.argv) > 2 else ["T1", "T2", "T3"]
    if len(sys.argv) > 3:
        PROPS = set(sys.argv[3].split(','))
    base = verdicts(root)
    for kind in kinds:
        tmp = transform(root, kind)
        try:
            v = verdicts(tmp)
        finally:
            shutil.rmtree(tmp, ignore_errors=True)
        diff = {p: (base[p], v[p]) for p in base if (base[p][0], base[p][1]) != (v[p][0], v[p][1])}
        print(f"{kind}: {len(base) - len(diff)}/{len(base)} properties keep their verdicts")
        for p, (a, b) in sorted(diff.items()):
            print(f"   {p}: exit {a[0]} -> {b[0]}; new: {[x for x in b[1] if x not in a[1]][:6]} {b[2]}")
