"""Effect summaries over the call graph (fixpoint): in-place mutation of parameters,
RNG draws per domain, stdout writes, writes to self attributes / module globals."""
from __future__ import annotations
import ast
from .model import Program, Func, bind_args

RNG_DRAWS = {
    "random", "rand", "randint", "choice", "shuffle", "permutation", "normal", "uniform",
    "random_sample", "beta", "binomial", "multinomial", "dirichlet", "poisson", "exponential",
}
RNG_SEEDS = {"seed"}


def _root_name(node):
    """x, x[...], x[...][...] , x.T -> 'x' (array views share storage)"""
    while isinstance(node, (ast.Subscript, ast.Attribute)):
        if isinstance(node, ast.Attribute) and node.attr not in ("T",):
            return None
        node = node.value
    return node.id if isinstance(node, ast.Name) else None


_ALIASING_CALLS = {'np.asarray', 'numpy.asarray', 'np.asanyarray', 'numpy.asanyarray', 'np.ascontiguousarray', 'np.ravel', 'np.reshape', 'np.squeeze', 'np.atleast_1d'}
_ALIASING_METHODS = {'view', 'reshape', 'ravel', 'squeeze', 'transpose', 'swapaxes'}


def _keeps_alias(value, name):
    """the right-hand side is (possibly) the very array `name` refers to: numpy returns the argument itself or a view of it"""
    if value is None:
        return False
    if isinstance(value, ast.Name):
        return value.id == name
    if isinstance(value, ast.Call):
        fn = ast.unparse(value.func)
        if fn in _ALIASING_CALLS and value.args and isinstance(value.args[0], ast.Name) and value.args[0].id == name:
            return True
        if isinstance(value.func, ast.Attribute) and value.func.attr in _ALIASING_METHODS and isinstance(value.func.value, ast.Name) and value.func.value.id == name:
            return True
    if isinstance(value, ast.Attribute) and value.attr == 'T' and isinstance(value.value, ast.Name) and value.value.id == name:
        return True
    return False


class Effects:
    def __init__(self, prog: Program):
        self.prog = prog
        self.mutates: dict[str, set] = {q: set() for q in prog.funcs}
        self.draws: dict[str, set] = {q: set() for q in prog.funcs}      # {'jit','python'}
        self.draw_sites: dict[str, list] = {q: [] for q in prog.funcs}   # direct draw call nodes
        self.seeds: dict[str, set] = {q: set() for q in prog.funcs}
        self.stdout: dict[str, list] = {q: [] for q in prog.funcs}       # direct write nodes
        self.writes_stdout: dict[str, bool] = {q: False for q in prog.funcs}
        self.self_writes: dict[str, list] = {q: [] for q in prog.funcs}
        self.global_writes: dict[str, list] = {q: [] for q in prog.funcs}
        self.callees: dict[str, set] = {q: set() for q in prog.funcs}
        self._direct()
        self._fixpoint()

    # -------------------------------------------------------------- direct effects
    def _direct(self):
        for q, f in self.prog.funcs.items():
            params = set(f.params)
            # a parameter name that has been rebound (p = p.copy(), p = np.empty(..)) no longer denotes the argument
            rebound = {}
            # `if p is None: p = default()` gives an absent argument its default: for a caller that did pass an object, p still is that object
            defaulting = set()
            for n in ast.walk(f.node):
                if isinstance(n, ast.If) and isinstance(n.test, ast.Compare) and len(n.test.ops) == 1 and isinstance(n.test.ops[0], ast.Is) \
                        and isinstance(n.test.left, ast.Name) and n.test.left.id in params \
                        and isinstance(n.test.comparators[0], ast.Constant) and n.test.comparators[0].value is None:
                    for st in n.body:
                        if isinstance(st, ast.Assign) and any(isinstance(t, ast.Name) and t.id == n.test.left.id for t in st.targets):
                            defaulting.add(id(st))
            for n in ast.walk(f.node):
                if id(n) in defaulting:
                    continue
                if isinstance(n, (ast.Assign, ast.AnnAssign)):
                    tgts = n.targets if isinstance(n, ast.Assign) else [n.target]
                    for t in tgts:
                        for tt in (t.elts if isinstance(t, (ast.Tuple, ast.List)) else [t]):
                            if isinstance(tt, ast.Name) and tt.id in params:
                                if _keeps_alias(getattr(n, 'value', None), tt.id):
                                    continue        # p = np.asarray(p) / p = p.reshape(..) still is the caller's array
                                rebound[tt.id] = min(rebound.get(tt.id, 10 ** 9), n.lineno)
            self.rebound = getattr(self, 'rebound', {})
            self.rebound[q] = rebound

            def live(name, node):
                return name in params and node.lineno <= rebound.get(name, 10 ** 9)
            for n in ast.walk(f.node):
                if isinstance(n, (ast.Assign, ast.AugAssign, ast.AnnAssign)):
                    tgts = n.targets if isinstance(n, ast.Assign) else [n.target]
                    for t in tgts:
                        for tt in (t.elts if isinstance(t, (ast.Tuple, ast.List)) else [t]):
                            if isinstance(tt, ast.Subscript):
                                r = _root_name(tt.value)
                                if r in params and live(r, n):
                                    self.mutates[q].add(r)
                            if isinstance(tt, ast.Attribute):
                                r = tt.value
                                if isinstance(r, ast.Name) and r.id == "self":
                                    self.self_writes[q].append(tt)
                                elif isinstance(r, ast.Name) and r.id in params:
                                    self.mutates[q].add(r.id)
                            if isinstance(n, ast.AugAssign) and isinstance(tt, ast.Name) and tt.id in params:
                                # x += y on an ndarray parameter mutates in place; on scalars harmless
                                pass
                if isinstance(n, ast.Global):
                    self.global_writes[q].append(n)
                if isinstance(n, ast.Call):
                    callee = self.prog.resolve_call(f, n)
                    if callee in self.prog.funcs:
                        self.callees[q].add(callee)
                        for o in self.prog.overriders(callee):
                            self.callees[q].add(o)
                    elif callee in self.prog.classes:
                        init = self.prog.find_method(self.prog.classes[callee], "__post_init__")
                        if init:
                            self.callees[q].add(init.qname)
                    d = callee
                    parts = d.split(".")
                    if len(parts) >= 2 and parts[-2] == "random" and parts[0] in ("np", "numpy"):
                        if parts[-1] in RNG_DRAWS:
                            self.draws[q].add("jit" if f.jit else "python")
                            self.draw_sites[q].append(n)
                        elif parts[-1] in RNG_SEEDS:
                            self.seeds[q].add("jit" if f.jit else "python")
                    if d in ("print",) or d.endswith("stdout.write") or d.endswith("stdout.writelines"):
                        self.stdout[q].append(n)
                    if isinstance(n.func, ast.Attribute) and n.func.attr in ("to_csv",):
                        if any("stdout" in ast.unparse(a) for a in n.args):
                            self.stdout[q].append(n)
                    if isinstance(n.func, ast.Attribute) and n.func.attr in ("sort", "fill", "append", "extend", "pop", "update", "clear"):
                        r = _root_name(n.func.value)
                        if r in params and r not in f.module.imports:
                            self.mutates[q].add(r)
                        if isinstance(n.func.value, ast.Attribute) and isinstance(n.func.value.value, ast.Name) and n.func.value.value.id == "self":
                            self.self_writes[q].append(n)
            self.writes_stdout[q] = bool(self.stdout[q])

    # -------------------------------------------------------------- propagation
    def _fixpoint(self):
        sites = {}
        for q, f in self.prog.funcs.items():
            lst = []
            for n in ast.walk(f.node):
                if isinstance(n, ast.Call):
                    callee = self.prog.resolve_call(f, n)
                    if callee in self.prog.funcs:
                        lst.append((n, callee))
            sites[q] = lst
        changed = True
        while changed:
            changed = False
            for q, f in self.prog.funcs.items():
                for n, callee in sites[q]:
                    cf = self.prog.funcs[callee]
                    if self.draws[callee] - self.draws[q]:
                        self.draws[q] |= self.draws[callee]; changed = True
                    if self.seeds[callee] - self.seeds[q]:
                        self.seeds[q] |= self.seeds[callee]; changed = True
                    if self.writes_stdout[callee] and not self.writes_stdout[q]:
                        self.writes_stdout[q] = True; changed = True
                    if self.mutates[callee]:
                        b = bind_args(cf, n)
                        for pname in self.mutates[callee]:
                            arg = b.get(pname)
                            r = _root_name(arg) if arg is not None else None
                            if r in f.params and r not in self.mutates[q] and n.lineno <= self.rebound[q].get(r, 10 ** 9):
                                self.mutates[q].add(r); changed = True

    # -------------------------------------------------------------- queries
    def mutated_args(self, f: Func, call: ast.Call):
        """root local names mutated by this call site -> (callee qname, param)"""
        callee = self.prog.resolve_call(f, call)
        out = {}
        if callee in self.prog.funcs and self.mutates[callee]:
            cf = self.prog.funcs[callee]
            b = bind_args(cf, call)
            for pname in self.mutates[callee]:
                arg = b.get(pname)
                r = _root_name(arg) if arg is not None else None
                if r:
                    out[r] = (callee, pname)
        if isinstance(call.func, ast.Attribute) and call.func.attr in ("sort", "fill", "pop", "extend", "update", "clear", "append"):
            r = _root_name(call.func.value)
            if r and r not in f.module.imports and r not in f.module.funcs and r not in f.module.classes:
                out[r] = ("." + call.func.attr, "self")
        if callee.endswith("random.shuffle") and call.args:
            r = _root_name(call.args[0])
            if r:
                out[r] = (callee, "x")
        return out

    def reachable(self, qname, within=None):
        seen, stack = set(), [qname]
        while stack:
            q = stack.pop()
            if q in seen:
                continue
            seen.add(q)
            stack.extend(self.callees.get(q, ()))
        return seen
