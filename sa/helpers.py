"""Which functions each property rests on beyond what its own rules take apart (see refspec.py).

One obligation per (property, function): the function's summary agrees with its reference in sa/specs.  A function is listed
under a property only when the property's behaviour depends on what the function computes (a change of its result can break the
property); orchestrating functions shared by many properties (`call_sample_genotypes`, `call_locus`) are deliberately not listed:
they are covered by the targeted rules of each property, and a blanket comparison would report a change under properties it does
not concern."""
from __future__ import annotations
from . import refspec

J = 'mchap.jitutils'
AM = 'mchap.assemble.'
CM = 'mchap.calling.'
PM = 'mchap.pedigree.'
BC = 'mchap.application.baseclass'

LOGSPACE = ['add_log_prob', 'sum_log_probs', 'normalise_log_probs', 'random_choice']
ASSEMBLE_LLK = (AM + 'likelihood', ['log_likelihood', 'log_likelihood_structural_change', 'new_log_likelihood_cache',
                                   'log_likelihood_cached', 'log_likelihood_structural_change_cached'])
ARRAYMAP = (AM + 'arraymap', ['new', 'set', 'get'])
MSET_COUNT = ('mchap.mset', ['unique_idx', 'unique', 'count', 'unique_counts'])

HELPERS = {
    # assemble sampler: kernels, their option generators/counters, the prior and likelihood they evaluate, the multiset helpers
    # that make the proposal ratio a function of the genotype as a multiset
    'C01': [(J, ['random_choice', 'array_equal', 'count_haplotype_copies', 'get_haplotype_dosage', 'set_haplotype_dosage',
                 'structural_change', 'ln_equivalent_permutations']),
            (AM + 'mutation', ['base_step', 'compound_step']),
            (AM + 'structural', ['_label_haplotypes', '_interval_inverse_mask', 'random_breaks', 'recombination_step_n_options',
                                 'recombination_step_options', 'dosage_step_n_options', 'dosage_step_options',
                                 'haplotype_segment_labels', 'interval_step', 'compound_step']),
            (AM + 'tempering', ['chain_swap_acceptance', 'chain_swap_step']),
            (AM + 'prior', ['log_genotype_null_prior', 'log_dirichlet_multinomial_pmf', 'log_genotype_prior']),
            (AM + 'likelihood', ['log_likelihood', 'log_likelihood_structural_change']),
            (AM + 'mcmc', ['_denovo_assembler', 'DenovoMCMC.fit'])],
    'C02': [(J, LOGSPACE),
            (CM + 'mcmc', ['mh_options', 'gibbs_options', 'compound_step', 'mcmc_sampler']),
            (CM + 'prior', ['calculate_alphas', 'log_genotype_allele_prior', 'log_genotype_prior']),
            (CM + 'likelihood', ['log_likelihood_alleles', 'log_likelihood_alleles_cached']),
            (CM + 'utils', ['count_allele', 'allelic_dosage'])],
    'C03': [(J, ['add_log_prob', 'increment_genotype', 'genotype_alleles_as_index', 'comb_with_replacement']),
            (CM + 'exact', ['_call_posterior_mode', '_genotype_support_log_joint', '_posterior_allele_frequencies', 'posterior_mode',
                            '_genotype_likelihoods', 'genotype_likelihoods', 'genotype_posteriors', 'posterior_allele_frequencies',
                            'alternate_dosage_posteriors']),
            (CM + 'prior', ['calculate_alphas', 'log_genotype_prior']),
            (CM + 'utils', ['allelic_dosage']),
            ('mchap.io.loci', ['LocusPrior.from_variant_record'])],        # the prior frequencies call-exact normalises over
    'C04': [(J, ['structural_change']),
            (AM + 'likelihood', ['log_likelihood', 'log_likelihood_structural_change']),
            (CM + 'likelihood', ['log_likelihood_alleles']),
            (PM + 'likelihood', ['log_likelihood_alleles_cached'])],
    'C05': [(J, ['ln_equivalent_permutations']),
            (AM + 'prior', ['log_genotype_null_prior', 'log_dirichlet_multinomial_pmf', 'log_genotype_prior']),
            (CM + 'prior', ['calculate_alphas', 'log_genotype_allele_prior', 'log_genotype_prior']),
            (CM + 'utils', ['count_allele', 'allelic_dosage']),
            (AM + 'snpcalling', ['snp_posterior']),                        # the single-SNV use of the call prior
            ('mchap.io.loci', ['LocusPrior.from_variant_record'])],        # frequencies handed to the priors are normalised
    'C06': [('mchap.io.bam', ['extract_read_variants', 'encode_read_alleles', 'encode_read_distributions', 'extract_sample_ids']),
            ('mchap.encoding.character.transcode', ['as_allelic']),
            ('mchap.encoding.integer.transcode', ['as_probabilistic']),
            ('mchap.io.util', ['qual_of_char', 'prob_of_qual']),
            (BC, ['program.encode_sample_reads']),
            ('mchap.application.arguments', ['parse_sample_pools']),       # which alignments make up a pool
            MSET_COUNT,
            ('mchap.io.loci', ['Locus.validate_reference_alleles', 'Locus.set_sequence', 'Locus.set_variants', 'Locus.alleles',
                               'Locus.count_alleles', 'Locus.positions'])],
    'C07': [('mchap.io.vcf.records', ['format_info_field', 'format_sample_field', 'format_record']),
            ('mchap.io.vcf.util', ['vcfstr']),
            (BC, ['program.sumarise_vcf_record', 'program.require_AFP', 'program._locus_data', 'LocusAssemblyData._sampledata_as_list',
                  'LocusAssemblyData.format_vcf_record']),
            (J, ['natural_log_to_log10', 'genotype_alleles_as_index']),
            (CM + 'utils', ['posterior_as_array']),
            (CM + 'classes', ['PosteriorGenotypeAllelesDistribution.as_array', 'GenotypeAllelesMultiTrace.relabel']),
            ('mchap.application.assemble', ['_genotype_as_alleles', '_genotype_posterior_as_array']),
            ('mchap.io.loci', ['Locus._template_sequence', 'Locus.format_haplotypes'])],
    'C08': [(J, ['seed_numba']),
            (BC, ['program.call_locus', 'program._assemble_loci_wrapped', 'program._run_stdout_single_core', 'program._worker',
                  'program._writer', 'program._run_stdout_multi_core', 'program.run_stdout']),
            ],
    'C09': [ARRAYMAP, ASSEMBLE_LLK,
            # the likelihood a sampler carries and records (R09.4)
            (AM + 'mutation', ['base_step', 'compound_step']),
            (AM + 'structural', ['interval_step', 'compound_step']),
            (CM + 'mcmc', ['mh_options', 'gibbs_options', 'compound_step', 'mcmc_sampler']),
            (PM + 'mcmc', ['metropolis_hastings_probabilities', 'gibbs_probabilities', 'allele_step', 'pair_allele_swap_step', 'compound_step',
                           'mcmc_sampler']),        # where the pedigree cache is created and how long it lives
            (CM + 'likelihood', ['log_likelihood_alleles_cached']),
            (PM + 'likelihood', ['log_likelihood_alleles_cached']),
            (AM + 'mcmc', ['_denovo_assembler']),
            (AM + 'tempering', ['chain_swap_step'])],
    'C10': [('mchap.application.arguments', ['parse_sample_pools', 'parse_sample_bam_paths']),
            ('mchap.application.assemble', ['_genotype_as_alleles', '_genotype_posterior_as_array']),     # labelling against the population list
            MSET_COUNT],
    'C11': [(J, ['_greatest_common_denominatior', '_comb', 'comb', '_comb_with_replacement', 'comb_with_replacement',
                 'genotype_alleles_as_index', 'index_as_genotype_alleles', 'increment_genotype']),
            ('mchap.combinatorics', ['count_unique_genotypes']),
            (CM + 'utils', ['posterior_as_array']),
            # where assemble places each sampled genotype in the GP vector (VCF order of its allele numbers)
            ('mchap.application.assemble', ['_genotype_posterior_as_array']),
            (CM + 'classes', ['PosteriorGenotypeAllelesDistribution.as_array'])],
    'C12': [('mchap.io.loci', ['Locus._template_sequence', 'Locus.format_haplotypes', 'Locus.alleles', 'Locus.positions',
                               'LocusPrior.encode_haplotypes', 'LocusPrior.from_variant_record', '_merge_snps']),
            ('mchap.encoding.character.transcode', ['as_allelic']),
            ('mchap.encoding.integer.transcode', ['vector_as_characters', 'as_characters']),
            ('mchap.application.call_baseclass', ['program.loci']),
            # every locus handed to the program is worked on and written exactly once (same records out as in)
            (BC, ['program._assemble_loci_wrapped', 'program._run_stdout_single_core', 'program._worker', 'program._writer',
                  'program._run_stdout_multi_core', 'program.run_stdout']),
            (CM + 'classes', ['GenotypeAllelesMultiTrace.relabel'])],
    'C13': [(AM + 'haplotype_calling', ['call_posterior_haplotypes']),
            (AM + 'classes', ['PosteriorGenotypeDistribution.allele_frequencies']),
            ('mchap.mset', ['unique_idx', 'unique', 'categorize']),
            ('mchap.application.assemble', ['_genotype_as_alleles', '_genotype_posterior_as_array'])],
    'C14': [(AM + 'classes', ['PosteriorGenotypeDistribution.mode', 'PosteriorGenotypeDistribution.mode_genotype_support',
                              'PosteriorGenotypeDistribution.allele_frequencies', 'GenotypeSupportDistribution.alleles',
                              'GenotypeSupportDistribution.mode_genotype', 'GenotypeSupportDistribution.call_genotype_support',
                              'GenotypeMultiTrace.__post_init__', 'GenotypeMultiTrace.burn', 'GenotypeMultiTrace.posterior',
                              'GenotypeMultiTrace.split', 'GenotypeMultiTrace.replicate_incongruence']),
            (CM + 'classes', ['_posterior_frequencies', 'GenotypeAllelesMultiTrace.relabel', 'GenotypeAllelesMultiTrace.burn',
                              'GenotypeAllelesMultiTrace.posterior', 'GenotypeAllelesMultiTrace.split',
                              'GenotypeAllelesMultiTrace.replicate_incongruence', 'GenotypeAllelesMultiTrace.posterior_frequencies',
                              'PosteriorGenotypeAllelesDistribution.mode', 'PosteriorGenotypeAllelesDistribution.as_array']),
            (PM + 'classes', ['_trace_incongruence', 'PedigreeAllelesMultiTrace.burn', 'PedigreeAllelesMultiTrace.individual',
                              'PedigreeAllelesMultiTrace.incongruence']),
            (CM + 'utils', ['posterior_as_array']),
            ('mchap.mset', ['unique_idx', 'unique', 'categorize', 'count', 'unique_counts', 'intercept', 'union']),
            ('mchap.encoding.integer.sequence', ['argsort', 'sort']),
            (J, ['genotype_alleles_as_index'])],
    'C15': [(J, ['sample_snv_alleles', 'random_choice', 'genotype_alleles_as_index']),
            (AM + 'mutation', ['compound_step']),
            (AM + 'structural', ['random_breaks', 'compound_step']),
            (AM + 'mcmc', ['_homozygosity_probabilities', 'DenovoMCMC._mcmc', '_point_beta_probabilities', '_read_mean_dist']),
            (AM + 'snpcalling', ['snp_posterior'])],
    'C16': [('mchap.io.filter_alleles', ['parse_allele_filter', 'apply_allele_filter']),
            ('mchap.io.loci', ['LocusPrior.from_variant_record']),
            ('mchap.application.call_baseclass', ['program.loci']),
            (CM + 'classes', ['GenotypeAllelesMultiTrace.relabel'])],
    'C17': [(J, ['add_log_prob', 'ln_equivalent_permutations', 'comb', '_comb', '_greatest_common_denominatior']),
            (PM + 'prior', ['set_allelic_dosage', 'set_parental_copies', 'set_complimentary_gamete', 'set_dosage_frequencies',
                            'log_unknown_dosage_prior', 'dosage_permutations', 'set_initial_dosage', 'increment_dosage',
                            'double_reduction_permutations', 'gamete_log_pmf', 'trio_log_pmf']),
            (PM + 'validation', ['duo_valid', 'trio_valid']),
            (PM + 'classes', ['_trace_incongruence'])],
    'C18': [(J, LOGSPACE),
            (PM + 'mcmc', ['sample_step', 'sample_children_matrix', 'parental_pair_markov_blankets', 'metropolis_hastings_probabilities',
                           'gibbs_probabilities', 'allele_step', 'compound_step', 'pair_allele_swap_step', 'mcmc_sampler']),
            (PM + 'prior', ['set_allelic_dosage', 'set_parental_copies', 'set_complimentary_gamete', 'set_dosage_frequencies',
                            'log_unknown_dosage_prior', 'log_unknown_const_prior', 'dosage_permutations', 'set_initial_dosage',
                            'increment_dosage', 'double_reduction_permutations', 'gamete_log_pmf', 'gamete_const_log_pmf',
                            'gamete_allele_log_pmf', 'trio_log_pmf', 'markov_blanket_log_probability',
                            'generic_markov_blanket_log_probability', 'trio_allele_log_pmf', 'markov_blanket_log_allele_probability']),
            (PM + 'likelihood', ['log_likelihood_alleles_cached']),
            (CM + 'utils', ['count_allele'])],
    'C19': [('mchap.application.find_snvs', ['_ord_to_index', 'bases_to_indices', '_count_alleles', 'bam_samples', 'bam_region_depths',
                                             '_order_by', '_vcf_sort_alleles', '_order_as_vcf_alleles', 'format_allele_counts',
                                             'format_samples_columns', 'write_vcf_block', 'format_floats', 'write_vcf_header', 'main'])],
    'C20': [('mchap.application.atomize', ['get_haplotype_snvs', 'format_snv_alleles', 'get_haplotype_snv_indices', 'get_sample_snv_ACP',
                                           'format_allele_floats', 'get_sample_snv_GT', 'get_sample_snv_PQ', 'get_sample_snv_depth',
                                           'format_vcf_snv_block', 'atomize_vcf'])],
}


# command-line values reach the programs unchanged: parsing of option values and their hand-over to the program objects, attributed
# to the properties whose statements are about those options
_ARGS = {
    'parse_sample_pools': ['C06'],
    'parse_sample_bam_paths': ['C06'],
    'parse_sample_value_map': ['C05', 'C07', 'C17'],
    'parse_pedigree_arguments': ['C17', 'C18'],
    'parse_sample_temperatures': ['C01'],
    'parse_report_fields': ['C07'],
    'collect_default_program_arguments': ['C05', 'C06', 'C07', 'C08', 'C16'],
    'collect_call_exact_program_arguments': ['C03', 'C16'],
    'collect_default_mcmc_program_arguments': ['C08', 'C14'],
    'collect_call_mcmc_program_arguments': ['C02', 'C14'],
    'collect_call_pedigree_mcmc_program_arguments': ['C17', 'C18'],
    'collect_assemble_mcmc_program_arguments': ['C01', 'C13', 'C15'],
    'Parameter.add_to': ['C08'],
    'BooleanFlag.add_to': ['C08'],
}
# the remaining functions the programs run through (header, locus construction, dispatch), attributed the same way
_MORE = {
    # attribution after round d
    ('mchap.application.baseclass', 'program.encode_sample_reads'): ['C03'],       # the read tensor and counts every likelihood is taken of
    # attribution after round e: the genotype index keys the likelihood caches of the calling and pedigree samplers
    ('mchap.jitutils', 'genotype_alleles_as_index'): ['C09', 'C18'],
    ('mchap.jitutils', 'comb_with_replacement'): ['C09', 'C18'],
    ('mchap.jitutils', '_comb_with_replacement'): ['C09', 'C18'],
    ('mchap.jitutils', 'comb'): ['C09', 'C18'],
    ('mchap.jitutils', '_comb'): ['C09', 'C18'],
    # DP, RCOUNT, RCALLS and SNVDP are counts of the read matrix *as written*: the number formatting and the INFO sums are part of C06
    ('mchap.io.vcf.util', 'vcfstr'): ['C06'],
    ('mchap.io.vcf.records', 'format_sample_field'): ['C06'],
    ('mchap.io.vcf.records', 'format_info_field'): ['C06'],
    ('mchap.application.baseclass', 'program.sumarise_vcf_record'): ['C06'],
    ('mchap.application.baseclass', 'LocusAssemblyData._sampledata_as_list'): ['C06'],
    ('mchap.calling.likelihood', 'log_likelihood_alleles_cached'): ['C04'],         # the value the calling sampler takes as the read likelihood
    ('mchap.application.baseclass', 'program.require_AFP'): ['C03'],                # which report fields switch the posterior summaries on
    ('mchap.calling.classes', 'CallingMCMC.fit'): ['C02', 'C14'],                 # chains run, collected and wrapped into the multi-trace
    ('mchap.pedigree.classes', 'PedigreeCallingMCMC.fit'): ['C18', 'C14'],
    ('mchap.io.loci', '_merge_snps'): ['C06'],
    ('mchap.io.loci', 'Locus.set_variants'): ['C12'],                               # which variant records belong to a locus (SNVPOS)
    ('mchap.application.assemble', '_genotype_posterior_as_array'): ['C14'],      # GP of assemble: the retained trace's genotype frequencies by G-index                                       # records of one position must share the reference base
    ('mchap.application.baseclass', 'program.header'): ['C07', 'C08'],
    ('mchap.application.baseclass', 'program.header_contigs'): ['C07'],
    ('mchap.application.assemble', 'program.header_contigs'): ['C07'],
    ('mchap.application.assemble', 'program.loci'): ['C12', 'C08'],
    ('mchap.application.assemble', 'program.cli'): ['C08', 'C15'],
    ('mchap.application.call', 'program.cli'): ['C08'],
    ('mchap.application.call_exact', 'program.cli'): ['C08'],
    ('mchap.application.call_pedigree', 'program.cli'): ['C08', 'C17'],
    ('mchap.application.cli', 'main'): ['C08'],
    ('mchap.application.atomize', 'main'): ['C20'],
    ('mchap.application.find_snvs', 'format_genotype_calls'): ['C19'],
    ('mchap.io.loci', 'read_bed4'): ['C12', 'C08'],
    ('mchap.io.loci', '_parse_bed4_line'): ['C12'],
    ('mchap.io.loci', 'Locus.set'): ['C12'],
    ('mchap.io.loci', 'Locus.range'): ['C12'],
    ('mchap.io.loci', 'Locus.from_region_string'): ['C12'],
    ('mchap.io.loci', 'Locus.format_variants'): ['C12'],
    ('mchap.io.loci', 'LocusPrior.set'): ['C12'],
    ('mchap.io.loci', 'LocusPrior.set_sequence'): ['C12'],
    ('mchap.io.loci', 'LocusPrior.set_variants'): ['C12'],
    ('mchap.io.util', 'qual_of_prob'): ['C07', 'C14'],
    ('mchap.io.vcf.contigs', 'ContigHeader.__str__'): ['C07'],
    ('mchap.io.vcf.filters', 'VariantFilter.__str__'): ['C07'],
    ('mchap.io.vcf.formatfields', 'FormatField.__str__'): ['C07'],
    ('mchap.io.vcf.infofields', 'InfoField.__str__'): ['C07'],
}
for _fn in ('ContigHeader.__str__', 'MetaHeader.__str__', 'columns', 'commandline', 'filedate', 'fileformat', 'phasing', 'randomseed', 'reference', 'source'):
    _MORE[('mchap.io.vcf.headermeta', _fn)] = ['C07', 'C08']
for (_mod, _name), _pids in _MORE.items():
    for _pid in _pids:
        _entry = [e for e in HELPERS[_pid] if e[0] == _mod]
        if _entry:
            if _name not in _entry[0][1]:
                _entry[0][1].append(_name)
        else:
            HELPERS[_pid].append((_mod, [_name]))
for _name, _pids in _ARGS.items():
    for _pid in _pids:
        _entry = [e for e in HELPERS[_pid] if e[0] == 'mchap.application.arguments']
        if _entry:
            if _name not in _entry[0][1]:
                _entry[0][1].append(_name)
        else:
            HELPERS[_pid].append(('mchap.application.arguments', [_name]))

APP = 'mchap.application.'
CSG = 'program.call_sample_genotypes'
_TRACE_C = [CM + 'classes.GenotypeAllelesMultiTrace', CM + 'classes.PosteriorGenotypeAllelesDistribution']
_SUMMARY_FIELDS = ['GT', 'GPM', 'GQ', 'SPM', 'SQ', 'MCI', 'AFP', 'ACP', 'AOP', 'GP']

# what a property owns inside a shared function: (module, description, callee prefixes, output fields[, argument names[, function]])
# the function defaults to program.call_sample_genotypes of the application module
SLICES = {
    'C01': [('assemble', 'construction and fit of the assembly sampler', [AM + 'mcmc.DenovoMCMC'], None)],
    'C15': [('assemble', 'construction and fit of the assembly sampler', [AM + 'mcmc.DenovoMCMC'], None)],
    'C02': [('call', 'construction, fit and burn-in of the calling sampler', [CM + 'classes.CallingMCMC', CM + 'classes.GenotypeAllelesMultiTrace.burn'], None),
            (CM + 'classes', 'what fit hands to the sampler', [CM + 'mcmc.mcmc_sampler'], None, None, 'CallingMCMC.fit')],
    'C11': [('call', 'allele count that sizes the genotype vectors', [CM + 'classes.GenotypeAllelesMultiTrace.relabel', CM + 'classes.PosteriorGenotypeAllelesDistribution.as_array'], ['GP']),
            ('call_pedigree', 'allele count that sizes the genotype vectors', [CM + 'classes.GenotypeAllelesMultiTrace.relabel', CM + 'classes.PosteriorGenotypeAllelesDistribution.as_array',
                                                                              PM + 'classes.PedigreeAllelesMultiTrace.individual'], ['GP']),
            ('call_exact', 'allele count that sizes the genotype vectors', [CM + 'exact.genotype_likelihoods', CM + 'exact.genotype_posteriors'], ['GP', 'GL'])],
    'C05': [(AM + 'mcmc', 'prior parameters handed to every move of the assembly sampler', [AM + 'mutation.', AM + 'structural.', AM + 'tempering.'],
             None, ['inbreeding', 'log_unique_haplotypes', 'unique_haplotypes'], '_denovo_assembler'),
            # the prior a sample is called under is the one of its own inbreeding coefficient and of the locus frequencies
            ('call', 'prior parameters of the calling sampler', [CM + 'classes.CallingMCMC'], None, ['inbreeding', 'frequencies']),
            ('call_exact', 'prior parameters of the exact caller', [CM + 'exact.'], None, ['inbreeding', 'frequencies'])],
    'C10': [('assemble', 'per-sample parameters of the sampler', [AM + 'mcmc.DenovoMCMC'], None, ['ploidy', 'inbreeding', 'temperatures']),
            ('call', 'per-sample parameters of the sampler', [CM + 'classes.CallingMCMC'], None, ['ploidy', 'inbreeding']),
            ('call_exact', 'per-sample parameters of the exact caller', [CM + 'exact.'], None, ['ploidy', 'inbreeding']),
            # what a sample's GT means must not depend on what the other samples carry: labels against the population list
            ('assemble', 'labelling of each sample against the population list', [AM + 'haplotype_calling.', APP + 'assemble._genotype', 'mchap.mset.categorize'], ['GT'])],
    'C09': [(PM + 'classes', 'what fit hands to the sampler (no cache from outside the fit)', [PM + 'mcmc.mcmc_sampler'], None, None, 'PedigreeCallingMCMC.fit'),
            (CM + 'classes', 'what fit hands to the sampler (no cache from outside the fit)', [CM + 'mcmc.mcmc_sampler'], None, None, 'CallingMCMC.fit')],
    'C03': [('call_exact', 'exact posterior calls and the fields derived from them', [CM + 'exact.', J + '.index_as_genotype_alleles'],
             ['GT', 'GPM', 'GQ', 'SPM', 'SQ', 'AFP', 'ACP', 'AOP', 'GP', 'GL'])],
    'C13': [('assemble', 'haplotype reporting', [AM + 'haplotype_calling.', APP + 'assemble._genotype', 'mchap.mset.categorize'],
             ['GT', 'GP', 'AFP', 'AOP', 'ACP', 'REFMASKED'])],
    'C12': [('call', 'alleles of the written genotype', [CM + 'classes.CallingMCMC', CM + 'classes.GenotypeAllelesMultiTrace.relabel'], ['GT']),
            ('call_exact', 'alleles of the written genotype', [CM + 'exact.'], ['GT']),
            ('call_pedigree', 'alleles of the written genotype', [PM + 'classes.PedigreeCallingMCMC', CM + 'classes.GenotypeAllelesMultiTrace.relabel'], ['GT'])],
    'C14': [('assemble', 'trace summaries', [AM + 'classes.'], ['GPM', 'GQ', 'SPM', 'SQ', 'MCI']),
            ('call', 'trace summaries', _TRACE_C, _SUMMARY_FIELDS),
            ('call_pedigree', 'trace summaries', _TRACE_C + [PM + 'classes.PedigreeAllelesMultiTrace.burn', PM + 'classes.PedigreeAllelesMultiTrace.individual'], _SUMMARY_FIELDS)],
    'C16': [('call', 'masked alleles and prior frequencies', [CM + 'classes.CallingMCMC', CM + 'classes.GenotypeAllelesMultiTrace.relabel'], ['AFPRIOR', 'GT']),
            ('call_exact', 'prior frequencies', [CM + 'exact.'], ['AFPRIOR'], ['frequencies', 'haplotypes']),
            ('call_pedigree', 'masked alleles and prior frequencies', [PM + 'classes.PedigreeCallingMCMC', CM + 'classes.GenotypeAllelesMultiTrace.relabel'], ['AFPRIOR', 'GT'])],
    # every per-sample field of a record is computed from that sample's own posterior / trace, with that sample's ploidy
    'C07': [('assemble', 'per-sample fields of the record', [AM + 'classes.', APP + 'assemble._genotype'], _SUMMARY_FIELDS),
            ('call', 'per-sample fields of the record', _TRACE_C, _SUMMARY_FIELDS),
            ('call_exact', 'per-sample fields of the record', [CM + 'exact.', J + '.index_as_genotype_alleles'],
             ['GT', 'GPM', 'GQ', 'SPM', 'SQ', 'AFP', 'ACP', 'AOP', 'GP', 'GL']),
            ('call_pedigree', 'per-sample fields of the record',
             _TRACE_C + [PM + 'classes.PedigreeAllelesMultiTrace.burn', PM + 'classes.PedigreeAllelesMultiTrace.individual'], _SUMMARY_FIELDS)],
    'C17': [('call_pedigree', 'pedigree error statistic', [PM + 'classes.PedigreeAllelesMultiTrace.incongruence'], ['PEDERR'])],
    'C18': [('call_pedigree', 'construction, fit and burn-in of the pedigree sampler',
             [PM + 'classes.PedigreeCallingMCMC', PM + 'classes.PedigreeAllelesMultiTrace.burn', PM + 'classes.PedigreeAllelesMultiTrace.individual'], None),
            (PM + 'classes', 'what fit hands to the sampler', [PM + 'mcmc.mcmc_sampler'], None, None, 'PedigreeCallingMCMC.fit')],
}


def _zero_is_a_value(ctx, pid):
    """an option value of 0 is a value: a parsed number must not be replaced through its truthiness (`float(x) or default`,
    `x if float(x) else default`).  Checked in the argument functions attributed to the property."""
    import ast
    for name, pids in _ARGS.items():
        if pid not in pids:
            continue
        f = ctx.func('mchap.application.arguments.' + name)
        def numeric(e):
            return isinstance(e, ast.Call) and isinstance(e.func, ast.Name) and e.func.id in ('float', 'int')
        bad = []
        for n in ast.walk(f.node):
            if isinstance(n, ast.BoolOp) and isinstance(n.op, ast.Or) and any(numeric(v) for v in n.values[:-1]):
                bad.append(n)
            if isinstance(n, ast.IfExp) and (numeric(n.test) or (isinstance(n.test, ast.UnaryOp) and isinstance(n.test.op, ast.Not) and numeric(n.test.operand))):
                bad.append(n)
        ctx.check(not bad, f"R{pid[1:]}.A/zero-is-a-value", f.construct('parsed numbers'),
                  "no parsed option value is replaced through its truthiness",
                  "a parsed number is replaced by a fallback when it is falsy: the option value 0 silently becomes the fallback"
                  + (f" (`{ast.unparse(bad[0])}`)" if bad else ""), f.where(bad[0]) if bad else f.where())


# classes whose dataclass fields are the options / model parameters a run was given, and the properties that rest on them
_OPTION_CLASSES = {
    'mchap.application.baseclass.program': ['C06', 'C07', 'C08', 'C10', 'C12'],
    'mchap.application.call_baseclass.program': ['C07', 'C12', 'C16'],
    'mchap.application.assemble.program': ['C01', 'C07', 'C10', 'C13', 'C14', 'C15'],
    'mchap.application.call.program': ['C02', 'C05', 'C07', 'C10', 'C14', 'C16'],
    'mchap.application.call_exact.program': ['C03', 'C05', 'C07', 'C10', 'C16'],
    'mchap.application.call_pedigree.program': ['C07', 'C14', 'C16', 'C17', 'C18'],
    'mchap.assemble.mcmc.DenovoMCMC': ['C01', 'C09', 'C15'],
    'mchap.calling.classes.CallingMCMC': ['C02', 'C09'],
    'mchap.pedigree.classes.PedigreeCallingMCMC': ['C17', 'C18'],
}


def _self_field_writes(cls_node, fields):
    """(method, field) for every store into `self.<dataclass field>` in the methods of a class"""
    import ast
    out = {}
    for m in cls_node.body:
        if not isinstance(m, ast.FunctionDef):
            continue
        for n in ast.walk(m):
            tgts = []
            if isinstance(n, ast.Assign):
                tgts = n.targets
            elif isinstance(n, (ast.AugAssign, ast.AnnAssign)):
                tgts = [n.target]
            elif isinstance(n, ast.Call) and isinstance(n.func, ast.Name) and n.func.id == 'setattr' and len(n.args) >= 2 \
                    and isinstance(n.args[0], ast.Name) and n.args[0].id == 'self':
                key = n.args[1].value if isinstance(n.args[1], ast.Constant) else '*'
                if key == '*' or key in fields:
                    out.setdefault((m.name, key), n)
            for t in tgts:
                for e in (t.elts if isinstance(t, (ast.Tuple, ast.List)) else [t]):
                    if isinstance(e, ast.Attribute) and isinstance(e.value, ast.Name) and e.value.id == 'self' and e.attr in fields:
                        out.setdefault((m.name, e.attr), n)
    return out


def _options_not_overwritten(ctx, pid):
    """the options a program or sampler object was constructed with are what its methods work with: no method (a `__post_init__`
    least of all) stores into a dataclass field unless the confirmed tree has the same store.  A value replaced after construction
    (a threshold of 0 "defaulted", a seed re-derived, a ploidy map completed) changes what every rule below assumes was handed over."""
    import ast
    from .refspec import SPEC_DIR
    for cq, pids in sorted(_OPTION_CLASSES.items()):
        if pid not in pids:
            continue
        c = ctx.prog.cls(cq)
        fields = set(ctx.prog.all_fields(c))
        got = _self_field_writes(c.node, fields)
        sp = SPEC_DIR / (c.module.modname + '.py')
        ctx.need(sp.exists(), f"reference file missing: {sp}")
        ref_cls = [n for n in ast.parse(sp.read_text()).body if isinstance(n, ast.ClassDef) and n.name == c.node.name]
        ctx.need(bool(ref_cls), f"anchor vanished: class {c.node.name} in the reference of {c.module.modname}")
        want = _self_field_writes(ref_cls[0], fields)
        extra = sorted(set(got) - set(want))
        where = c.module.relpath + f":{got[extra[0]].lineno}" if extra else c.module.relpath
        ctx.check(not extra, f"R{pid[1:]}.O/options-not-overwritten", f"{c.module.relpath}::{c.node.name}::option fields",
                  f"{len(fields)} option fields, stores into them in methods: {sorted(got) or 'none'} (as in the confirmed tree)",
                  "a method stores into an option field of the object after construction: "
                  + ", ".join(f"{m}: self.{f}" for m, f in extra) + " - the value the run was given is replaced", where)


def run(ctx, pid):
    rule = f"R{pid[1:]}.H/reference-agreement"
    n = 0
    _zero_is_a_value(ctx, pid)
    _options_not_overwritten(ctx, pid)
    for mod, names in HELPERS.get(pid, ()):
        n += refspec.compare_module(ctx, mod, names, rule)
    for prog, what, prefixes, fields, *rest in SLICES.get(pid, ()):
        mod = prog if prog.startswith('mchap.') else APP + prog
        fn = rest[1] if len(rest) > 1 else CSG
        specs = refspec.load_specs(mod)
        refspec.compare_slice(ctx, f"{mod}.{fn}", specs[fn], f"R{pid[1:]}.S/slice-agreement", what, tuple(prefixes), fields, rest[0] if rest else None)
        n += 1
    return n
