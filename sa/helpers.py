"""Which leaf helpers each property rests on (see refspec.py).  One obligation per (property, helper)."""
from __future__ import annotations
from . import refspec

J = 'mchap.jitutils'
HELPERS = {
    'C01': [(J, ['random_choice', 'array_equal', 'count_haplotype_copies', 'get_haplotype_dosage', 'set_haplotype_dosage'])],
    'C02': [(J, ['normalise_log_probs', 'sum_log_probs', 'add_log_prob', 'random_choice'])],
    'C03': [(J, ['add_log_prob', 'increment_genotype'])],
    'C05': [(J, ['ln_equivalent_permutations'])],
    'C08': [(J, ['seed_numba'])],
    'C11': [(J, ['_greatest_common_denominatior', '_comb', 'comb', '_comb_with_replacement', 'comb_with_replacement',
                 'genotype_alleles_as_index', 'index_as_genotype_alleles', 'increment_genotype'])],
    'C15': [(J, ['sample_snv_alleles'])],
    'C17': [(J, ['add_log_prob'])],
    'C18': [(J, ['normalise_log_probs', 'sum_log_probs', 'add_log_prob', 'random_choice'])],
}


def run(ctx, pid):
    rule = f"R{pid[1:]}.H/helper-reference"
    n = 0
    for mod, names in HELPERS.get(pid, ()):
        n += refspec.compare_module(ctx, mod, names, rule)
    return n
