"""Helpers shared by the Metropolis-Hastings / Gibbs kernel rules (C01, C02, C18)."""
from __future__ import annotations
from .terms import walk, subst, simplify, show
from .norm import Normaliser, Lin, LinKey, p_const, p_show, show_atom


def collapse(t, mode):
    """Resolve phi nodes under a guard valuation. mode: {show(cond): bool}.
    Also strips 'after' wrappers."""
    def rule(x):
        if x and x[0] == 'phi':
            v = truth(x[1], mode)
            if v is True:
                return x[2]
            if v is False:
                return x[3]
        if x and x[0] == 'after':
            return x[2]
        return None
    return subst(t, rule)


def truth(c, mode):
    k = show(c)
    if k in mode:
        return mode[k]
    if c[0] == 'const' and isinstance(c[1], bool):
        return c[1]
    if c[0] == 'bool':
        a, b = truth(c[2], mode), truth(c[3], mode)
        if c[1] == 'Or':
            if a is True or b is True:
                return True
            if a is False and b is False:
                return False
        if c[1] == 'And':
            if a is False or b is False:
                return False
            if a is True and b is True:
                return True
        return None
    if c[0] == 'un' and c[1] == 'Not':
        v = truth(c[2], mode)
        return None if v is None else (not v)
    if c[0] == 'cmp' and c[1] in ('IsNot', 'Is') and c[3] == ('const', None):
        x = c[2]
        if x == ('const', None):
            return c[1] == 'Is'
        if x[0] in ('call', 'idx', 'proj', 'upd', 'out', 'tuple', 'list', 'bin'):
            return c[1] == 'IsNot'
    if c[0] == 'cmp' and c[1] in ('Eq', 'NotEq') and c[2][0] == 'const' and c[3][0] == 'const':
        return (c[2][1] == c[3][1]) == (c[1] == 'Eq')
    return None


def guard_atoms(terms, keep=lambda s: True):
    out = []
    for t in terms:
        for x in walk(t):
            if x[0] == 'phi':
                if any(y[0] == 'call' and len(y) > 4 and y[4] is not None and '.random.' in y[1] for y in walk(x[1])):
                    continue        # random draws are not guard modes
                s = show(x[1])
                if s not in out and keep(s):
                    out.append(s)
    return out


def clip_inner(lin: Lin):
    """if lin is exactly 1*clip0[inner] return inner Lin else None"""
    if len(lin.d) != 1:
        return None
    (a, p), = lin.d.items()
    if a != () and a[0] == 'natom' and a[1] == 'clip0' and p == p_const(1):
        return a[2].lin
    return None


def atom_call(a):
    """the call term behind an atom: call, proj(k, call) -> (call, k)"""
    if a == () or not isinstance(a, tuple):
        return None, None
    if a[0] == 'call':
        return a, None
    if a[0] == 'proj' and isinstance(a[2], tuple) and a[2][0] == 'call':
        return a[2], a[1]
    return None, None


def log_atom_inner(a):
    """for natom log[<lin>] with a single unit-coefficient atom inside return that atom"""
    if a != () and a[0] == 'natom' and a[1] == 'log':
        lin = a[2].lin
        if len(lin.d) == 1:
            (b, p), = lin.d.items()
            if p == p_const(1):
                return b
        return lin
    return None


def replace(t, old, new):
    def rule(x):
        return new if x == old else None
    return simplify(subst(t, rule))


def kwargs(call):
    return dict(call[3])


def describe(lin: Lin):
    return "; ".join(f"{p_show(p)}·{show_atom(a)[:160]}" for a, p in lin.items())


def find_upd_of(term, base):
    """all upd(base, cell, value) sub-terms"""
    return [x for x in walk(term) if x[0] == 'upd' and x[1] == base]


def elementwise(t, arm_pred):
    """Turn arrays filled in a loop into their per-iteration value.

    after(L, φ[c ? carried:N{i:=v1} : carried:N{i:=v2}]) or after(L, carried:N{i:=v}) -> v
    arm_pred(v) chooses the arm (e.g. the one that mentions the proposed state)."""
    def val_of(x):
        # x: upd(carried/havoc..., idx, v)
        if x[0] == 'upd' and x[1][0] in ('carried', 'havoc', 'upd'):
            return x[3]
        return None

    def rule(x):
        if x and x[0] == 'after':
            inner = x[2]
            if inner[0] == 'phi':
                a, b = val_of(inner[2]), val_of(inner[3])
                cands = [v for v in (a, b) if v is not None]
                good = [v for v in cands if arm_pred(v)]
                if len(good) == 1:
                    return good[0]
                if len(cands) == 1:
                    return cands[0]
            else:
                v = val_of(inner)
                if v is not None:
                    return v
        return None
    return subst(t, rule)


def storage_root(prog, t):
    """the array object a term denotes, ignoring in-place content versions.
    upd/havoc/out/carried/after wrappers are stripped; phi arms must agree (else None)."""
    seen = 0
    while isinstance(t, tuple) and t and seen < 200:
        seen += 1
        k = t[0]
        if k in ('upd', 'havoc'):
            t = t[1]
        elif k == 'after':
            t = t[2]
        elif k == 'carried':
            t = t[2]
        elif k == 'out':
            call = t[3]
            pname = t[2]
            arg = dict(call[3]).get(pname) if call[0] == 'call' else None
            if arg is None and call[0] == 'call' and t[1] in prog.funcs:
                params = prog.funcs[t[1]].params
                if pname in params and params.index(pname) < len(call[2]):
                    arg = call[2][params.index(pname)]
            if arg is None:
                return t
            t = arg
        elif k == 'phi':
            a, b = storage_root(prog, t[2]), storage_root(prog, t[3])
            return a if a == b else None
        else:
            return t
    return t


def current_option_arms(prog, r, state_param):
    """Per-option stores of a proposal loop split by the decision `option == current value of the state cell`.
    Returns (D, stores where D holds, stores where it does not, the option loop variable) or None."""
    from .terms import path
    per = [ev for ev in r.events if ev.kind == 'store' and ev.data[1][0] == 'loopvar' and path(ev)]
    for ev in per:
        lv = ev.data[1]
        for c, pol in path(ev):
            if c[0] == 'cmp' and c[1] == 'Eq' and lv in (c[2], c[3]):
                other = c[3] if c[2] == lv else c[2]
                if other[0] == 'idx' and storage_root(prog, other[1]) == ('param', state_param):
                    same = [e for e in per if e.data[1] == lv]
                    return c, [e for e in same if (c, True) in path(e)], [e for e in same if (c, False) in path(e)], lv
    return None


def proposes(prog, t, state_param, lv):
    """does the term contain the state with a cell set to the option loop variable?"""
    return any(x[0] == 'upd' and x[3] == lv and storage_root(prog, x) == ('param', state_param) for x in walk(t) if isinstance(x, tuple) and x)


def selection_tail(P):
    """P = upd(E, cur, 1 - sum(E)) with E = exp(A - log(D)):  returns (cur, A, D), else None.
    This is `p[others] = exp(log_accept) / D ; p[current] = 1 - sum(p)` written in log space."""
    P = simplify(collapse(P, {}))
    if not (P[0] == 'upd' and P[1][0] == 'call' and P[1][1] == 'numpy.exp' and len(P[1][2]) == 1):
        return None
    E = P[1]
    if P[3] != ('bin', 'Sub', ('const', 1), ('call', '.sum', (E,), (), None)) and P[3] != ('bin', 'Sub', ('const', 1), ('call', 'numpy.sum', (E,), (), None)):
        return None
    arg = E[2][0]
    if not (arg[0] == 'bin' and arg[1] == 'Sub' and arg[3][0] == 'call' and arg[3][1] == 'numpy.log' and len(arg[3][2]) == 1):
        return None
    return P[2], arg[2], arg[3][2][0]
