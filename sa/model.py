"""Program model: loader, import resolver, function table, call sites.

Pure standard library. Never imports the analysed package.
"""
from __future__ import annotations
import ast
import hashlib
import pathlib
import warnings
from dataclasses import dataclass, field


class AnalysisError(Exception):
    """The analysis cannot decide (vanished anchor, unsupported construct)."""


JIT_DECORATORS = ("njit", "jit", "vectorize", "guvectorize")


@dataclass
class Func:
    qname: str                 # mchap.assemble.mutation.base_step / ...classes.CallingMCMC.fit
    module: "Module"
    node: ast.FunctionDef
    cls: str | None = None
    jit: bool = False

    @property
    def name(self):
        return self.node.name

    @property
    def params(self):
        a = self.node.args
        return [x.arg for x in a.posonlyargs + a.args + a.kwonlyargs]

    def where(self, node=None):
        ln = getattr(node, "lineno", self.node.lineno)
        return f"{self.module.relpath}:{ln}"

    def construct(self, sink=""):
        q = self.qname.split(self.module.modname + ".", 1)[-1]
        return f"{self.module.relpath}::{q}" + (f"::{sink}" if sink else "")


@dataclass
class Class:
    qname: str
    module: "Module"
    node: ast.ClassDef
    fields: list = field(default_factory=list)       # dataclass field order
    defaults: dict = field(default_factory=dict)
    methods: dict = field(default_factory=dict)
    bases: list = field(default_factory=list)


@dataclass
class Module:
    modname: str
    relpath: str
    path: pathlib.Path
    tree: ast.Module
    source: str
    imports: dict = field(default_factory=dict)   # local name -> qualified target
    funcs: dict = field(default_factory=dict)
    classes: dict = field(default_factory=dict)
    consts: dict = field(default_factory=dict)    # top-level simple assignments name -> ast node


class Program:
    def __init__(self, root="/repo", package="mchap"):
        self.root = pathlib.Path(root)
        self.package = package
        self.modules: dict[str, Module] = {}
        self.funcs: dict[str, Func] = {}
        self.classes: dict[str, Class] = {}
        self._load()

    # ------------------------------------------------------------------ loading
    def _load(self):
        pkg = self.root / self.package
        if not pkg.is_dir():
            raise AnalysisError(f"package directory not found: {pkg}")
        for p in sorted(pkg.rglob("*.py")):
            rel = p.relative_to(self.root)
            if "tests" in rel.parts:
                continue
            src = p.read_text()
            with warnings.catch_warnings():
                warnings.simplefilter("ignore")
                try:
                    tree = ast.parse(src, filename=str(rel))
                except SyntaxError as e:
                    raise AnalysisError(f"cannot parse {rel}: {e}")
            parts = list(rel.with_suffix("").parts)
            if parts[-1] == "__init__":
                parts = parts[:-1]
            modname = ".".join(parts)
            m = Module(modname, str(rel), p, tree, src)
            self.modules[modname] = m
        for m in self.modules.values():
            self._index(m)
        # resolve package re-exports (from .x import y in __init__)
        for m in self.modules.values():
            for local, target in list(m.imports.items()):
                m.imports[local] = self._chase(target)

    def _index(self, m: Module):
        is_pkg = m.path.name == "__init__.py"
        for n in m.tree.body:
            if isinstance(n, ast.Import):
                for a in n.names:
                    m.imports[a.asname or a.name.split(".")[0]] = a.name if a.asname else a.name.split(".")[0]
            elif isinstance(n, ast.ImportFrom):
                base = n.module or ""
                if n.level:
                    pk = m.modname.split(".")
                    if not is_pkg:
                        pk = pk[:-1]
                    pk = pk[: len(pk) - (n.level - 1)]
                    base = ".".join(pk + ([n.module] if n.module else []))
                for a in n.names:
                    m.imports[a.asname or a.name] = f"{base}.{a.name}"
            elif isinstance(n, ast.FunctionDef):
                f = Func(f"{m.modname}.{n.name}", m, n, None, _is_jit(n))
                m.funcs[n.name] = f
                self.funcs[f.qname] = f
            elif isinstance(n, ast.ClassDef):
                c = Class(f"{m.modname}.{n.name}", m, n)
                c.bases = [ast.unparse(b) for b in n.bases]
                for s in n.body:
                    if isinstance(s, ast.AnnAssign) and isinstance(s.target, ast.Name):
                        c.fields.append(s.target.id)
                        if s.value is not None:
                            c.defaults[s.target.id] = s.value
                    elif isinstance(s, ast.FunctionDef):
                        f = Func(f"{c.qname}.{s.name}", m, s, c.qname, _is_jit(s))
                        c.methods[s.name] = f
                        self.funcs[f.qname] = f
                m.classes[n.name] = c
                self.classes[c.qname] = c
            elif isinstance(n, ast.Assign) and len(n.targets) == 1 and isinstance(n.targets[0], ast.Name):
                m.consts[n.targets[0].id] = n.value

    def _chase(self, target, depth=0):
        """follow re-exports: mchap.io.extract_read_variants -> mchap.io.bam.extract_read_variants"""
        if depth > 8:
            return target
        if target in self.funcs or target in self.classes or target in self.modules:
            return target
        mod, _, name = target.rpartition(".")
        if mod in self.modules and name in self.modules[mod].imports:
            return self._chase(self.modules[mod].imports[name], depth + 1)
        return target

    # ------------------------------------------------------------------ lookup
    def func(self, qname) -> Func:
        if qname not in self.funcs:
            raise AnalysisError(f"anchor vanished: function {qname}")
        return self.funcs[qname]

    def cls(self, qname) -> Class:
        if qname not in self.classes:
            raise AnalysisError(f"anchor vanished: class {qname}")
        return self.classes[qname]

    def all_fields(self, c: Class):
        """dataclass fields including inherited ones (base first)"""
        out = []
        for b in c.bases:
            q = self.resolve_name(c.module, b)
            if q in self.classes:
                out += self.all_fields(self.classes[q])
        return out + [f for f in c.fields if f not in out]

    def find_method(self, c: Class, name):
        if name in c.methods:
            return c.methods[name]
        for b in c.bases:
            q = self.resolve_name(c.module, b)
            if q in self.classes:
                r = self.find_method(self.classes[q], name)
                if r:
                    return r
        return None

    def subclasses(self, cq):
        out = []
        for c in self.classes.values():
            for b in c.bases:
                if self.resolve_name(c.module, b) == cq:
                    out.append(c.qname)
                    out += self.subclasses(c.qname)
        return out

    def overriders(self, fq):
        """methods with the same name in subclasses of the method's class (dynamic dispatch)"""
        f = self.funcs.get(fq)
        if f is None or f.cls is None:
            return []
        out = []
        for sc in self.subclasses(f.cls):
            m = self.classes[sc].methods.get(f.name)
            if m is not None:
                out.append(m.qname)
        return out

    def resolve_name(self, m: Module, dotted: str):
        """resolve a dotted expression used in module m to a qualified name"""
        head, _, rest = dotted.partition(".")
        if head in m.funcs:
            base = m.funcs[head].qname
        elif head in m.classes:
            base = m.classes[head].qname
        elif head in m.imports:
            base = m.imports[head]
        else:
            return dotted
        q = base + ("." + rest if rest else "")
        return self._chase(q)

    def resolve_call(self, f: Func, call: ast.Call, _depth=0):
        """qualified name of the callee expression (repo function/class or external dotted name)"""
        cache = self.__dict__.setdefault("_rc_cache", {})
        key = (f.qname, id(call))
        hit = cache.get(key)
        if hit is not None and hit[0] is call:
            return hit[1]
        r = self._resolve_call(f, call, _depth)
        if _depth == 0:
            # the node is kept with the entry: an id alone can be reused by a node created after this one was dropped (the syntactic
            # normal forms and the inlining replace nodes), and the entry would answer for the wrong call
            cache[key] = (call, r)
        return r

    def _resolve_call(self, f: Func, call: ast.Call, _depth=0):
        try:
            dotted = ast.unparse(call.func)
        except Exception:
            return "?"
        if dotted == "type(self)" and f.cls:
            return f.cls
        if isinstance(call.func, ast.Attribute):
            v = call.func.value
            typed = isinstance(v, ast.Call) or (
                isinstance(v, ast.Name) and v.id not in f.module.imports
                and v.id not in f.module.funcs and v.id not in f.module.classes and v.id != "self"
            )
            if typed and _depth < 40:
                for cq in sorted(self.infer_class(f, v, _depth + 1)):
                    m = self.find_method(self.classes[cq], call.func.attr)
                    if m is not None:
                        return m.qname
        if not all(part.isidentifier() for part in dotted.split(".")):
            return "." + call.func.attr if isinstance(call.func, ast.Attribute) else "?"
        parts = dotted.split(".")
        if parts[0] in ("self", "cls") and f.cls and len(parts) == 2:
            m = self.find_method(self.classes[f.cls], parts[1])
            if m is not None:
                return m.qname
            return "self." + parts[1]
        return self.resolve_name(f.module, dotted)

    # ------------------------------------------------------------------ light type inference
    def return_classes(self, fq, _depth=0):
        """repo classes an invocation of function/method fq may return (flow-insensitive)"""
        cache = self.__dict__.setdefault("_retcls", {})
        if fq in cache:
            return cache[fq]
        cache[fq] = set()
        f = self.funcs.get(fq)
        out = set()
        if f is not None and _depth < 40:
            for n in ast.walk(f.node):
                if isinstance(n, (ast.Return, ast.Yield)) and n.value is not None:
                    out |= self.infer_class(f, n.value, _depth + 1)
        cache[fq] = out
        return out

    def infer_class(self, f: Func, expr, _depth=0):
        """set of repo class qnames the expression may evaluate to (instances)"""
        if _depth > 40:
            return set()
        if isinstance(expr, ast.Call):
            if isinstance(expr.func, ast.Name) and expr.func.id == "cls" and f.cls:
                return {f.cls}
            q = self.resolve_call(f, expr, _depth + 1)
            if q in self.classes:
                return {q}
            if q in self.funcs:
                return self.return_classes(q, _depth + 1)
            return set()
        if isinstance(expr, ast.Name):
            if expr.id == "self" and f.cls:
                return {f.cls}
            ncache = self.__dict__.setdefault("_name_cls", {})
            nkey = (f.qname, expr.id)
            if nkey in ncache:
                return ncache[nkey]
            ncache[nkey] = set()          # cycle guard
            out = set()
            for n in self._assign_nodes(f):
                if isinstance(n, ast.Assign):
                    for t in n.targets:
                        if isinstance(t, ast.Name) and t.id == expr.id and n.value is not expr:
                            out |= self.infer_class(f, n.value, _depth + 1)
                elif isinstance(n, (ast.For, ast.comprehension)):
                    tgt = n.target
                    if isinstance(tgt, ast.Name) and tgt.id == expr.id:
                        # iterating over a generator method such as self.split()
                        out |= self.infer_class(f, n.iter, _depth + 1)
            ncache[nkey] = out
            return out
        if isinstance(expr, ast.IfExp):
            return self.infer_class(f, expr.body, _depth + 1) | self.infer_class(f, expr.orelse, _depth + 1)
        return set()

    def _assign_nodes(self, f: Func):
        cache = self.__dict__.setdefault("_assign_cache", {})
        if f.qname not in cache:
            cache[f.qname] = [n for n in ast.walk(f.node) if isinstance(n, (ast.Assign, ast.For, ast.comprehension))]
        return cache[f.qname]

    def digest(self, modnames=None):
        h = hashlib.sha256()
        for name in sorted(modnames or self.modules):
            h.update(name.encode())
            h.update(self.modules[name].source.encode())
        return h.hexdigest()[:16]

    # ------------------------------------------------------------------ iteration helpers
    def calls_in(self, f: Func):
        for n in ast.walk(f.node):
            if isinstance(n, ast.Call):
                yield n, self.resolve_call(f, n)

    def callers_of(self, qname):
        for f in self.funcs.values():
            for n, q in self.calls_in(f):
                if q == qname:
                    yield f, n


def _is_jit(n: ast.FunctionDef):
    for d in n.decorator_list:
        s = ast.unparse(d)
        head = s.split("(")[0]
        if head.split(".")[-1] in JIT_DECORATORS:
            return True
    return False


def bind_args(callee: Func, call: ast.Call, skip_self=False):
    """map parameter name -> argument ast node for a call site"""
    a = callee.node.args
    names = [x.arg for x in a.posonlyargs + a.args]
    if skip_self and names and names[0] in ("self", "cls"):
        names = names[1:]
    out = {}
    for n_, v in zip(names, call.args):
        out[n_] = v
    for k in call.keywords:
        if k.arg is not None:
            out[k.arg] = k.value
    return out
