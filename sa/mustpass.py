"""Must-pass rule for defaulted parameters (Engler-style, instances confirmed on the tree and frozen).

Most model parameters of MCHap's kernels are optional (`inbreeding=0`, `frequencies=None`, `read_counts=None`, `interval=None`,
`cache=None`, ...).  A call that silently falls back to the default computes a different model.  On the confirmed tree 152 of 165
call sites at which the caller holds a value of the same name (a parameter, a local, or a dataclass field of `self`) pass it on;
the 13 that do not are read and listed below with the reason.  Any other omission is a violation of the property that owns the
callee."""
from __future__ import annotations
import ast
from .model import bind_args

# (caller, callee, parameter) -> reason the omission is intended
EXEMPT = {
    ('mchap.application.assemble.program.loci', 'mchap.io.loci.read_bed4', 'region'): "`region` of the program is an optional restriction applied afterwards, not the bed parser's tabix region",
    ('*', 'mchap.io.util.qual_of_prob', 'precision'): "qual_of_prob's precision is the cap on the probability (six decimals), unrelated to the output precision of the program",
    ('mchap.assemble.structural.interval_step', 'mchap.jitutils.get_haplotype_dosage', 'interval'): "the prior is a function of the dosage of whole haplotypes, not of the interval being rearranged",
    ('mchap.calling.classes.CallingMCMC.fit', 'mchap.calling.mcmc.greedy_caller', 'frequencies'): "greedy_caller only picks the initial state",
    ('mchap.pedigree.classes.PedigreeCallingMCMC.fit', 'mchap.calling.mcmc.greedy_caller', 'frequencies'): "greedy_caller only picks the initial state",
}

# which property owns an omission, by module of the callee
OWNER = [
    ('mchap.calling.exact.', ['C03']),
    ('mchap.calling.', ['C02']),
    ('mchap.assemble.snpcalling.', ['C15']),
    ('mchap.assemble.likelihood.', ['C01', 'C09']),
    ('mchap.assemble.arraymap.', ['C09']),
    ('mchap.assemble.', ['C01']),
    ('mchap.jitutils.', ['C01']),
    ('mchap.pedigree.prior.', ['C17', 'C18']),
    ('mchap.pedigree.validation.', ['C17']),
    ('mchap.pedigree.', ['C18']),
    ('mchap.io.bam.', ['C06']),
    ('mchap.io.loci.', ['C12', 'C16']),
    ('mchap.io.vcf.', ['C07']),
    ('mchap.application.find_snvs.', ['C19']),
    ('mchap.application.atomize.', ['C20']),
    ('mchap.application.baseclass.', ['C07']),
    ('mchap.application.assemble.', ['C13']),
    ('mchap.application.call_exact.', ['C03']),
    ('mchap.application.call_pedigree.', ['C18']),
    ('mchap.application.call_baseclass.', ['C12']),
    ('mchap.application.call.', ['C02']),
    ('mchap.mset.', ['C14']),
    ('mchap.encoding.', ['C06']),
    ('mchap.combinatorics.', ['C11']),
]


MIN_STABLE_SITES = 130      # 142 on the confirmed tree (165 with the sites found through locals)


def owners(q):
    for pre, pids in OWNER:
        if q.startswith(pre):
            return pids
    return []


def sites(prog):
    """(caller Func, callee Func, parameter, call node, passed?) for every call of a package function at which the caller holds a
    value named like a defaulted parameter of the callee"""
    for fq, f in prog.funcs.items():
        if fq.startswith('mchap.testing'):
            continue
        params = set(f.params)
        local = set(params)
        for n in ast.walk(f.node):
            if isinstance(n, ast.Name) and isinstance(n.ctx, ast.Store):
                local.add(n.id)
        fields = set(prog.all_fields(prog.classes[f.cls])) if f.cls and f.cls in prog.classes else set()
        for call, q in prog.calls_in(f):
            g = prog.funcs.get(q)
            if g is None or g is f:
                continue
            if any(k.arg is None for k in call.keywords) or any(isinstance(x, ast.Starred) for x in call.args):
                continue
            a = g.node.args
            pos = a.posonlyargs + a.args
            defaults = [x.arg for x in pos][len(pos) - len(a.defaults):] + [x.arg for x, d in zip(a.kwonlyargs, a.kw_defaults) if d is not None]
            b = bind_args(g, call, skip_self=g.cls is not None and not isinstance(call.func, ast.Name))
            for p in defaults:
                if p in local or p in fields:
                    yield f, g, p, call, p in b, (p in params or p in fields)


def run(ctx, pid):
    rule = f"R{pid[1:]}.T/must-pass"
    n = 0
    total = 0
    for f, g, p, call, passed, stable in sites(ctx.prog):
        total += stable          # sites found through a parameter or a dataclass field do not depend on the names of locals
        if pid not in owners(g.qname):
            continue
        n += 1
        con = f.construct(ctx.ordinal(f.qname, f"{g.name}({p}=)"))
        if passed:
            ctx.ok(rule, con, f"{p} handed on to {g.name}")
            continue
        why = EXEMPT.get((f.qname, g.qname, p)) or EXEMPT.get(('*', g.qname, p))
        if why:
            ctx.ok(rule, con, f"{p} deliberately not handed on: {why}")
        else:
            ctx.violation(rule, con, f"{f.name} holds `{p}` but calls {g.name} without it, so {g.name} falls back to its default "
                          f"({ast.unparse(_default(g, p))})", f.where(call))
    if total < MIN_STABLE_SITES:
        from .model import AnalysisError
        raise AnalysisError(f"must-pass rule: only {total} sites found through parameters and fields, {MIN_STABLE_SITES} confirmed by hand")
    return n


def _default(g, p):
    a = g.node.args
    pos = a.posonlyargs + a.args
    d = dict(zip([x.arg for x in pos][len(pos) - len(a.defaults):], a.defaults))
    d.update({x.arg: v for x, v in zip(a.kwonlyargs, a.kw_defaults) if v is not None})
    return d[p]
