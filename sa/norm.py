"""Algebraic normal form: linear forms over atoms with polynomial coefficients.

N(term) -> Lin.  Two arithmetic terms are equal iff their Lin.key() are identical.
Identities used (all mathematical): log(a/b)=log a-log b, log(a*b)=log a+log b, log(1)=0,
lgamma(1+x)-lgamma(x)=log x (applied by `lgamma_rewrite`), min(0,x)=clip0(x), distribution of a
scalar over a sum.
"""
from __future__ import annotations
from fractions import Fraction
from .terms import show

LOG_FUNCS = {'numpy.log', 'math.log', 'log'}
EXP_FUNCS = {'numpy.exp', 'math.exp', 'exp'}
MIN_FUNCS = {'numpy.minimum', 'min', 'numpy.fmin'}
LGAMMA_FUNCS = {'math.lgamma', 'lgamma', 'scipy.special.gammaln'}


def p_const(c):
    c = Fraction(c)
    return {(): c} if c != 0 else {}


def p_add(a, b):
    r = dict(a)
    for m, c in b.items():
        v = r.get(m, 0) + c
        if v == 0:
            r.pop(m, None)
        else:
            r[m] = v
    return r


def p_mul(a, b):
    r = {}
    for m1, c1 in a.items():
        for m2, c2 in b.items():
            m = tuple(sorted(m1 + m2))
            v = r.get(m, 0) + c1 * c2
            if v == 0:
                r.pop(m, None)
            else:
                r[m] = v
    return r


def p_show(a):
    if not a:
        return "0"
    parts = []
    for m, c in sorted(a.items()):
        s = "*".join(m)
        if s:
            parts.append((f"{c}*" if c != 1 else "") + s if c != -1 else "-" + s)
        else:
            parts.append(str(c))
    return parts[0] if len(parts) == 1 else "(" + " + ".join(parts) + ")"


class Lin:
    """linear form {atom: poly}; the atom () carries the constant term"""
    __slots__ = ("d",)

    def __init__(self, d=None):
        self.d = d or {}

    @staticmethod
    def atom(a):
        return Lin({a: p_const(1)})

    @staticmethod
    def const(c):
        return Lin({(): p_const(c)}) if c != 0 else Lin()

    @staticmethod
    def sym(name):
        return Lin({(): {(name,): Fraction(1)}})

    def __add__(self, o):
        r = dict(self.d)
        for a, p in o.d.items():
            q = p_add(r.get(a, {}), p)
            if q:
                r[a] = q
            else:
                r.pop(a, None)
        return Lin(r)

    def scale(self, poly):
        r = {}
        for a, p in self.d.items():
            q = p_mul(p, poly)
            if q:
                r[a] = q
        return Lin(r)

    def neg(self):
        return self.scale(p_const(-1))

    def is_const(self):
        return all(a == () for a in self.d)

    def const_poly(self):
        return self.d.get((), {})

    def key(self):
        return tuple(sorted((_akey(a), tuple(sorted(p.items()))) for a, p in self.d.items()))

    def items(self):
        return sorted(self.d.items(), key=lambda kv: _akey(kv[0]))

    def coeff(self, atom):
        return self.d.get(atom, {})

    def show(self):
        if not self.d:
            return "0"
        out = []
        for a, p in self.items():
            out.append(f"{p_show(p)}·{show_atom(a)}" if a != () else p_show(p))
        return "  +  ".join(out)

    def __eq__(self, o):
        return isinstance(o, Lin) and self.key() == o.key()

    def __hash__(self):
        return hash(self.key())


def _akey(a):
    return repr(a)


class LinKey:
    """hashable wrapper so a Lin can sit inside an atom"""
    __slots__ = ("lin", "_k")

    def __init__(self, lin):
        self.lin = lin
        self._k = lin.key()

    def __hash__(self):
        return hash(self._k)

    def __eq__(self, o):
        return isinstance(o, LinKey) and self._k == o._k

    def __repr__(self):
        return "<" + self.lin.show() + ">"


def show_atom(a):
    if a == ():
        return "1"
    if a[0] == 'natom':
        inner = a[2]
        if isinstance(inner, LinKey):
            return f"{a[1]}[{inner.lin.show()}]"
        if a[1].startswith('reduce:'):
            return f"{a[1]}[init={inner[0].lin.show()}; if {show(inner[1]) if inner[1] else 'always'}; {inner[2].lin.show()}]"
        return f"{a[1]}[{inner}]"
    return show(a)


class Normaliser:
    def __init__(self, scalars=()):
        """scalars: names of parameters that act as scalar multipliers (e.g. 'temp')"""
        self.scalars = set(scalars)

    def N(self, t) -> Lin:
        k = t[0]
        if k == 'const':
            v = t[1]
            if isinstance(v, bool) or v is None or isinstance(v, str):
                return Lin.atom(t)
            if isinstance(v, int):
                return Lin.const(v)
            if isinstance(v, float):
                if v != v or v in (float('inf'), float('-inf')):
                    return Lin.atom(t)
                return Lin.const(Fraction(v).limit_denominator(10 ** 12))
            return Lin.atom(t)
        if k == 'param' and t[1] in self.scalars:
            return Lin.sym(t[1])
        if k == 'bin':
            op, a, b = t[1], t[2], t[3]
            if op == 'Add':
                return self.N(a) + self.N(b)
            if op == 'Sub':
                return self.N(a) + self.N(b).neg()
            if op == 'Mult':
                na, nb = self.N(a), self.N(b)
                if nb.is_const():
                    return na.scale(nb.const_poly())
                if na.is_const():
                    return nb.scale(na.const_poly())
                return Lin.atom(('natom', 'mul', tuple(sorted([LinKey(na), LinKey(nb)], key=repr))))
            if op == 'Div':
                na, nb = self.N(a), self.N(b)
                if nb.is_const() and list(nb.const_poly().keys()) == [()]:
                    return na.scale(p_const(1 / nb.const_poly()[()]))
                return Lin.atom(('natom', 'div', (LinKey(na), LinKey(nb))))
        if k == 'reduce':
            # ('reduce', op, init, guard, body): normalise init and body, keep the guard structural
            body = self.N(t[4])
            if t[1] == 'Add':
                body = lgamma_rewrite(body)
            return Lin.atom(('natom', 'reduce:' + t[1], (LinKey(self.N(t[2])), t[3], LinKey(body))))
        if k == 'un' and t[1] == 'USub':
            return self.N(t[2]).neg()
        if k == 'un' and t[1] == 'UAdd':
            return self.N(t[2])
        if k == 'call':
            f, args = t[1], t[2]
            if f in LOG_FUNCS and len(args) == 1:
                return self.L(args[0])
            if f in MIN_FUNCS and len(args) == 2:
                a, b = self.N(args[0]), self.N(args[1])
                if not a.d:
                    return Lin.atom(('natom', 'clip0', LinKey(b)))
                if not b.d:
                    return Lin.atom(('natom', 'clip0', LinKey(a)))
            if f in EXP_FUNCS and len(args) == 1:
                inner = self.N(args[0])
                # exp(log x) -> x
                if len(inner.d) == 1:
                    (a, p), = inner.d.items()
                    if a != () and a[0] == 'natom' and a[1] == 'log' and p == p_const(1):
                        return a[2].lin
                return Lin.atom(('natom', 'exp', LinKey(inner)))
            if f in LGAMMA_FUNCS and len(args) == 1:
                return Lin.atom(('natom', 'lgamma', LinKey(self.N(args[0]))))
        return Lin.atom(t)

    def L(self, x) -> Lin:
        """normal form of log(x)"""
        if x[0] == 'bin' and x[1] == 'Div':
            return self.L(x[2]) + self.L(x[3]).neg()
        if x[0] == 'bin' and x[1] == 'Mult':
            return self.L(x[2]) + self.L(x[3])
        if x[0] == 'const' and x[1] == 1:
            return Lin()
        n = self.N(x)
        if n.is_const() and n.const_poly() == p_const(1):
            return Lin()
        return Lin.atom(('natom', 'log', LinKey(n)))


def lgamma_rewrite(lin: Lin) -> Lin:
    """lgamma(1+x) - lgamma(x) -> log(x), applied pairwise where coefficients cancel"""
    d = dict(lin.d)
    lg = [(a, p) for a, p in d.items() if a != () and a[0] == 'natom' and a[1] == 'lgamma']
    one = Lin.const(1)
    for a, p in lg:
        if a not in d:
            continue
        x = a[2].lin
        for b, pb in lg:
            if b not in d or b is a:
                continue
            y = b[2].lin
            if (y + one) == x and p_add(p, pb) == {}:
                # p*lgamma(1+y) - p*lgamma(y) = p*log(y)
                del d[a]
                del d[b]
                la = ('natom', 'log', LinKey(y))
                q = p_add(d.get(la, {}), p)
                if q:
                    d[la] = q
                else:
                    d.pop(la, None)
                break
    return Lin(d)
