"""Syntactic normal form applied to every analysed function *and* to every reference before reconstruction: a loop whose only
job is to fill fresh containers becomes the comprehension that builds them.

    L = []                              L = [E for T in IT if C]
    for T in IT:                 ==>
        [if C:]
            L.append(E)

    D1 = {}; D2 = {}                    D1 = {K1: V1 for T in IT}
    for T in IT:                 ==>    D2 = {K2: V2 for T in IT}
        t = X
        D1[K1] = V1
        D2[K2] = V2

Conditions (otherwise the loop is left as it is): the containers are initialised with an empty literal (`[]`, `{}`, `list()`,
`dict()`) by the statements immediately before the loop, the loop has no `else`, `break` or `continue`, the body is made of
assignments to temporaries that are dead after the loop, followed by appends / item stores to the containers (all under at most one
common `if` without `else`), the containers are not read inside the loop, and - when more than one container is filled or a
temporary is used more than once - every call in the expressions is a call the package's effect summary knows to be free of
effects or a method from PURE_METHODS (splitting the loop changes the order of evaluation, which only pure expressions allow).
Both directions of the refactoring "explicit loop <-> comprehension" therefore meet in one form.

Three smaller idioms are brought to one spelling as well: `x = np.empty(s, d); x[:] = v` is `x = np.full(s, v, dtype=d)`;
`if k not in d: d[k] = c` followed by `d[k] += w` is `d[k] = d.get(k, c) + w`; `while t: if c: break; ...` is
`while t and not c: ...`; a search loop written with a flag (`f = True; while f: if c: X; f = False else: S`) is `while not c: S` followed by `X`;
`if k in d: t = d[k] else: t = c` is `t = d.get(k, c)`; an object array filled by index that is only iterated afterwards is the list of its elements;
a `while` that counts a variable up to a bound (`j = a; while j < n and c: ...; j += 1`, j dead afterwards) is `for j in range(a, n): if not c: break; ...`."""
from __future__ import annotations
import ast
import copy

PURE_METHODS = {'tobytes', 'copy', 'sum', 'astype', 'max', 'min', 'any', 'all', 'keys', 'values', 'items', 'get', 'lower', 'upper',
                'strip', 'split', 'join', 'format', 'alleles', 'mean', 'tolist', 'ravel', 'reshape', 'index', 'count', 'startswith',
                'endswith', 'replace', 'decode', 'encode', 'nonzero', 'argmax', 'argmin', 'flatten'}
PURE_FUNCS = {'len', 'range', 'int', 'float', 'str', 'tuple', 'list', 'dict', 'set', 'sorted', 'zip', 'enumerate', 'min', 'max', 'sum',
              'abs', 'round', 'bool', 'any', 'all', 'isinstance', 'repr'}


def _empty_container(v):
    if isinstance(v, ast.List) and not v.elts:
        return 'list'
    if isinstance(v, ast.Dict) and not v.keys:
        return 'dict'
    if isinstance(v, ast.Call) and isinstance(v.func, ast.Name) and not v.args and not v.keywords and v.func.id in ('list', 'dict'):
        return v.func.id
    return None


def _names(node, ctx=None):
    return {n.id for n in ast.walk(node) if isinstance(n, ast.Name) and (ctx is None or isinstance(n.ctx, ctx))}


class _Subst(ast.NodeTransformer):
    def __init__(self, mapping):
        self.mapping = mapping

    def visit_Name(self, n):
        if isinstance(n.ctx, ast.Load) and n.id in self.mapping:
            return copy.deepcopy(self.mapping[n.id])
        return n


def _pure(expr, is_pure_call):
    for n in ast.walk(expr):
        if isinstance(n, ast.Call) and not is_pure_call(n):
            return False
        if isinstance(n, (ast.Yield, ast.YieldFrom, ast.Await, ast.NamedExpr, ast.Lambda)):
            return False
    return True


def _status(name, stmts):
    """'read' if `name` may be read before it is written by these statements, 'written' if it is certainly written first, else 'none'"""
    for st in stmts:
        r = _status1(name, st)
        if r != 'none':
            return r
    return 'none'


def _status1(name, st):
    if isinstance(st, ast.Assign):
        if name in _names(st.value, ast.Load) or any(name in _names(t, ast.Load) for t in st.targets):
            return 'read'
        if any(isinstance(t, ast.Name) and t.id == name for t in st.targets) or \
                any(isinstance(t, (ast.Tuple, ast.List)) and any(isinstance(e, ast.Name) and e.id == name for e in t.elts) for t in st.targets):
            return 'written'
        return 'none'
    if isinstance(st, ast.For):
        if name in _names(st.iter, ast.Load):
            return 'read'
        if name in _names(st.target):
            # written before the body runs; the loop may run zero times, so not certainly written afterwards
            return 'read' if _status(name, st.orelse) == 'read' else 'none'
        if _status(name, st.body) == 'read' or _status(name, st.orelse) == 'read':
            return 'read'
        return 'none'
    if isinstance(st, ast.While):
        if name in _names(st.test, ast.Load) or _status(name, st.body) == 'read' or _status(name, st.orelse) == 'read':
            return 'read'
        return 'none'
    if isinstance(st, ast.If):
        if name in _names(st.test, ast.Load):
            return 'read'
        a, b = _status(name, st.body), _status(name, st.orelse)
        if 'read' in (a, b):
            return 'read'
        return 'written' if a == b == 'written' else 'none'
    return 'read' if name in _names(st) else 'none'


def _live_after(name, rest):
    """may `name` be read by the statements after the loop before it is assigned again? (conservative)"""
    return _status(name, rest) == 'read'


def _try_loop(prefix, loop, rest, is_pure_call):
    """prefix: statements before the loop in the same block; returns (n_prefix_statements_consumed, replacement statements) or None"""
    if not isinstance(loop, ast.For) or loop.orelse:
        return None
    if any(isinstance(n, (ast.Break, ast.Continue, ast.Return, ast.Yield, ast.YieldFrom, ast.For, ast.While, ast.Try, ast.With, ast.Raise, ast.Assert,
                          ast.FunctionDef, ast.Global, ast.Nonlocal, ast.Delete, ast.AugAssign)) for st in loop.body for n in ast.walk(st)):
        return None
    body = list(loop.body)
    cond = None
    temps = []          # (name, expr) in order, defined before the optional if
    while body and isinstance(body[0], ast.Assign) and len(body[0].targets) == 1 and isinstance(body[0].targets[0], ast.Name):
        temps.append((body[0].targets[0].id, body[0].value))
        body = body[1:]
    if len(body) == 1 and isinstance(body[0], ast.If) and not body[0].orelse:
        cond = body[0].test
        body = list(body[0].body)
        while body and isinstance(body[0], ast.Assign) and len(body[0].targets) == 1 and isinstance(body[0].targets[0], ast.Name):
            return None         # temporaries inside the condition: keep it simple
    fills = []          # (container, kind, key-or-None, value)
    for st in body:
        if isinstance(st, ast.Expr) and isinstance(st.value, ast.Call) and isinstance(st.value.func, ast.Attribute) and st.value.func.attr == 'append' \
                and isinstance(st.value.func.value, ast.Name) and len(st.value.args) == 1 and not st.value.keywords:
            fills.append((st.value.func.value.id, 'list', None, st.value.args[0]))
        elif isinstance(st, ast.Assign) and len(st.targets) == 1 and isinstance(st.targets[0], ast.Subscript) and isinstance(st.targets[0].value, ast.Name) \
                and not isinstance(st.targets[0].slice, (ast.Slice, ast.Tuple)):
            fills.append((st.targets[0].value.id, 'dict', st.targets[0].slice, st.value))
        else:
            return None
    if not fills:
        return None
    containers = [c for c, _, _, _ in fills]
    if len(set(containers)) != len(containers):
        return None
    # initialisations: the statements immediately before the loop
    inits = {}
    k = 0
    for st in reversed(prefix):
        if isinstance(st, ast.Assign) and len(st.targets) == 1 and isinstance(st.targets[0], ast.Name) and _empty_container(st.value):
            inits[st.targets[0].id] = (_empty_container(st.value), st)
            k += 1
        else:
            break
    if set(inits) != set(containers):
        return None
    for c, kind, _, _ in fills:
        if inits[c][0] != kind:
            return None
    tnames = _names(loop.target)
    tempnames = [t for t, _ in temps]
    if len(set(tempnames)) != len(tempnames) or set(tempnames) & tnames or set(tempnames) & set(containers):
        return None
    # containers not read in the loop; temporaries and loop variables dead afterwards
    exprs = [e for _, e in temps] + ([cond] if cond is not None else []) + [x for _, _, key, v in fills for x in (key, v) if x is not None]
    for e in exprs + [loop.iter]:
        if _names(e) & set(containers):
            return None
    for name in set(tempnames) | tnames:
        if _live_after(name, rest):
            return None
    # substitute temporaries (in order, so that a temporary may use an earlier one)
    mapping = {}
    uses = {t: 0 for t in tempnames}
    for t, e in temps:
        mapping[t] = _Subst(dict(mapping)).visit(copy.deepcopy(e))
    targets = ([cond] if cond is not None else []) + [x for _, _, key, v in fills for x in (key, v) if x is not None]
    for e in targets:
        for n in ast.walk(e):
            if isinstance(n, ast.Name) and n.id in uses:
                uses[n.id] += 1
    need_pure = len(fills) > 1 or any(u > 1 for u in uses.values()) or any(u == 0 for u in uses.values())
    if need_pure:
        for e in exprs:
            if not _pure(e, is_pure_call):
                return None
    out = []
    for c, kind, key, v in fills:
        sub = _Subst(mapping)
        gen = ast.comprehension(target=copy.deepcopy(loop.target), iter=copy.deepcopy(loop.iter),
                                ifs=[sub.visit(copy.deepcopy(cond))] if cond is not None else [], is_async=0)
        if kind == 'list':
            comp = ast.ListComp(elt=sub.visit(copy.deepcopy(v)), generators=[gen])
        else:
            comp = ast.DictComp(key=sub.visit(copy.deepcopy(key)), value=sub.visit(copy.deepcopy(v)), generators=[gen])
        st = ast.Assign(targets=[ast.Name(id=c, ctx=ast.Store())], value=comp)
        ast.copy_location(st, loop)
        ast.fix_missing_locations(st)
        out.append(st)
    return k, out


def _is_np(call, names):
    return isinstance(call, ast.Call) and ast.unparse(call.func) in {f"{m}.{n}" for m in ('np', 'numpy') for n in names}


def _fill_to_full(a, b):
    """X = np.empty(S[, D]) ; X[:] = V   ==>   X = np.full(S, V, dtype=D or float)"""
    if not (isinstance(a, ast.Assign) and len(a.targets) == 1 and isinstance(a.targets[0], ast.Name) and _is_np(a.value, ('empty',))):
        return None
    if not (isinstance(b, ast.Assign) and len(b.targets) == 1 and isinstance(b.targets[0], ast.Subscript) and isinstance(b.targets[0].value, ast.Name)
            and b.targets[0].value.id == a.targets[0].id and isinstance(b.targets[0].slice, ast.Slice)
            and b.targets[0].slice.lower is None and b.targets[0].slice.upper is None and b.targets[0].slice.step is None):
        return None
    call = a.value
    if a.targets[0].id in _names(b.value) or not call.args or len(call.args) > 2 or any(k.arg not in ('dtype', 'shape') for k in call.keywords):
        return None
    dtype = call.args[1] if len(call.args) == 2 else next((k.value for k in call.keywords if k.arg == 'dtype'), ast.Name(id='float', ctx=ast.Load()))
    new = ast.Assign(targets=[ast.Name(id=a.targets[0].id, ctx=ast.Store())],
                     value=ast.Call(func=copy.deepcopy(call.func), args=[copy.deepcopy(call.args[0]), copy.deepcopy(b.value)],
                                    keywords=[ast.keyword(arg='dtype', value=copy.deepcopy(dtype))]))
    new.value.func.attr = 'full'
    ast.copy_location(new, a)
    ast.fix_missing_locations(new)
    return new


def _full_keyword(st):
    """np.full(S, V, D) -> np.full(S, V, dtype=D): one spelling"""
    if isinstance(st, ast.Assign) and _is_np(st.value, ('full',)) and len(st.value.args) == 3 and not st.value.keywords:
        st.value.keywords = [ast.keyword(arg='dtype', value=st.value.args[2])]
        st.value.args = st.value.args[:2]
        return True
    return False


def _dict_accumulate(a, b):
    """if K not in D: D[K] = INIT ; D[K] += W   ==>   D[K] = D.get(K, INIT) + W"""
    if not (isinstance(a, ast.If) and not a.orelse and len(a.body) == 1 and isinstance(a.test, ast.Compare) and len(a.test.ops) == 1
            and isinstance(a.test.ops[0], ast.NotIn) and isinstance(a.test.comparators[0], ast.Name)):
        return None
    d, k = a.test.comparators[0].id, a.test.left
    init = a.body[0]
    if not (isinstance(init, ast.Assign) and len(init.targets) == 1 and isinstance(init.targets[0], ast.Subscript) and isinstance(init.targets[0].value, ast.Name)
            and init.targets[0].value.id == d and ast.dump(init.targets[0].slice) == ast.dump(k) and isinstance(init.value, ast.Constant)):
        return None
    if not (isinstance(b, ast.AugAssign) and isinstance(b.op, ast.Add) and isinstance(b.target, ast.Subscript) and isinstance(b.target.value, ast.Name)
            and b.target.value.id == d and ast.dump(b.target.slice) == ast.dump(k)):
        return None
    if not isinstance(k, (ast.Name, ast.Constant)) or d in _names(b.value):
        return None
    get = ast.Call(func=ast.Attribute(value=ast.Name(id=d, ctx=ast.Load()), attr='get', ctx=ast.Load()), args=[copy.deepcopy(k), copy.deepcopy(init.value)], keywords=[])
    tgt = copy.deepcopy(b.target)
    tgt.ctx = ast.Store()
    new = ast.Assign(targets=[tgt], value=ast.BinOp(left=get, op=ast.Add(), right=copy.deepcopy(b.value)))
    ast.copy_location(new, a)
    ast.fix_missing_locations(new)
    return new


def _leading_break(loop):
    """while T: if C: break ; REST   ==>   while T and not C: REST   (no else clause; T is evaluated before C in both)"""
    if not (isinstance(loop, ast.While) and not loop.orelse and len(loop.body) >= 2):
        return False
    first = loop.body[0]
    if not (isinstance(first, ast.If) and not first.orelse and len(first.body) == 1 and isinstance(first.body[0], ast.Break)):
        return False
    neg = ast.UnaryOp(op=ast.Not(), operand=first.test)
    if isinstance(first.test, ast.Compare) and len(first.test.ops) == 1 and type(first.test.ops[0]) in (ast.Eq, ast.NotEq, ast.Is, ast.IsNot, ast.In, ast.NotIn):
        flip = {ast.Eq: ast.NotEq, ast.NotEq: ast.Eq, ast.Is: ast.IsNot, ast.IsNot: ast.Is, ast.In: ast.NotIn, ast.NotIn: ast.In}
        neg = ast.Compare(left=first.test.left, ops=[flip[type(first.test.ops[0])]()], comparators=first.test.comparators)
    loop.test = ast.BoolOp(op=ast.And(), values=[loop.test, neg])
    loop.body = loop.body[1:]
    ast.fix_missing_locations(loop)
    return True


def _counter_while(init, loop, rest):
    """j = A                                  for j in range(A, N):
       while j < N [and C]:           ==>         [if not C: break]
           BODY                                   BODY
           j += 1
    when j is stored nowhere else in the loop, the loop has no `continue` and no `else`, N is a name, constant, attribute or len() of a name
    that the body does not assign, and j is not read after the loop before it is assigned again"""
    if not (isinstance(init, ast.Assign) and len(init.targets) == 1 and isinstance(init.targets[0], ast.Name)):
        return None
    j = init.targets[0].id
    if not (isinstance(loop, ast.While) and not loop.orelse and len(loop.body) >= 2):
        return None
    test, others = loop.test, []
    if isinstance(test, ast.BoolOp) and isinstance(test.op, ast.And):
        test, others = test.values[0], test.values[1:]
    if not (isinstance(test, ast.Compare) and len(test.ops) == 1 and isinstance(test.ops[0], ast.Lt)
            and isinstance(test.left, ast.Name) and test.left.id == j):
        return None
    bound = test.comparators[0]
    core = bound.args[0] if (isinstance(bound, ast.Call) and isinstance(bound.func, ast.Name) and bound.func.id == 'len'
                             and len(bound.args) == 1 and not bound.keywords) else bound
    while isinstance(core, ast.Attribute):
        core = core.value
    if not isinstance(core, (ast.Name, ast.Constant)):
        return None
    last = loop.body[-1]
    def _one(e):
        return isinstance(e, ast.Constant) and type(e.value) is int and e.value == 1

    def _isj(e):
        return isinstance(e, ast.Name) and e.id == j
    aug = isinstance(last, ast.AugAssign) and isinstance(last.op, ast.Add) and _isj(last.target) and _one(last.value)
    # `j = j + 1` / `j = 1 + j` is the same step (the thorough tier's rewriting T6 spells it that way)
    plain = isinstance(last, ast.Assign) and len(last.targets) == 1 and _isj(last.targets[0]) and isinstance(last.value, ast.BinOp) \
        and isinstance(last.value.op, ast.Add) and ((_isj(last.value.left) and _one(last.value.right)) or (_one(last.value.left) and _isj(last.value.right)))
    if not (aug or plain):
        return None
    body = loop.body[:-1]
    stored = {n.id for b in body for n in ast.walk(b) if isinstance(n, ast.Name) and isinstance(n.ctx, (ast.Store, ast.Del))}
    if j in stored or (isinstance(core, ast.Name) and core.id in stored) or _refs(init.value, j):
        return None

    def has_continue(stmts):
        for st in stmts:
            if isinstance(st, ast.Continue):
                return True
            if isinstance(st, (ast.For, ast.While, ast.FunctionDef)):
                continue            # a continue in there belongs to the inner loop
            for fld in ('body', 'orelse', 'finalbody'):
                if has_continue(getattr(st, fld, []) or []):
                    return True
            if isinstance(st, ast.Try) and any(has_continue(h.body) for h in st.handlers):
                return True
        return False
    if has_continue(body) or _live_after(j, rest):
        return None
    new_body = list(body)
    if others:
        cond = others[0] if len(others) == 1 else ast.BoolOp(op=ast.And(), values=list(others))
        new_body.insert(0, ast.If(test=ast.UnaryOp(op=ast.Not(), operand=cond), body=[ast.Break()], orelse=[]))
    rng = ast.Call(func=ast.Name(id='range', ctx=ast.Load()), args=[init.value, bound], keywords=[])
    new = ast.For(target=ast.Name(id=j, ctx=ast.Store()), iter=rng, body=new_body, orelse=[], type_comment=None)
    ast.copy_location(new, loop)
    ast.fix_missing_locations(new)
    return new


def _refs(node, name):
    return any(isinstance(n, ast.Name) and n.id == name for n in ast.walk(node))


def _flag_loop(res, loop, rest):
    """F = True ; while F: if C: BODY; F = False  else: STEP      ==>      while not C: STEP ; BODY
    (a search loop written with a flag).  F is set just before the loop, read by nothing else and dead afterwards."""
    if not (isinstance(loop, ast.While) and not loop.orelse and isinstance(loop.test, ast.Name) and len(loop.body) == 1):
        return None
    flag = loop.test.id
    iff = loop.body[0]
    if not (isinstance(iff, ast.If) and iff.orelse and iff.body):
        return None
    last = iff.body[-1]
    if not (isinstance(last, ast.Assign) and len(last.targets) == 1 and isinstance(last.targets[0], ast.Name) and last.targets[0].id == flag
            and isinstance(last.value, ast.Constant) and last.value.value is False):
        return None
    body, step = iff.body[:-1], iff.orelse
    if _refs(iff.test, flag) or any(_refs(b, flag) for b in body) or any(_refs(b, flag) for b in step):
        return None
    if any(isinstance(n, (ast.Break, ast.Continue, ast.Return, ast.Yield, ast.YieldFrom)) for b in body + step for n in ast.walk(b)):
        return None
    # F = True among the simple assignments directly before the loop
    k = None
    for j in range(len(res) - 1, -1, -1):
        st = res[j]
        if not (isinstance(st, ast.Assign) and len(st.targets) == 1 and isinstance(st.targets[0], ast.Name)):
            break
        if st.targets[0].id == flag:
            if isinstance(st.value, ast.Constant) and st.value.value is True:
                k = j
            break
    if k is None or _live_after(flag, rest):
        return None
    if any(_refs(res[j], flag) for j in range(k + 1, len(res))):
        return None
    neg = ast.UnaryOp(op=ast.Not(), operand=iff.test)
    if isinstance(iff.test, ast.Compare) and len(iff.test.ops) == 1 and type(iff.test.ops[0]) in (ast.Eq, ast.NotEq, ast.Is, ast.IsNot, ast.In, ast.NotIn):
        flip = {ast.Eq: ast.NotEq, ast.NotEq: ast.Eq, ast.Is: ast.IsNot, ast.IsNot: ast.Is, ast.In: ast.NotIn, ast.NotIn: ast.In}
        neg = ast.Compare(left=iff.test.left, ops=[flip[type(iff.test.ops[0])]()], comparators=iff.test.comparators)
    new_loop = ast.While(test=neg, body=step, orelse=[])
    ast.copy_location(new_loop, loop)
    ast.fix_missing_locations(new_loop)
    return k, [new_loop] + body


def _membership_default(st):
    """if K in D: T = D[K] else: T = C      ==>      T = D.get(K, C)       (K a name or constant, C a constant)"""
    if not (isinstance(st, ast.If) and len(st.body) == 1 and len(st.orelse) == 1 and isinstance(st.test, ast.Compare) and len(st.test.ops) == 1
            and isinstance(st.test.ops[0], (ast.In, ast.NotIn)) and isinstance(st.test.comparators[0], ast.Name)
            and isinstance(st.test.left, (ast.Name, ast.Constant))):
        return None
    d, k = st.test.comparators[0].id, st.test.left
    hit, miss = (st.body[0], st.orelse[0]) if isinstance(st.test.ops[0], ast.In) else (st.orelse[0], st.body[0])
    if not (isinstance(hit, ast.Assign) and isinstance(miss, ast.Assign) and len(hit.targets) == 1 and len(miss.targets) == 1
            and ast.dump(hit.targets[0]) == ast.dump(miss.targets[0]) and isinstance(miss.value, ast.Constant)):
        return None
    v = hit.value
    if not (isinstance(v, ast.Subscript) and isinstance(v.value, ast.Name) and v.value.id == d and ast.dump(v.slice) == ast.dump(k)):
        return None
    if _refs(hit.targets[0], d) and not isinstance(hit.targets[0], ast.Name):
        return None
    get = ast.Call(func=ast.Attribute(value=ast.Name(id=d, ctx=ast.Load()), attr='get', ctx=ast.Load()), args=[copy.deepcopy(k), copy.deepcopy(miss.value)], keywords=[])
    new = ast.Assign(targets=[copy.deepcopy(hit.targets[0])], value=get)
    ast.copy_location(new, st)
    ast.fix_missing_locations(new)
    return new


def _object_array(a, loop, rest):
    """A = np.empty(N, dtype="O") ; for I in range(N): A[I] = E      ==>      A = [E for I in range(N)]
    when everything that reads A afterwards only iterates it (`sep.join(A)`, `list(A)`, `for x in A`)"""
    if not (isinstance(a, ast.Assign) and len(a.targets) == 1 and isinstance(a.targets[0], ast.Name) and _is_np(a.value, ('empty',)) and a.value.args):
        return None
    call = a.value
    dt = call.args[1] if len(call.args) == 2 else next((k.value for k in call.keywords if k.arg == 'dtype'), None)
    if not (dt is not None and ((isinstance(dt, ast.Constant) and dt.value in ('O', 'object')) or (isinstance(dt, ast.Name) and dt.id == 'object'))):
        return None
    name = a.targets[0].id
    if not (isinstance(loop, ast.For) and not loop.orelse and isinstance(loop.target, ast.Name) and len(loop.body) == 1
            and isinstance(loop.iter, ast.Call) and isinstance(loop.iter.func, ast.Name) and loop.iter.func.id == 'range' and len(loop.iter.args) == 1
            and ast.dump(loop.iter.args[0]) == ast.dump(call.args[0])):
        return None
    st = loop.body[0]
    if not (isinstance(st, ast.Assign) and len(st.targets) == 1 and isinstance(st.targets[0], ast.Subscript) and isinstance(st.targets[0].value, ast.Name)
            and st.targets[0].value.id == name and isinstance(st.targets[0].slice, ast.Name) and st.targets[0].slice.id == loop.target.id
            and not _refs(st.value, name)):
        return None
    # every later read of A only iterates it
    for r in rest:
        parents = {}
        for n in ast.walk(r):
            for ch in ast.iter_child_nodes(n):
                parents[id(ch)] = n
        for n in ast.walk(r):
            if isinstance(n, ast.Name) and n.id == name and isinstance(n.ctx, ast.Load):
                par = parents.get(id(n))
                ok = isinstance(par, ast.Call) and len(par.args) == 1 and par.args[0] is n and not par.keywords and (
                    (isinstance(par.func, ast.Attribute) and par.func.attr == 'join') or (isinstance(par.func, ast.Name) and par.func.id in ('list', 'tuple')))
                ok = ok or (isinstance(par, (ast.For, ast.comprehension)) and par.iter is n)
                if not ok:
                    return None
        if isinstance(r, ast.Assign) and any(isinstance(t, ast.Name) and t.id == name for t in r.targets):
            break           # the name is bound to something else from here on
    comp = ast.ListComp(elt=copy.deepcopy(st.value), generators=[ast.comprehension(target=copy.deepcopy(loop.target), iter=copy.deepcopy(loop.iter), ifs=[], is_async=0)])
    new = ast.Assign(targets=[ast.Name(id=name, ctx=ast.Store())], value=comp)
    ast.copy_location(new, a)
    ast.fix_missing_locations(new)
    return new


_DTYPE = {'float': 'float64', 'int': 'int64', 'bool': 'bool_'}


def _canonical_dtypes(fn):
    """dtype=float / dtype=int / dtype=bool are numpy's float64 / int64 / bool_: one spelling (the module alias of the call is reused)"""
    n_ = 0
    for c in ast.walk(fn):
        if isinstance(c, ast.Call) and isinstance(c.func, ast.Attribute) and isinstance(c.func.value, ast.Name) and c.func.value.id in ('np', 'numpy'):
            for k in c.keywords:
                if k.arg == 'dtype' and isinstance(k.value, ast.Name) and k.value.id in _DTYPE:
                    k.value = ast.copy_location(ast.Attribute(value=ast.Name(id=c.func.value.id, ctx=ast.Load()), attr=_DTYPE[k.value.id], ctx=ast.Load()), k.value)
                    n_ += 1
                elif k.arg == 'dtype' and isinstance(k.value, ast.Constant) and k.value.value in ('float', 'float64', 'int', 'int64', 'bool'):
                    k.value = ast.copy_location(ast.Attribute(value=ast.Name(id=c.func.value.id, ctx=ast.Load()),
                                                              attr=_DTYPE.get(k.value.value, k.value.value), ctx=ast.Load()), k.value)
                    n_ += 1
    if n_:
        ast.fix_missing_locations(fn)
    return n_


def normalise_function(fn: ast.FunctionDef, is_pure_call=None):
    """in place; returns the number of loops rewritten"""
    if is_pure_call is None:
        is_pure_call = default_purity(None, None)
    count = [0]

    def block(stmts, loop_body=False):
        res = []
        i = 0
        stmts = list(stmts)
        if loop_body:
            # `if c: A; continue` followed by REST, at the end of a loop body, is `if c: A else: REST`
            for j_, st_ in enumerate(stmts[:-1]):
                if isinstance(st_, ast.If) and not st_.orelse and len(st_.body) >= 2 and isinstance(st_.body[-1], ast.Continue) \
                        and not any(isinstance(n_, (ast.Break, ast.Continue)) for b_ in st_.body[:-1] for n_ in ast.walk(b_)):
                    new_if = ast.If(test=st_.test, body=st_.body[:-1], orelse=stmts[j_ + 1:])
                    ast.copy_location(new_if, st_)
                    stmts = stmts[:j_] + [new_if]
                    count[0] += 1
                    break
        while i < len(stmts):
            st = stmts[i]
            if isinstance(st, ast.If) and st.orelse and isinstance(st.test, ast.UnaryOp) and isinstance(st.test.op, ast.Not):
                # `if not c: A else: B` is `if c: B else: A`
                st.test, st.body, st.orelse = st.test.operand, st.orelse, st.body
                count[0] += 1
            for fld in ('body', 'orelse', 'finalbody'):
                if isinstance(getattr(st, fld, None), list) and not isinstance(st, (ast.FunctionDef, ast.ClassDef)):
                    setattr(st, fld, block(getattr(st, fld), loop_body=(fld == 'body' and isinstance(st, (ast.For, ast.While)))))
            if isinstance(st, ast.Try):
                for h in st.handlers:
                    h.body = block(h.body)
            if isinstance(st, ast.While) and _leading_break(st):
                count[0] += 1
            if res and isinstance(st, ast.While):
                cw = _counter_while(res[-1], st, stmts[i + 1:])
                if cw is not None:
                    res.pop()
                    st = cw
                    count[0] += 1
            if _full_keyword(st):
                count[0] += 1
            md = _membership_default(st)
            if md is not None:
                st = md
                count[0] += 1
            fl = _flag_loop(res, st, stmts[i + 1:])
            if fl is not None:
                k_, new_ = fl
                del res[k_]
                res.extend(new_)
                count[0] += 1
                i += 1
                continue
            if res and isinstance(st, ast.For):
                oa = _object_array(res[-1], st, stmts[i + 1:])
                if oa is not None:
                    res[-1] = oa
                    count[0] += 1
                    i += 1
                    continue
            if res:
                merged = _fill_to_full(res[-1], st) or _dict_accumulate(res[-1], st)
                if merged is not None:
                    res[-1] = merged
                    count[0] += 1
                    i += 1
                    continue
            r = _try_loop(res, st, stmts[i + 1:], is_pure_call) if isinstance(st, ast.For) else None
            if r is not None:
                k, new = r
                if k:
                    del res[-k:]
                res.extend(new)
                count[0] += 1
            else:
                res.append(st)
            i += 1
        return res
    fn.body = block(fn.body)
    count[0] += _canonical_dtypes(fn)
    return count[0]


def default_purity(prog, f, eff=None):
    def is_pure_call(call: ast.Call):
        if isinstance(call.func, ast.Attribute) and call.func.attr in PURE_METHODS:
            return True
        if isinstance(call.func, ast.Name) and call.func.id in PURE_FUNCS:
            return True
        src = ast.unparse(call.func)
        if src.startswith(('np.', 'numpy.', 'math.')) and '.random.' not in src and not src.endswith(('.seed', '.shuffle', '.fill', '.sort', '.put')):
            return True
        if prog is not None and f is not None and eff is not None:
            q = prog.resolve_call(f, call)
            if q in prog.funcs and not eff.mutates[q] and not eff.draws[q] and not eff.seeds[q] and not eff.writes_stdout[q] \
                    and not eff.self_writes[q] and not eff.global_writes[q]:
                return True
        return False
    return is_pure_call
