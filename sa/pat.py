"""AST patterns with metavariables, so that structural rules do not depend on the names of locals.

A pattern is Python source. In it
  _x, _idx, ...   (underscore + lowercase)  match any ast.Name; the same metavariable must match the same name
  _X, _EXPR, ...  (underscore + uppercase)  match any expression sub-tree; reuse requires structural equality
Everything else (attributes, parameters you spell out, constants, operators, call shapes) must match
exactly. Matching ignores ctx, positions and type comments.
"""
from __future__ import annotations
import ast

_SKIP = {'lineno', 'col_offset', 'end_lineno', 'end_col_offset', 'ctx', 'type_comment', 'kind'}


_COMMUTATIVE = (ast.Add, ast.Mult, ast.BitAnd, ast.BitOr)
_FLIP = {ast.Lt: ast.Gt, ast.Gt: ast.Lt, ast.LtE: ast.GtE, ast.GtE: ast.LtE}


# single-definition, single-use temporaries (`t = E` then one later statement of the same block reads `t`, nothing in
# between mentions a name of E): a pattern sees through them, so introducing or removing such a temporary does not change
# what a structural rule matches.  Filled once per program by `prepare`.
INLINE = {}      # id(Name load node) -> defining expression
TEMPDEF = set()  # id(Assign node) defining such a temporary


def _names(n):
    return {m.id for m in ast.walk(n) if isinstance(m, ast.Name)}


def _prepare_function(fn):
    stores, loads = {}, {}
    for n in ast.walk(fn):
        if isinstance(n, ast.Name):
            (stores if isinstance(n.ctx, (ast.Store, ast.Del)) else loads).setdefault(n.id, []).append(n)
    params = {a.arg for a in fn.args.posonlyargs + fn.args.args + fn.args.kwonlyargs}
    for n in ast.walk(fn):
        if isinstance(n, (ast.For, ast.comprehension)):
            for m in ast.walk(n.target):
                if isinstance(m, ast.Name):
                    params.add(m.id)
        if isinstance(n, ast.AugAssign) and isinstance(n.target, ast.Name):
            params.add(n.target.id)

    def blocks(node):
        for f in ('body', 'orelse', 'finalbody'):
            b = getattr(node, f, None)
            if isinstance(b, list) and b and isinstance(b[0], ast.stmt):
                yield b
        for h in getattr(node, 'handlers', []) or []:
            yield h.body
    todo = [fn]
    while todo:
        node = todo.pop()
        for blk in blocks(node):
            for i, st in enumerate(blk):
                if not isinstance(st, (ast.FunctionDef, ast.ClassDef, ast.Lambda)):
                    todo.append(st)
                if not (isinstance(st, ast.Assign) and len(st.targets) == 1 and isinstance(st.targets[0], ast.Name)):
                    continue
                name = st.targets[0].id
                if name in params or len(stores.get(name, ())) != 1 or len(loads.get(name, ())) != 1:
                    continue
                use = loads[name][0]
                rhs_names = _names(st.value)
                if name in rhs_names:
                    continue
                for j in range(i + 1, len(blk)):
                    later = blk[j]
                    simple = isinstance(later, (ast.Assign, ast.AugAssign, ast.AnnAssign, ast.Expr, ast.Return))
                    inside = any(m is use for m in ast.walk(later))
                    if inside:
                        if simple:
                            INLINE[id(use)] = st.value
                            TEMPDEF.add(id(st))
                        break
                    if _names(later) & rhs_names - _PURE_ROOTS:
                        break


_PURE_ROOTS = {'np', 'numpy', 'math', 'len', 'range', 'int', 'float', 'str', 'tuple', 'list', 'min', 'max', 'sum', 'abs', 'sorted', 'zip', 'enumerate'}


PSIG = {}     # bare name of a repository function (unique names only) -> parameter names


def prepare(function_nodes):
    INLINE.clear()
    TEMPDEF.clear()
    PSIG.clear()
    seen = {}
    for fn in function_nodes:
        _prepare_function(fn)
        a = fn.args
        if not a.vararg and not a.kwarg:
            seen.setdefault(fn.name, []).append([x.arg for x in a.posonlyargs + a.args if x.arg not in ('self', 'cls')])
    PSIG.update({k: v[0] for k, v in seen.items() if len(v) == 1})


def _by_parameter(call):
    """arguments of a call of a repository function keyed by parameter name, or None"""
    name = call.func.id if isinstance(call.func, ast.Name) else call.func.attr if isinstance(call.func, ast.Attribute) else None
    params = PSIG.get(name)
    if params is None or any(isinstance(a, ast.Starred) for a in call.args) or any(k.arg is None for k in call.keywords) or len(call.args) > len(params):
        return None
    d = dict(zip(params, call.args))
    for k in call.keywords:
        if k.arg not in params or k.arg in d:
            return None
        d[k.arg] = k.value
    return d


def _strip_not(test):
    pol = True
    while isinstance(test, ast.UnaryOp) and isinstance(test.op, ast.Not):
        test, pol = test.operand, not pol
    return test, pol


def _if_variants(n):
    """the If as written, and the same decision with the test negated and the arms exchanged"""
    out = [(n.test, n.body, n.orelse)]
    core, pol = _strip_not(n.test)
    if n.orelse and not (len(n.orelse) == 1 and isinstance(n.orelse[0], ast.If) and False):
        neg = core if not pol else ast.UnaryOp(op=ast.Not(), operand=core)
        out.append((neg, n.orelse, n.body))
    if core is not n.test and pol:
        out.append((core, n.body, n.orelse))       # not not c
    return out


def compile_pattern(src: str):
    tree = ast.parse(src)
    if len(tree.body) == 1 and isinstance(tree.body[0], ast.Expr) and not src.strip().endswith(';'):
        # could be an expression pattern or an expression statement: keep both views
        return tree.body[0]
    return tree.body[0] if len(tree.body) == 1 else tree.body


def _is_name_var(n):
    return isinstance(n, ast.Name) and len(n.id) > 1 and n.id[0] == '_' and n.id[1].islower()


def _is_expr_var(n):
    return isinstance(n, ast.Name) and len(n.id) > 1 and n.id[0] == '_' and n.id[1].isupper()


def match(p, n, b: dict) -> bool:
    if _is_expr_var(p):
        if not isinstance(n, ast.AST):
            return False
        key = p.id
        if key in b:
            return ast.dump(b[key]) == ast.dump(n)
        b[key] = n
        return True
    if _is_name_var(p):
        if not isinstance(n, ast.Name):
            return False
        if p.id in b:
            return b[p.id] == n.id
        b[p.id] = n.id
        return True
    if isinstance(n, ast.Name) and id(n) in INLINE:
        # the node is a single-use temporary: match it by name, or else what it stands for
        if isinstance(p, ast.Name) and p.id == n.id:
            return True
        return match(p, INLINE[id(n)], b)
    if isinstance(p, ast.Expr) and not isinstance(n, ast.Expr) and isinstance(n, ast.expr):
        return match(p.value, n, b)
    if isinstance(p, ast.Expr) and _is_expr_var(p.value) and isinstance(n, ast.stmt):
        return match(p.value, n, b)      # `_X` alone on a line matches any single statement
    if isinstance(p, ast.AugAssign) and isinstance(n, ast.Assign) and len(n.targets) == 1 and isinstance(n.targets[0], ast.Name) \
            and isinstance(n.value, ast.BinOp) and type(n.value.op) is type(p.op):
        # x op= e  matches  x = x op e  (and x = e op x for + and *)
        tgt = n.targets[0]
        for me0, other in ((n.value.left, n.value.right), (n.value.right, n.value.left)):
            me = INLINE.get(id(me0), me0) if isinstance(me0, ast.Name) else me0
            if isinstance(me, ast.Name) and me.id == tgt.id and (me0 is n.value.left or isinstance(p.op, _COMMUTATIVE)):
                b2 = dict(b)
                if match(p.target, tgt, b2) and match(p.value, other, b2):
                    b.update(b2)
                    return True
        return False
    if type(p) is not type(n):
        return False
    if isinstance(p, ast.If):
        for test, body, orelse in _if_variants(n):
            b2 = dict(b)
            if match(p.test, test, b2) and match(p.body, body, b2) and match(p.orelse, orelse, b2):
                b.update(b2)
                return True
        return False
    if isinstance(p, ast.UnaryOp) and isinstance(p.op, ast.Not) and isinstance(n.op, ast.Not) and isinstance(n.operand, ast.UnaryOp) \
            and isinstance(n.operand.op, ast.Not) and isinstance(n.operand.operand, ast.UnaryOp) and isinstance(n.operand.operand.op, ast.Not):
        return match(p, n.operand.operand, b)       # not not not x
    if isinstance(p, ast.Call):
        # a repository function: positional and keyword arguments are one mapping parameter -> value
        dp, dn = _by_parameter(p), _by_parameter(n)
        if dp is not None and dn is not None:
            if not match(p.func, n.func, b) or set(dp) != set(dn):
                return False
            return all(match(dp[k], dn[k], b) for k in dp)
        # keyword arguments in any order
        if not match(p.func, n.func, b) or not match(p.args, n.args, b):
            return False
        if any(k.arg is None for k in p.keywords + n.keywords):
            return match(p.keywords, n.keywords, b)
        if len(p.keywords) != len(n.keywords) or {k.arg for k in p.keywords} != {k.arg for k in n.keywords}:
            return False
        nk = {k.arg: k.value for k in n.keywords}
        return all(match(k.value, nk[k.arg], b) for k in p.keywords)
    if isinstance(p, ast.BoolOp) and type(p.op) is type(n.op) and len(p.values) == 2 and len(n.values) == 2:
        for l, r in ((n.values[0], n.values[1]), (n.values[1], n.values[0])):
            b2 = dict(b)
            if match(p.values[0], l, b2) and match(p.values[1], r, b2):
                b.update(b2)
                return True
        return False
    if isinstance(p, ast.BinOp) and isinstance(p.op, _COMMUTATIVE) and type(p.op) is type(n.op):
        # + * & | : either operand order (string / list concatenation is written with constants or displays, which only match themselves)
        for l, r in ((n.left, n.right), (n.right, n.left)):
            b2 = dict(b)
            if match(p.left, l, b2) and match(p.right, r, b2):
                b.update(b2)
                return True
        return False
    if isinstance(p, ast.Compare) and len(p.ops) == 1 and len(n.ops) == 1 and isinstance(p.ops[0], (ast.Eq, ast.NotEq)) and type(p.ops[0]) is type(n.ops[0]):
        for l, r in ((n.left, n.comparators[0]), (n.comparators[0], n.left)):
            b2 = dict(b)
            if match(p.left, l, b2) and match(p.comparators[0], r, b2):
                b.update(b2)
                return True
        return False
    if isinstance(p, ast.Compare) and len(p.ops) == 1 and len(n.ops) == 1 and type(p.ops[0]) in _FLIP and isinstance(n.ops[0], _FLIP[type(p.ops[0])]):
        # a < b  matches  b > a
        b2 = dict(b)
        if match(p.left, n.comparators[0], b2) and match(p.comparators[0], n.left, b2):
            b.update(b2)
            return True
        return False
    if isinstance(p, ast.AST):
        for f in p._fields:
            if f in _SKIP:
                continue
            if not match(getattr(p, f, None), getattr(n, f, None), b):
                return False
        return True
    if isinstance(p, list):
        # a body consisting of the single statement `_BODY` matches any statement list
        if len(p) == 1 and isinstance(p[0], ast.Expr) and isinstance(p[0].value, ast.Name) and p[0].value.id == '_BODY':
            return isinstance(n, list)
        if not isinstance(n, list):
            return False
        if n and isinstance(n[0], ast.stmt):
            n = [x for x in n if id(x) not in TEMPDEF]
        if len(p) != len(n):
            return False
        return all(match(x, y, b) for x, y in zip(p, n))
    return p == n


def find_all(root, src, bindings=None, kinds=None):
    """all (node, bindings) under root matching the pattern; bindings given are respected and extended"""
    p = compile_pattern(src)
    out = []
    want_expr = isinstance(p, ast.Expr)
    for n in ast.walk(root):
        cands = [p]
        if want_expr:
            cands = [p, p.value]
        for pp in cands:
            if type(pp) is not type(n) and not (_is_expr_var(pp) or _is_name_var(pp)):
                continue
            b = dict(bindings or {})
            if match(pp, n, b):
                out.append((n, b))
                break
    return out


def find(root, src, bindings=None):
    r = find_all(root, src, bindings)
    return r[0] if r else (None, None)


def has(root, src, bindings=None):
    return bool(find_all(root, src, bindings))


def count(root, src, bindings=None):
    return len(find_all(root, src, bindings))
