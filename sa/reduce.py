"""Reduction recognition: after(L, carried(acc, init) OP e)  ->  ('reduce', OP, init, guard, e)."""
from __future__ import annotations
from .terms import subst


def reductions(t):
    def rule(x):
        if not (x and x[0] == 'after'):
            return None
        body = x[2]
        guard = None
        if body[0] == 'phi':
            c, a, b = body[1], body[2], body[3]
            if a[0] == 'carried' and b[0] == 'bin':
                guard, body = ('un', 'Not', c), b
            elif b[0] == 'carried' and a[0] == 'bin':
                guard, body = c, a
            else:
                return None
        if body[0] == 'bin' and body[1] in ('Add', 'Mult'):
            l, r = body[2], body[3]
            if l[0] == 'carried':
                return ('reduce', body[1], l[2], guard, r)
            if r[0] == 'carried':
                return ('reduce', body[1], r[2], guard, l)
        if body[0] == 'call' and body[1].endswith('add_log_prob') and len(body[2]) == 2 and body[2][0][0] == 'carried':
            return ('reduce', 'LogAdd', body[2][0][2], guard, body[2][1])
        return None
    return subst(t, rule)
