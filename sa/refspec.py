"""Reference agreement for leaf helpers.

The samplers, enumerators and writers that the property rules analyse rest on small helper
functions (log-space sums, multiset counters, combinatorial indices, gamete permutation counts,
transcoders).  A rule of a property can only treat a call of such a helper as an atom if the helper
itself is what the rule takes it to be.  For each helper a *reference implementation* is kept in
`sa/specs/<module>.py` (Python source written from the helper's documentation; parsed with `ast`,
never imported or run).  Helper and reference are put through the same use-def reconstruction and
compared as *summaries*:

    every effect event of the function (array store, return, raise, loop range, while test, break /
    continue, effectful call) with its path condition, plus the final version of every mutated
    parameter,

all as canonical terms: local names, temporaries, the order of commutative operands, the direction of
comparisons, if/else orientation, guard clauses, positional vs keyword arguments and line numbers do
not matter (they are removed by the term constructors of `terms.py` and by `norm` below).  Arithmetic
inside the terms is additionally compared in linear normal form.

Verdicts: equal summaries -> ok.  Different summaries -> violation; the report shows the events that
differ.  (An earlier version answered "analysis error" when the number of loops differed, on the theory
that this means a re-design; the first seeded change that replaced an inner loop by a comparison with
the neighbouring element showed that realistic defects change the loop structure as well.)  A
behaviour-preserving re-design of a referenced function therefore needs its reference re-confirmed:
the report says which events differ, so the reader can decide quickly.
"""
from __future__ import annotations
import ast
import hashlib
import pathlib
from .model import Func, AnalysisError
from .terms import Recon, subst, simplify, show, atoms, walk, _texty, mkbool, mknot, mkphi, mkcmp, is_int_term, _INT_NEG
from .norm import Normaliser

SPEC_DIR = pathlib.Path(__file__).resolve().parent / "specs"
_SKIP = {'assign', 'augname', 'try', 'loop_exit', 'continue'}   # a continue shows in the path conditions of what follows
# (an assert is an effect like a raise: `assert c` is `if not c: raise AssertionError` - a new or stronger assert rejects inputs the reference accepts)


def load_specs(modname):
    """name -> FunctionDef of the reference implementations for module `modname` (top-level functions;
    methods as Class.method via nested classes)"""
    p = SPEC_DIR / (modname + ".py")
    if not p.exists():
        raise AnalysisError(f"reference file missing: {p}")
    tree = ast.parse(p.read_text(), filename=str(p))
    out = {}
    for n in tree.body:
        if isinstance(n, ast.FunctionDef):
            out[n.name] = n
        elif isinstance(n, ast.ClassDef):
            for m in n.body:
                if isinstance(m, ast.FunctionDef):
                    out[f"{n.name}.{m.name}"] = m
    # the same syntactic normal form as the analysed functions (sa/normalise.py)
    from .normalise import normalise_function, default_purity
    purity = None
    if _SPEC_PURITY[0] is not None:
        prog, eff = _SPEC_PURITY[0]
        rep = next((f for f in prog.funcs.values() if f.module.modname == modname), None)      # calls resolve through the module's imports
        if rep is not None:
            purity = default_purity(prog, rep, eff)
    for fn in out.values():
        normalise_function(fn, purity)
    return out


_SPEC_PURITY = [None]       # set by the context: purity oracle backed by the effect summaries of the analysed tree


def _mask(t, lvnum):
    """local identities removed: carried names, loop line numbers, allocation ids (used to rank loop-carried values structurally)"""
    def rule(x):
        h = x[0] if x else None
        if h == 'carried':
            return ('carried', '?')
        if h == 'after':
            return ('after', '?', x[2])
        if h == 'loopvar':
            k = lvnum.get((x[1], x[2]))
            return ('loopvar', f"#v{k}" if k is not None else '?', x[2])
        if h == 'undef':
            return ('undef', '?')
        if h == 'call' and len(x) > 4 and x[4] is not None:
            return x[:4] + ('?',)
        return None
    return subst(t, rule)


def _mask0(t):
    """every local identity removed, whether or not the term has been renumbered already (key for finding a carried value by name and
    by the shape of its initial value)"""
    def rule(x):
        h = x[0] if x else None
        if h == 'carried':
            return ('carried', '?')
        if h == 'after':
            return ('after', '?', x[2])
        if h == 'loopvar':
            return ('loopvar', '?', x[2])
        if h == 'undef':
            return ('undef', '?')
        if h == 'call' and len(x) > 4 and x[4] is not None:
            return x[:4] + ('?',)
        if h in ('inloop', 'handler') and len(x) == 2:
            return (h, '?')
        return None
    return subst(t, rule)


_CV_BY_SHAPE = [{}]
_ANUM = [{}]
_INT_HINT = [None]


def _renumber(t, lvnum=None, cvnum=None):
    """line numbers out of 'after' wrappers, loop / handler markers; loop variables numbered by the program order of their
    loops (lvnum), carried names and allocation / draw identities by first appearance"""
    names = {}
    lvnum = lvnum or {}
    cvnum = cvnum or {}

    def num(kind, key):
        k = (kind, key)
        if k not in names:
            names[k] = f"#{kind}{sum(1 for q in names if q[0] == kind)}"
        return names[k]

    def rule(x):
        h = x[0] if x else None
        if h == 'after':
            # which loop a value comes out of is told by the value itself (its carried body), not by a number that depends on what
            # else the term mentions
            return ('after', '#L', x[2]) if not (isinstance(x[1], str) and x[1].startswith('#')) else None
        if h == 'loopvar':
            if isinstance(x[1], str) and x[1].startswith('#'):
                return None
            k = lvnum.get((x[1], x[2]))
            return ('loopvar', f"#v{k}" if k is not None else num('w', (x[1], x[2])), x[2])
        if h == 'carried':
            if isinstance(x[1], str) and x[1].startswith('#'):
                return None
            k = cvnum.get((x[1], digest(x[2]) if len(x) > 2 else None))
            if k is None:
                # the initial value below has been renumbered already (allocation ids): a name carried by one loop only is found by name,
                # otherwise by name and the shape of its initial value
                ks = [v for (nm, _), v in cvnum.items() if nm == x[1]]
                if len(ks) == 1:
                    k = ks[0]
                elif len(ks) > 1 and len(x) > 2:
                    k = _CV_BY_SHAPE[0].get((id(cvnum), x[1], digest(_mask0(x[2]))))
            return ('carried', f"#c{k}" if k is not None else num('d', (x[1], x[2] if len(x) > 2 else None)),) + tuple(x[2:])
        if h == 'undef':
            return ('undef', '#')
        if h == 'call' and len(x) > 4 and x[4] is not None and not (isinstance(x[4], str) and x[4].startswith('#')):
            # an allocation / draw site is named by what it allocates (and its rank among equal-looking sites of the function), not by
            # the order in which a particular term happens to mention it
            return x[:4] + (_ANUM[0].get(x[4]) or num('a', x[4]),)
        if h in ('inloop', 'handler') and len(x) == 2 and isinstance(x[1], int):
            return (h, '#L')
        return None
    return subst(t, rule)


_N = Normaliser()


_ARITH_CALLS = {'numpy.log', 'math.log', 'numpy.exp', 'math.exp', 'numpy.minimum', 'math.lgamma', 'scipy.special.gammaln'}


def _is_arith(x):
    return bool(x) and ((x[0] == 'bin' and x[1] in ('Add', 'Sub', 'Mult', 'Div')) or (x[0] == 'un' and x[1] in ('USub', 'UAdd'))
                        or (x[0] == 'call' and x[1] in _ARITH_CALLS and len(x[2]) in (1, 2) and not x[3]) or x[0] == 'lin'
                        or (x[0] == 'const' and isinstance(x[1], (int, float)) and not isinstance(x[1], bool)))


def _arith(t):
    """replace maximal arithmetic sub-terms by the key of their linear normal form (`a - b` and `-b + a`, `t*(a + b)` and
    `t*a + t*b`, `log(a/b)` and `log a - log b` compare equal).  The normal form is taken of the arithmetic *skeleton*: whatever
    is not itself arithmetic becomes an atom named by the digest of its own normalised form, so the cost does not depend on the
    size of the operands."""
    memo = {}

    def skel(x):
        if not _is_arith(x):
            return ('name', 'atom:' + digest(go(x)))
        if x[0] == 'bin':
            return ('bin', x[1], skel(x[2]), skel(x[3]))
        if x[0] == 'un':
            return ('un', x[1], skel(x[2]))
        if x[0] == 'call':
            return ('call', x[1], tuple(skel(a) for a in x[2]), (), None)
        return x

    def go(x):
        if not isinstance(x, tuple):
            return x
        k = id(x)
        hit = memo.get(k)
        if hit is not None and hit[0] is x:
            return hit[1]
        if x and x[0] == 'bin' and x[1] in ('Add', 'Sub', 'Mult', 'Div'):
            try:
                r = ('lin', hashlib.sha1(repr(_N.N(skel(x)).key()).encode()).hexdigest()[:24])
            except Exception:
                r = tuple(go(y) for y in x)
        else:
            r = tuple(go(y) for y in x)
        memo[k] = (x, r)
        return r
    return go(t)


_DG = {}


def digest(t):
    """structural digest of a term; shared sub-terms (same object) are hashed once, so the cost is linear in the DAG"""
    if not isinstance(t, tuple):
        return repr(t)
    k = id(t)
    hit = _DG.get(k)
    if hit is not None and hit[0] is t:
        return hit[1]
    h = hashlib.sha1(('(' + ','.join(digest(x) for x in t) + ')').encode()).hexdigest()[:24]
    if len(_DG) > 400000:
        _DG.clear()
    _DG[k] = (t, h)
    return h


_COMM = ('Add', 'Mult', 'BitAnd', 'BitOr')
_FLIP = {'Lt': 'Gt', 'Gt': 'Lt', 'LtE': 'GtE', 'GtE': 'LtE', 'Eq': 'Eq', 'NotEq': 'NotEq'}


def _resort(t):
    """operands of commutative operators and of comparisons ordered by the digest of the *numbered* operands: the order in
    which the source happens to write `x[i] == x[j]` cannot matter even when both sides look alike up to the loop they belong to"""
    def rule(x):
        h = x[0] if x else None
        if h == 'bin' and x[1] in _COMM and not _texty(x[2]) and not _texty(x[3]):
            if digest(x[3]) < digest(x[2]):
                return ('bin', x[1], x[3], x[2])
        elif h == 'cmp' and x[1] in _FLIP:
            if digest(x[3]) < digest(x[2]):
                return ('cmp', _FLIP[x[1]], x[3], x[2])
        elif h == 'bool':
            if digest(x[3]) < digest(x[2]):
                return ('bool', x[1], x[3], x[2])
        return None
    return subst(t, rule)


def _phimerge(t):
    """nested decisions with a common default are one decision on a conjunction:
         if a: pass            if not a and b:        if not a:
         else:                     X                      if b:
             if b: X                                          X
    all give phi(not a and b, X, default)"""
    def rule(x):
        if not (x and x[0] == 'phi'):
            return None
        c1, a, b = x[1], x[2], x[3]
        if b[0] == 'phi':
            c2, p, q = b[1], b[2], b[3]
            if q == a:                      # phi(c1, X, phi(c2, Y, X))
                return mkphi(mkbool('And', mknot(c1), c2), p, a)
            if p == a:                      # phi(c1, X, phi(c2, X, Y))
                return mkphi(mkbool('And', mknot(c1), mknot(c2)), q, a)
        if a[0] == 'phi':
            c2, p, q = a[1], a[2], a[3]
            if q == b:                      # phi(c1, phi(c2, Y, X), X)
                return mkphi(mkbool('And', c1, c2), p, b)
            if p == b:                      # phi(c1, phi(c2, X, Y), X)
                return mkphi(mkbool('And', c1, mknot(c2)), q, b)
        return None
    prev = None
    while prev is not t:
        prev = t
        t = subst(t, rule)
    return t


_POS = {'NotEq': 'Eq', 'IsNot': 'Is', 'NotIn': 'In'}
MAX_ATOMS = 14


def _orient(a):
    """operands of a comparison in the order of their digests *as they are now* (inside _phitable the operands have just been
    rewritten, so the order an earlier _resort gave them is stale)"""
    if a[0] == 'cmp' and a[1] in _FLIP and digest(a[3]) < digest(a[2]):
        return ('cmp', _FLIP[a[1]], a[3], a[2])
    return a


def _atom_of(c):
    """(atom, negated) of a leaf of a boolean formula: != / is not / not in are the negation of their positive form; with integer
    operands `a <= b` is exactly `not a > b`"""
    if c[0] == 'cmp' and c[1] in _POS:
        return _orient(('cmp', _POS[c[1]], c[2], c[3])), True
    if c[0] == 'cmp' and c[1] in _INT_NEG and is_int_term(c[2]) and is_int_term(c[3]):
        return _orient(mkcmp(_INT_NEG[c[1]], c[2], c[3])), True
    return _orient(c), False


def _bool_atoms(c, out):
    """the atoms of a condition seen as a boolean formula (and / or / not / != / is not / not in are structure)"""
    if c[0] == 'bool' and c[1] in ('And', 'Or'):
        _bool_atoms(c[2], out); _bool_atoms(c[3], out)
    elif c[0] == 'un' and c[1] == 'Not':
        _bool_atoms(c[2], out)
    elif c[0] == 'const' and isinstance(c[1], bool):
        pass
    else:
        a, _ = _atom_of(c)
        out.setdefault(digest(a), a)


def _bool_eval(c, val):
    if c[0] == 'bool' and c[1] == 'And':
        return _bool_eval(c[2], val) and _bool_eval(c[3], val)
    if c[0] == 'bool' and c[1] == 'Or':
        return _bool_eval(c[2], val) or _bool_eval(c[3], val)
    if c[0] == 'un' and c[1] == 'Not':
        return not _bool_eval(c[2], val)
    if c[0] == 'const' and isinstance(c[1], bool):
        return c[1]
    a, neg = _atom_of(c)
    return val[digest(a)] != neg


def _phitable(t):
    """a tree of decisions is replaced by its decision table: which leaf is selected under each truth assignment of the atoms of its
    conditions.  if/elif chains, nested ifs, guard clauses with continue, conjunctions and de Morgan forms of one decision
    structure all have the same table.  (Evaluation order and short-circuiting are not represented.)"""
    memo = {}

    def go(x):
        if not isinstance(x, tuple):
            return x
        k = id(x)
        hit = memo.get(k)
        if hit is not None and hit[0] is x:
            return hit[1]
        if x and x[0] == 'phi':
            r = table(x)
        else:
            r = tuple(go(y) for y in x)
        memo[k] = (x, r)
        return r

    def leaves(x, conds, acc):
        if x and x[0] == 'phi':
            leaves(x[2], conds + [(x[1], True)], acc)
            leaves(x[3], conds + [(x[1], False)], acc)
        else:
            acc.append((conds, x))

    def table(x):
        acc = []
        leaves(x, [], acc)
        ats = {}
        raw = []
        for conds, leaf in acc:
            cc = [(go(c), pol) for c, pol in conds]
            for c, _ in cc:
                _bool_atoms(c, ats)
            raw.append((cc, go(leaf)))
        if len(ats) > MAX_ATOMS:
            return ('phi', go(x[1]), go(x[2]), go(x[3]))
        keys = sorted(ats)
        rows = []
        for m in range(1 << len(keys)):
            val = {k_: bool(m >> i & 1) for i, k_ in enumerate(keys)}
            for cc, leaf in raw:
                if all(_bool_eval(c, val) == pol for c, pol in cc):
                    rows.append(digest(leaf))
                    break
            else:
                rows.append('-')
        distinct = []
        for cc, leaf in raw:
            d = digest(leaf)
            if d not in [digest(q) for q in distinct]:
                distinct.append(leaf)
        distinct = [q for q in distinct if digest(q) in rows]      # a leaf no assignment selects is not part of the decision
        distinct.sort(key=digest)
        # atoms the outcome does not depend on are dropped, so that a redundant test (`a and not (b and a)`) leaves no trace
        live = []
        for i, k_ in enumerate(keys):
            if any(rows[m] != rows[m ^ (1 << i)] for m in range(1 << len(keys))):
                live.append(i)
        if len(live) != len(keys):
            rows = [rows[sum(((m2 >> j) & 1) << live[j] for j in range(len(live)))] for m2 in range(1 << len(live))]
            keys = [keys[i] for i in live]
        if len(set(rows)) == 1 and distinct:
            return next(q for q in distinct if digest(q) == rows[0]) if rows[0] != '-' else ('phitable', (), (), tuple(distinct))
        return ('phitable', tuple(ats[k_] for k_ in keys), tuple(rows), tuple(distinct))
    return go(t)


def cond_key(conds):
    """canonical key of a path condition (a conjunction of (condition, polarity)): the atoms it depends on and its truth table"""
    ats = {}
    for c, _ in conds:
        _bool_atoms(c, ats)
    if len(ats) > MAX_ATOMS:
        return tuple(sorted((digest(c), pol) for c, pol in atoms(conds)))
    keys = sorted(ats)
    rows = []
    for m in range(1 << len(keys)):
        val = {k_: bool(m >> i & 1) for i, k_ in enumerate(keys)}
        rows.append(all(_bool_eval(c, val) == pol for c, pol in conds))
    live = [i for i in range(len(keys)) if any(rows[m] != rows[m ^ (1 << i)] for m in range(1 << len(keys)))]
    rows2 = tuple(rows[sum(((m2 >> j) & 1) << live[j] for j in range(len(live)))] for m2 in range(1 << len(live)))
    return (tuple(keys[i] for i in live), rows2)


def _simplify2(t):
    """simplify, plus: a read of a cell of "the container, stored into under a condition" goes into both arms of the condition
    (`if k not in d: d[k] = v` followed by `d[k]` is `v if k not in d else d[k]`) - only for agreement with a reference; the template
    rules see the terms as written"""
    def rule(x):
        if x and x[0] == 'idx' and isinstance(x[1], tuple) and x[1] and x[1][0] == 'phi' \
                and any(isinstance(a, tuple) and a and a[0] == 'upd' for a in (x[1][2], x[1][3])):
            return ('phi', x[1][1], ('idx', x[1][2], x[2]), ('idx', x[1][3], x[2]))
        return None
    t = simplify(t)
    prev = None
    n = 0
    while prev != t and n < 4:
        prev = t
        t2 = subst(t, rule)
        t = simplify(t2) if t2 != t else t
        n += 1
    return t


def norm(t, lvnum=None, cvnum=None):
    if not isinstance(t, tuple):
        return t
    return _resort(_phitable(_resort(_renumber(_simplify2(t), lvnum, cvnum))))


def _cond_key(conds, lvnum=None, cvnum=None):
    out = []
    for c, pol in conds:
        if isinstance(c, tuple) and c and c[0] in ('inloop',):
            continue
        out.append((c, pol))
    return cond_key([(norm(c, lvnum, cvnum), pol) for c, pol in out])


class Summary:
    def __init__(self, prog, eff, f: Func):
        from . import terms as _terms
        if _INT_HINT[0] is not None:
            _terms.INT_PARAMS, _terms.INT_ARRAY_PARAMS = _INT_HINT[0]         # what is known about the function, for it and its reference alike
        else:
            _terms.INT_PARAMS = _terms.int_params(f.node)
            _terms.INT_ARRAY_PARAMS = _terms.int_array_params(f.node)
        try:
            self._build(prog, eff, f)
        finally:
            _terms.INT_PARAMS = set()
            _terms.INT_ARRAY_PARAMS = set()
            _terms.INT_TERMS = set()

    def _build(self, prog, eff, f: Func):
        from . import terms as _terms
        self.f = f
        r = Recon(prog, eff, f).run()
        # a term that the function uses as a scalar index of an array is an integer wherever it occurs
        ints = set()
        def _add_int(c_, depth_=0):
            if isinstance(c_, tuple) and c_ and c_[0] in ('idx', 'phi', 'carried', 'after') and depth_ < 6:
                try:
                    ints.add(_terms.int_shape(c_))
                except TypeError:
                    return
                if depth_ == 0:
                    try:
                        _add_int(_simplify2(c_), 1)         # the spelling it has once tuple packing and the like are simplified away
                    except Exception:
                        pass
                if c_[0] == 'phi':          # a selected value that is an integer is one in either arm
                    _add_int(c_[2], depth_ + 1)
                    _add_int(c_[3], depth_ + 1)
        def _collect(d_):
            for x_ in walk(d_):
                if x_[0] == 'idx' and len(x_) >= 3 and isinstance(x_[2], tuple):
                    comps = x_[2][1] if x_[2][0] == 'tuple' else (x_[2],)
                    for c_ in comps:
                        _add_int(c_)
        for ev_ in r.events:
            for d_ in ev_.data:
                if isinstance(d_, tuple):
                    _collect(d_)
        from . import terms as _t2
        _t2.INT_TERMS = ints
        # counters: a loop-carried value that starts as an integer and is only ever updated to an integer (given that all such values
        # are integers) is one - `change = 0; change += 1; change -= dosage[j]`
        cands = {}
        for ev_ in r.events:
            if ev_.kind == 'carry':
                entry_, body_ = ev_.data
                if len(entry_) > 2 and isinstance(entry_[2], tuple):
                    cands.setdefault(entry_, []).append(body_)
        cands = {e_: b_ for e_, b_ in cands.items() if _t2.is_int_term(e_[2])}
        while cands:
            shapes_ = {_t2.int_shape(e_) for e_ in cands} - ints
            ints |= shapes_
            bad_ = [e_ for e_, bodies_ in cands.items() if not all(_t2.is_int_term(b_) for b_ in bodies_)]
            ints -= shapes_
            if not bad_:
                ints |= shapes_
                break
            for e_ in bad_:
                del cands[e_]
        sites = {}
        for t_, _c, _n in r.calls:
            if len(t_) > 4 and t_[4] is not None and not isinstance(t_[4], str):
                sites.setdefault(t_[4], t_)
        groups_ = {}
        for uid_, t_ in sites.items():
            try:
                key_ = digest(_arith(_resort(_phitable(_mask0(_simplify2(t_))))))       # what is allocated, in canonical form
            except Exception:
                key_ = digest(_mask0(t_))
            groups_.setdefault(key_, []).append(uid_)
        anum = {}
        for dg_, uids_ in groups_.items():
            for uid_ in uids_:
                # equal-looking sites share the name: telling them apart by program order would make two independent allocation
                # statements non-interchangeable; what is done to each array afterwards (its carried updates) tells them apart
                anum[uid_] = f"#a{dg_[:10]}"
        _ANUM[0] = anum
        self.loops = 0
        self.entries = []       # (kind, condkey, data-as-term)
        rawconds = {}
        # loops are numbered by the condition they run under and then by program order: swapping the arms of an `if` that each hold a loop
        # must not renumber them, while loops that follow one another under the same condition keep their order
        loops_ = [ev for ev in r.events if ev.kind == 'loop_enter']

        def _loop_key(ev):
            cs = [(c, pol) for c, pol in ev.conds if not (isinstance(c, tuple) and c and c[0] == 'inloop')]
            try:
                return repr(cond_key([(_resort(_phitable(_mask(_simplify2(c), {}))), pol) for c, pol in cs]))
            except Exception:
                return ''
        loop_order = sorted(range(len(loops_)), key=lambda i_: (_loop_key(loops_[i_]), i_))
        # a loop variable is identified by what it runs over, how deeply its loop is nested and its position in the loop target - not by
        # its spelling: `for sample in samples` twice in a row binds "the same" variable whether or not the second is called sample2
        lvnum, canon_ = {}, {}
        for i_ in loop_order:
            depth_ = sum(1 for c, _ in loops_[i_].conds if isinstance(c, tuple) and c and c[0] == 'inloop')
            for pos_, (tn, itx) in enumerate(loops_[i_].data[2]):          # in the order of the loop target, with the iteration term each one carries
                try:
                    ck_ = (digest(_resort(_phitable(_mask0(_simplify2(itx))))), depth_, pos_)
                except Exception:
                    ck_ = (tn, digest(itx), depth_, pos_)
                if ck_ not in canon_:
                    canon_[ck_] = len(canon_)
                lvnum.setdefault((tn, itx), canon_[ck_])
        self.lvnum = lvnum
        self._raw_returns = []
        # loop-carried values are ranked by what they are (loop, initial value, update), not by the order in which a traversal
        # happens to meet them: `x - llk` and `-llk + x` must give the same numbering
        self._inits_by_ident = {}
        loop_ord, ranked = {}, []
        for i_ in loop_order:
            loop_ord.setdefault(id(loops_[i_].node), len(loop_ord))
        for ev in r.events:
            if ev.kind == 'carry':
                entry, body = ev.data
                init = entry[2] if len(entry) > 2 else None
                key = (loop_ord.get(id(ev.node), -1), digest(_arith(_resort(_phitable(_mask(_simplify2(init), lvnum))))) if init is not None else '',
                       digest(_arith(_resort(_phitable(_mask(_simplify2(body), lvnum))))))
                ranked.append((key, len(ranked), (entry[1], digest(init) if init is not None else None)))
                self.__dict__.setdefault('_inits_by_ident', {})[(entry[1], digest(init) if init is not None else None)] = init
        # liveness of loop-carried values: one that nothing but its own update ever reads (a temporary that happens to be assigned
        # under a condition) is not part of what the function computes
        def carried_in(t):
            return {(x[1], digest(x[2]) if len(x) > 2 else None) for x in walk(t) if x[0] == 'carried'}
        bodies, roots = {}, set()
        for ev in r.events:
            if ev.kind == 'carry':
                ident = (ev.data[0][1], digest(ev.data[0][2]) if len(ev.data[0]) > 2 else None)
                bodies.setdefault(ident, set()).update(carried_in(ev.data[1]) - {ident})
            elif ev.kind not in _SKIP:
                for d in ev.data:
                    if isinstance(d, tuple):
                        roots |= carried_in(d)
                for c, _ in ev.conds:
                    if isinstance(c, tuple):
                        roots |= carried_in(c)
        for p_ in f.params:
            v = r.env.get(p_)
            if isinstance(v, tuple):
                roots |= carried_in(v)
        for t, conds, _ in r.calls:
            roots |= carried_in(t)
        live_carried, todo = set(), list(roots)
        while todo:
            x = todo.pop()
            if x in live_carried:
                continue
            live_carried.add(x)
            todo.extend(bodies.get(x, ()))
        cvnum = {}
        per_loop = {}
        # live values are numbered first: a dead temporary that one spelling carries and the other does not must not shift the numbers
        for key, _, ident in sorted(ranked, key=lambda r_: (r_[0][0], r_[2] not in live_carried, r_[0], r_[1])):
            if ident not in cvnum:
                k_ = per_loop.get(key[0], 0)
                per_loop[key[0]] = k_ + 1
                cvnum[ident] = f"{key[0]}.{k_}"        # numbered within their own loop: what other loops carry does not matter
        self.cvnum = cvnum
        shapes = {}
        for (nm, _dg), v in cvnum.items():
            pass
        for key, _, ident in sorted(ranked):
            init_ = self._inits_by_ident.get(ident)
            if init_ is not None:
                k2 = (id(cvnum), ident[0], digest(_mask0(init_)))
                if k2 in shapes and shapes[k2] != cvnum[ident]:
                    shapes[k2] = None           # ambiguous: two carried values of one name with initial values of the same shape
                else:
                    shapes[k2] = cvnum[ident]
        _CV_BY_SHAPE[0] = {k_: v for k_, v in shapes.items() if v is not None}
        for ev in r.events:
            k = ev.kind
            if k in _SKIP:
                continue
            if k == 'unhandled':
                raise AnalysisError(f"{f.qname}: statement kind {ev.data[0]} is not modelled")
            d = ev.data
            if k == 'expr' and d[0][0] == 'const':
                continue            # docstrings
            if k == 'store':
                data = ('tuple', (d[3], d[1], d[2]))          # array version before the store, cell, value
            elif k == 'deepstore':
                data = ('tuple', (d[0], d[1], d[2]))
            elif k == 'attrstore':
                data = ('tuple', (d[0], ('const', d[1]), d[2]))
            elif k == 'loop_enter':
                self.loops += 1
                data = d[0] if d[0] is not None else ('const', 'while')
            elif k == 'carry':
                # a name that every iteration defines before using it is not loop-carried: what it held before the loop is dead
                ident = (d[0][1], digest(d[0][2]) if len(d[0]) > 2 else None)
                if ident not in live_carried:
                    continue            # never read except by its own update; a use after the loop carries the value itself
                data = ('tuple', (d[0], d[1]))
            elif k in ('return', 'raise', 'expr', 'while_test', 'yield', 'assert'):
                data = d[0] if d[0] is not None else ('const', None)
            elif k == 'handler':
                data = ('const', d[0])
            else:
                data = ('const', None)
            self.entries.append((k, _cond_key(ev.conds, lvnum, cvnum), norm(data, lvnum, cvnum), ev.lineno, id(ev)))
            rawconds[id(ev)] = [(norm(c, lvnum, cvnum), pol) for c, pol in ev.conds if not (isinstance(c, tuple) and c and c[0] == 'inloop')]
            if k == 'return':
                self._raw_returns.append(ev)
        # the returns outside loops are one result: `if c: return a` followed by `return b` is `return a if c else b`
        top = [(i, e) for i, e in enumerate(self._raw_returns) if not any(isinstance(c, tuple) and c and c[0] == 'inloop' for c, _ in e.conds)]
        if len(top) >= 1 and (len(top) > 1 or any(not (isinstance(c, tuple) and c and c[0] == 'inloop') for c, _ in top[0][1].conds)):
            # (a single return that sits behind a guard - after `if bad: raise` - is folded the same way, so that one conditional-expression
            # return and an if/else pair of returns coincide)
            val = ('const', 'no-return')        # every return is guarded by its own path condition, whichever is written last
            for _, e in reversed(top):
                v = e.data[0] if e.data[0] is not None else ('const', None)
                cond = None
                for c, pol in e.conds:
                    cc = c if pol else mknot(c)
                    cond = cc if cond is None else mkbool('And', cond, cc)
                val = mkphi(cond, v, val) if cond is not None else v
            keep = {id(e) for _, e in top}
            self.entries = [x for x in self.entries if x[4] not in keep]
            self.entries.append(('return', cond_key([]), norm(val, lvnum, cvnum), top[-1][1].lineno, None))
        # the same effect written in two arms (`if a: X else: if b: X`) is one effect under the disjunction of its conditions (`if a or b: X`),
        # provided the two conditions exclude each other (otherwise it happens twice)
        def conj(cs):
            t = None
            for c, pol in cs:
                cc = c if pol else mknot(c)
                t = cc if t is None else mkbool('And', t, cc)
            return t if t is not None else ('const', True)
        groups = {}
        for x in self.entries:
            if x[4] is not None and x[0] in ('store', 'deepstore', 'attrstore', 'carry', 'expr', 'raise', 'break', 'continue', 'yield'):
                groups.setdefault((x[0], digest(x[2])), []).append(x)
        drop, add = set(), []
        for key, xs in groups.items():
            if len(xs) < 2:
                continue
            terms_ = [conj(rawconds[x[4]]) for x in xs]

            def exclusive(a, b):
                k_ = cond_key([(mkbool('And', a, b), True)])
                return len(k_) == 2 and isinstance(k_[1], tuple) and not any(k_[1])
            clusters = []           # greedy: an occurrence joins the first cluster all of whose members it excludes
            for i_ in range(len(xs)):
                for cl in clusters:
                    if all(exclusive(terms_[i_], terms_[j_]) for j_ in cl):
                        cl.append(i_)
                        break
                else:
                    clusters.append([i_])
            for cl in clusters:
                if len(cl) < 2:
                    continue
                t = terms_[cl[0]]
                for j_ in cl[1:]:
                    t = mkbool('Or', t, terms_[j_])
                drop |= {xs[j_][4] for j_ in cl}
                add.append((xs[cl[0]][0], cond_key([(t, True)]), xs[cl[0]][2], xs[cl[0]][3], None))
        if drop:
            self.entries = [x for x in self.entries if x[4] not in drop] + add
        self.entries = [x[:4] for x in self.entries]
        self.calls = []         # (callee qname, condkey, call term, lineno): every call evaluated, wherever it is written
        for t, conds, node in r.calls:
            self.calls.append((t[1], _cond_key(conds, lvnum, cvnum), norm(t, lvnum, cvnum), getattr(node, 'lineno', 0)))
        self.finals = {}
        # what a mutated parameter holds when the function returns: merged over the return statements (all outside loops) and the end
        # of the body, like the returned value itself
        merged_env = dict(r.env)
        rets = getattr(r, 'return_envs', [])
        if rets and not any(isinstance(c, tuple) and c and c[0] == 'inloop' for conds_, _ in rets for c, _p in conds_):
            for p in f.params:
                val = r.env.get(p) if r.falls_through else None
                for conds_, snap in reversed(rets):
                    v = snap.get(p)
                    cond = None
                    for c, pol in conds_:
                        cc = c if pol else mknot(c)
                        cond = cc if cond is None else mkbool('And', cond, cc)
                    if val is None or cond is None:
                        val = v
                    elif v != val:
                        val = mkphi(cond, v, val)
                merged_env[p] = val
        for p in f.params:
            v = merged_env.get(p)
            if v is not None and v != ('param', p):
                # only mutation matters: a rebound parameter that is never returned is invisible to the caller
                if _rooted_in_param(v, p):
                    self.finals[p] = norm(v, lvnum, cvnum)

    def keys(self, arith=False):
        f = (lambda t: digest(_arith(t))) if arith else digest
        out = [(k, c, f(d)) for k, c, d, _ in self.entries]
        out += [('final:' + p, (), f(v)) for p, v in sorted(self.finals.items())]
        return sorted(out)


def _rooted_in_param(v, p):
    """(is a later version of the array passed as parameter p, was written to on the way)"""
    def chain(v):
        wrote = False
        while isinstance(v, tuple) and v:
            h = v[0]
            if h in ('upd', 'havoc'):
                wrote = wrote or h == 'upd'
                v = v[1]
            elif h == 'after':
                v = v[2]
            elif h == 'carried':
                v = v[2] if len(v) > 2 else None
            elif h == 'out':
                return True, True           # mutated by a callee (effect summary)
            elif h == 'phi':
                a, b = chain(v[2]), chain(v[3])
                return (a[0] and b[0]), (a[1] or b[1]) or wrote
            else:
                break
        return v == ('param', p), wrote
    rooted, wrote = chain(v)
    return rooted and wrote


_ALL_REFERENCED = None


def _all_referenced():
    """qualified names of every function that has a reference (what the confirmed tree consists of)"""
    global _ALL_REFERENCED
    if _ALL_REFERENCED is None:
        out = set()
        for p in SPEC_DIR.glob("*.py"):
            mod = p.name[:-3]
            for n in ast.walk(ast.parse(p.read_text())):
                pass
            tree = ast.parse(p.read_text())
            for n in tree.body:
                if isinstance(n, ast.FunctionDef):
                    out.add(f"{mod}.{n.name}")
                elif isinstance(n, ast.ClassDef):
                    out |= {f"{mod}.{n.name}.{m.name}" for m in n.body if isinstance(m, ast.FunctionDef)}
        inv = SPEC_DIR / "_inventory.txt"      # every function of the confirmed tree, with or without a reference
        if inv.exists():
            out |= {l.strip() for l in inv.read_text().split('\n') if l.strip()}
        _ALL_REFERENCED = out
    return _ALL_REFERENCED


def _straight_line(fn):
    body = [st for st in fn.body if not (isinstance(st, ast.Expr) and isinstance(st.value, ast.Constant))]
    if not body or not isinstance(body[-1], ast.Return) or body[-1].value is None:
        return None
    # branches, loops and raises may be part of the body as long as the one `return` is its last statement
    for st in body[:-1]:
        if not isinstance(st, (ast.Assign, ast.AugAssign, ast.AnnAssign, ast.Expr, ast.If, ast.For, ast.While, ast.Raise, ast.Assert, ast.Pass, ast.With)):
            return None
    if any(isinstance(n, (ast.Return, ast.Yield, ast.YieldFrom, ast.Lambda, ast.FunctionDef, ast.Global, ast.Nonlocal, ast.Try))
           for st in body[:-1] for n in ast.walk(st)):
        return None
    return body


def inline_new_helpers(prog, f: Func):
    """A copy of f's definition in which calls of *new* straight-line helper functions (functions of the package that the confirmed
    tree does not have) are replaced by their bodies.  Extracting a few statements into a helper is the most common refactoring; the
    comparison with the reference is repeated on this copy before a difference is reported.  Only calls that form the whole right-hand
    side of an assignment, a whole expression statement or a whole return value are inlined."""
    import copy
    known = _all_referenced()
    counter = [0]
    changed = [False]

    def expand(st):
        call = None
        if isinstance(st, (ast.Assign, ast.Return, ast.Expr)) and isinstance(getattr(st, 'value', None), ast.Call):
            call = st.value
        if call is None:
            return [st]
        q = prog.resolve_call(f, call)
        callee = prog.funcs.get(q)
        if callee is None or q in known or callee is f or any(isinstance(a, ast.Starred) for a in call.args) or any(k.arg is None for k in call.keywords):
            return [st]
        body = _straight_line(callee.node)
        if body is None:
            return [st]
        if any('jit' not in ast.unparse(d) for d in callee.node.decorator_list):
            return [st]         # a decorator other than numba's changes what a call does (memoisation, ...): keep the call
        counter[0] += 1
        suf = f"__inl{counter[0]}"
        a = callee.node.args
        params = [x.arg for x in a.posonlyargs + a.args + a.kwonlyargs]
        pos = a.posonlyargs + a.args
        defaults = dict(zip([x.arg for x in pos][len(pos) - len(a.defaults):], a.defaults))
        defaults.update({x.arg: d for x, d in zip(a.kwonlyargs, a.kw_defaults) if d is not None})
        bound = dict(zip(params, call.args))
        bound.update({k.arg: k.value for k in call.keywords})
        if any(p_ not in bound and p_ not in defaults for p_ in params):
            return [st]
        locals_ = set(params)
        for b in body:
            for n in ast.walk(b):
                if isinstance(n, ast.Name) and isinstance(n.ctx, ast.Store):
                    locals_.add(n.id)

        # a parameter bound to a plain name *is* that variable (same array): substitute the name; other arguments get a temporary
        direct = {p_: bound[p_].id for p_ in params if isinstance(bound.get(p_), ast.Name)
                  and not any(isinstance(n, ast.Name) and isinstance(n.ctx, ast.Store) and n.id == p_ for b in body for n in ast.walk(b))}

        class Ren(ast.NodeTransformer):
            def visit_Name(self, n):
                if n.id in direct:
                    return ast.copy_location(ast.Name(id=direct[n.id], ctx=n.ctx), n)
                if n.id in locals_:
                    return ast.copy_location(ast.Name(id=n.id + suf, ctx=n.ctx), n)
                return n
        out = []
        for p_ in params:
            if p_ in direct:
                continue
            out.append(ast.Assign(targets=[ast.Name(id=p_ + suf, ctx=ast.Store())], value=copy.deepcopy(bound.get(p_, defaults.get(p_))), lineno=st.lineno))
        for b in body[:-1]:
            out.append(Ren().visit(copy.deepcopy(b)))
        ret = Ren().visit(copy.deepcopy(body[-1].value))
        tgt = st.targets[0] if isinstance(st, ast.Assign) and len(st.targets) == 1 else None
        if isinstance(tgt, ast.Tuple) and isinstance(ret, ast.Tuple) and len(tgt.elts) == len(ret.elts) \
                and all(isinstance(e, ast.Name) for e in tgt.elts):
            # a, b = helper(..) with `return x, y`: one assignment per component (through temporaries: simultaneous assignment)
            tmps = []
            for k, e in enumerate(ret.elts):
                tmps.append(f"ret{k}{suf}")
                out.append(ast.Assign(targets=[ast.Name(id=tmps[-1], ctx=ast.Store())], value=e, lineno=st.lineno))
            for e, tmp in zip(tgt.elts, tmps):
                out.append(ast.Assign(targets=[ast.Name(id=e.id, ctx=ast.Store())], value=ast.Name(id=tmp, ctx=ast.Load()), lineno=st.lineno))
        else:
            new = copy.copy(st)
            new.value = ret
            out.append(new)
        for o in out:
            ast.copy_location(o, st)
            ast.fix_missing_locations(o)
        changed[0] = True
        return out

    def walk_block(stmts):
        res = []
        for st in stmts:
            for fld in ('body', 'orelse', 'finalbody'):
                if isinstance(getattr(st, fld, None), list) and not isinstance(st, (ast.FunctionDef, ast.ClassDef)):
                    setattr(st, fld, walk_block(getattr(st, fld)))
            if isinstance(st, ast.Try):
                for h in st.handlers:
                    h.body = walk_block(h.body)
            res.extend(expand(st))
        return res
    node = copy.deepcopy(f.node)
    node.body = walk_block(node.body)
    return Func(f.qname, f.module, node, f.cls, f.jit) if changed[0] else None


def compare(ctx, target_q, spec_node, rule, what):
    """one obligation: helper `target_q` agrees with its reference"""
    tf = ctx.func(target_q)
    sf = Func(target_q + '#reference', tf.module, spec_node, tf.cls, tf.jit)
    a_params = [x.arg for x in spec_node.args.posonlyargs + spec_node.args.args + spec_node.args.kwonlyargs]
    construct = tf.construct('reference-agreement')
    if a_params != tf.params:
        ctx.violation(rule, construct, f"signature of {tf.name} changed: {tf.params} (reference: {a_params})", tf.where())
        return False
    d_got, d_want = _defaults(tf.node), _defaults(spec_node)
    if d_got != d_want:
        diff = sorted(k for k in set(d_got) | set(d_want) if d_got.get(k) != d_want.get(k))
        ctx.violation(rule, construct, f"default value of parameter(s) {diff} of {tf.name} changed: "
                      + ", ".join(f"{k}={d_got.get(k, '<required>')} (reference: {d_want.get(k, '<required>')})" for k in diff), tf.where())
        return False
    from . import terms as _terms
    _INT_HINT[0] = (_terms.int_params(tf.node) | _terms.int_params(spec_node), _terms.int_array_params(tf.node) | _terms.int_array_params(spec_node))
    try:
        got, want = Summary(ctx.prog, ctx.eff, tf), Summary(ctx.prog, ctx.eff, sf)
    finally:
        _INT_HINT[0] = None
    if got.keys() == want.keys() or got.keys(arith=True) == want.keys(arith=True):
        ctx.ok(rule, construct, what)
        return True
    inl = inline_new_helpers(ctx.prog, tf)
    if inl is not None:
        _INT_HINT[0] = (_terms.int_params(tf.node) | _terms.int_params(spec_node), _terms.int_array_params(tf.node) | _terms.int_array_params(spec_node))
        try:
            got2 = Summary(ctx.prog, ctx.eff, inl)
        finally:
            _INT_HINT[0] = None
        if got2.keys() == want.keys() or got2.keys(arith=True) == want.keys(arith=True):
            ctx.ok(rule, construct, what + " (after inlining helper functions that the confirmed tree does not have)")
            return True
    gk, wk = got.keys(arith=True), want.keys(arith=True)
    extra = [e for e in got.entries if (e[0], e[1], digest(_arith(e[2]))) not in wk]
    missing = [e for e in want.entries if (e[0], e[1], digest(_arith(e[2]))) not in gk]
    fin = [p for p in set(got.finals) | set(want.finals) if got.finals.get(p) != want.finals.get(p)]
    lines = []
    for e in extra[:3]:
        lines.append(f"   in the code, not in the reference: {e[0]} at line {e[3]}: {show(e[2])[:300]}" + (f"  under {_show_conds(e[1])}" if e[1] else ""))
    for e in missing[:3]:
        lines.append(f"   in the reference, not in the code: {e[0]}: {show(e[2])[:300]}" + (f"  under {_show_conds(e[1])}" if e[1] else ""))
    for p in fin[:2]:
        lines.append(f"   final content of parameter {p} differs")
    where = tf.where()
    if extra:
        where = f"{tf.module.relpath}:{extra[0][3]}"
    ctx.violation(rule, construct, f"{tf.name} no longer agrees with its reference ({what}):\n" + "\n".join(lines), where)
    return False


def _defaults(fn):
    a = fn.args
    pos = a.posonlyargs + a.args
    d = {x.arg: ast.unparse(v) for x, v in zip(pos[len(pos) - len(a.defaults):], a.defaults)}
    d.update({x.arg: ast.unparse(v) for x, v in zip(a.kwonlyargs, a.kw_defaults) if v is not None})
    return d


def _show_conds(ck):
    try:
        keys, rows = ck
        if rows and isinstance(rows[0], bool):
            return f"a condition on {len(keys)} atom(s) [{','.join(k[:6] for k in keys)}] true in {sum(rows)} of {len(rows)} cases"
    except Exception:
        pass
    return str(ck)[:200]


def compare_module(ctx, modname, names, rule, whats=None):
    specs = load_specs(modname)
    n = 0
    for name in names:
        if name not in specs:
            raise AnalysisError(f"no reference for {modname}.{name} in sa/specs/{modname}.py")
        compare(ctx, f"{modname}.{name}", specs[name], rule, (whats or {}).get(name, _doc(specs[name])))
        n += 1
    return n


def _doc(node):
    d = ast.get_docstring(node) or ""
    return d.strip().split("\n")[0][:200]


def _field_of(store):
    """output field a deep store goes to: data.sampledata[FORMAT.X][sample] -> 'X'; data.infodata[INFO.X] -> 'X';
    data.columndata["REF"] -> 'REF'.  `store` is the ('tuple', (base, index, value)) of the event"""
    base, idx = store[1][0], store[1][1]
    for part in (base, idx):
        for x in walk(part):
            if x[0] == 'name' and ('.formatfields.' in x[1] or '.infofields.' in x[1]):
                return x[1].split('.')[-1]
    if base[0] == 'attr' and base[2] in ('columndata', 'infodata') and idx[0] == 'const' and isinstance(idx[1], str):
        return idx[1]
    return None


def compare_slice(ctx, target_q, spec_node, rule, what, callee_prefixes=(), fields=None, only_args=None):
    """agreement with the reference restricted to what one property owns in a shared orchestrating function: the calls of the
    given callees (with the full use-def terms of their arguments, i.e. their backward slices) and the stores to the given output
    fields (with the terms of the stored values)"""
    tf = ctx.func(target_q)
    sf = Func(target_q + '#reference', tf.module, spec_node, tf.cls, tf.jit)
    from . import terms as _terms
    _INT_HINT[0] = (_terms.int_params(tf.node) | _terms.int_params(spec_node), _terms.int_array_params(tf.node) | _terms.int_array_params(spec_node))
    try:
        got, want = Summary(ctx.prog, ctx.eff, tf), Summary(ctx.prog, ctx.eff, sf)
    finally:
        _INT_HINT[0] = None

    def pick(sm):
        out = []
        for q, ck, t, ln in sm.calls:
            if any(q.startswith(pre) for pre in callee_prefixes):
                if only_args is not None:
                    # only the named arguments of the call belong to this property
                    t = ('tuple', tuple(v for k, v in t[3] if k in only_args))
                out.append(('call ' + q.split('.')[-1], ck, digest(_arith(t)), t, ln))
        if fields is not None:
            for k, ck, d, ln in sm.entries:
                if k == 'deepstore':
                    fld = _field_of(d)
                    if fld is not None and (fields == '*' or fld in fields):
                        out.append(('store ' + fld, ck, digest(_arith(d)), d, ln))
        return out
    g, w = pick(got), pick(want)
    construct = tf.construct('slice:' + what)
    if not w:
        raise AnalysisError(f"{target_q}: the reference has nothing to compare for {what}")
    gk = sorted(e[:3] for e in g)
    wk = sorted(e[:3] for e in w)
    if gk == wk:
        ctx.ok(rule, construct, f"{len(w)} calls/stores agree with the reference")
        return True
    extra = [e for e in g if e[:3] not in wk]
    missing = [e for e in w if e[:3] not in gk]
    lines = [f"   in the code, not in the reference: {e[0]} at line {e[4]}: {show(e[3])[:260]}" for e in extra[:3]]
    lines += [f"   in the reference, not in the code: {e[0]}: {show(e[3])[:260]}" for e in missing[:3]]
    where = f"{tf.module.relpath}:{extra[0][4]}" if extra else tf.where()
    ctx.violation(rule, construct, f"{tf.name}: {what} no longer agrees with the reference:\n" + "\n".join(lines), where)
    return False
