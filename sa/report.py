"""Rule framework: context, results, known findings, evidence, exit codes."""
from __future__ import annotations
import json
import os
import pathlib
import sys
import time
import traceback
from .model import Program, AnalysisError
from .effects import Effects
from .terms import Recon

HERE = pathlib.Path(__file__).resolve().parent.parent


class Ctx:
    def __init__(self, root="/repo", tier="quick"):
        self.root = root
        self.tier = tier
        self.prog = Program(root)
        # calls of straight-line helper functions that the confirmed tree does not have are analysed as if written in place
        # (extracting a few statements into a helper must not change what any rule sees)
        from .refspec import inline_new_helpers
        self.inlined = []
        for q, f in list(self.prog.funcs.items()):
            try:
                g = inline_new_helpers(self.prog, f)
            except Exception:
                g = None
            if g is not None:
                f.node = g.node
                self.inlined.append(q)
        self.eff = Effects(self.prog)
        # loops that only fill fresh containers are analysed as the comprehensions that build them (sa/normalise.py)
        from .normalise import normalise_function, default_purity
        self.normalised = []
        for q, f in self.prog.funcs.items():
            if normalise_function(f.node, default_purity(self.prog, f, self.eff)):
                self.normalised.append(q)
        if self.normalised:
            self.eff = Effects(self.prog)
        from . import refspec as _refspec
        _refspec._SPEC_PURITY[0] = (self.prog, self.eff)
        from . import pat, terms
        pat.prepare([f.node for f in self.prog.funcs.values()])
        terms.SIGNATURES.clear()
        terms.SIGNATURES.update({q: f.params for q, f in self.prog.funcs.items()})
        self._recon = {}
        self.results = []       # dicts: rule, construct, status(ok|violation), detail, where
        self.samples = []
        self.functions = set()
        self.call_sites = 0

    def recon(self, fq) -> Recon:
        if fq not in self._recon:
            f = self.prog.func(fq)
            self._recon[fq] = Recon(self.prog, self.eff, f).run()
            self.functions.add(fq)
        return self._recon[fq]

    def func(self, fq):
        self.functions.add(fq)
        return self.prog.func(fq)

    def ordinal(self, scope, label):
        """stable '#k' suffix: k-th use of `label` within `scope` (function) in analysis order — no line numbers in construct keys"""
        d = self.__dict__.setdefault('_ordinals', {})
        k = d.get((scope, label), 0) + 1
        d[(scope, label)] = k
        return f"{label}#{k}"

    # ---- results
    def ok(self, rule, construct, detail=""):
        self.results.append(dict(rule=rule, construct=construct, status="ok", detail=detail, where=""))

    def violation(self, rule, construct, detail, where=""):
        self.results.append(dict(rule=rule, construct=construct, status="violation", detail=detail, where=where))

    def check(self, cond, rule, construct, detail_ok="", detail_bad="", where=""):
        if cond:
            self.ok(rule, construct, detail_ok)
        else:
            self.violation(rule, construct, detail_bad or detail_ok, where)
        return bool(cond)

    def need(self, cond, msg):
        """fail closed: the analysis cannot find what it must analyse"""
        if not cond:
            raise AnalysisError(msg)

    def minimum(self, rule, n_found, n_min):
        if n_found < n_min:
            raise AnalysisError(f"rule {rule}: {n_found} instances found, {n_min} confirmed by hand")


def load_known(path=None):
    """known_findings.txt, one finding per line, never written at run time:
         open: property=<id> rule=<rule> construct=<construct> <what fails>      -> reported as KNOWN-FINDING, exit 0
         fixed: property=<id> <commit> <what failed>                               -> documentation only, suppresses nothing"""
    path = pathlib.Path(path or HERE / "known_findings.txt")
    out = []
    if not path.exists():
        return out
    for line in path.read_text().splitlines():
        line = line.strip()
        if not line.startswith("open:"):
            continue
        f = dict(status="open")
        rest = line[len("open:"):].strip()
        for key in ("property", "rule", "construct"):
            tag = key + "="
            if tag in rest:
                val = rest.split(tag, 1)[1]
                nxt = [val.find(" " + k + "=") for k in ("rule", "construct") if (" " + k + "=") in val]
                f[key] = (val[:min(nxt)] if nxt else val.split(" ", 1)[0] if key != "construct" else val).strip()
        if "construct" in f:
            # the construct runs up to the first double space, after which the free-text description follows
            c, _, what = f["construct"].partition("  ")
            f["construct"], f["what"] = c.strip(), what.strip()
        out.append(f)
    return out


def run_property(pid, rule_module, root="/repo", tier="quick", seed=0, evidence_dir=None, known_path=None, deepen=None):
    """returns exit code"""
    t0 = time.time()
    errors = []
    try:
        ctx = Ctx(root, tier)
    except AnalysisError as e:
        print(f"ANALYSIS-ERROR property={pid} {e}")
        return 2
    except Exception:
        print(f"ANALYSIS-ERROR property={pid} internal error")
        traceback.print_exc(file=sys.stdout)
        return 2
    from . import helpers, mustpass, views
    # the three rule families are independent: an anchor that one of them cannot find does not silence what the others decide
    for family in (lambda: rule_module.run(ctx), lambda: helpers.run(ctx, pid), lambda: mustpass.run(ctx, pid), lambda: views.run(ctx, pid)):
        try:
            family()
        except AnalysisError as e:
            errors.append(str(e))
        except Exception:
            errors.append("internal error\n" + traceback.format_exc())
    for e in errors:
        print(f"ANALYSIS-ERROR property={pid} {e}")
    if errors and not any(r["status"] == "violation" for r in ctx.results):
        # nothing definite to report: the analysis itself is broken (vanished anchor, unsupported construct) - never a silent pass
        return 2
    known = [k for k in load_known(known_path) if k.get("property") == pid and k.get("status") == "open"]
    n_viol = 0
    n_known = 0
    replay_dir = pathlib.Path(evidence_dir or HERE / "evidence") / "replay"
    for r in ctx.results:
        if r["status"] == "ok":
            print(f"OK rule={r['rule']} construct={r['construct']} {r['detail']}")
            continue
        hit = next((k for k in known if k["rule"] == r["rule"] and k["construct"] == r["construct"]), None)
        if hit:
            n_known += 1
            print(f"KNOWN-FINDING: property={pid} rule={r['rule']} construct={r['construct']} {hit.get('what', r['detail'])}")
            r["status"] = "known"
            continue
        n_viol += 1
        replay_dir.mkdir(parents=True, exist_ok=True)
        rp = replay_dir / f"{pid}_{n_viol}.json"
        rp.write_text(json.dumps(dict(property=pid, **r, root=str(root)), indent=1, default=str))
        print(f"VIOLATION property={pid} replay={rp}")
        print(f"  rule={r['rule']} construct={r['construct']} at {r['where']}\n  {r['detail']}")
    n_ok = sum(1 for r in ctx.results if r["status"] == "ok")
    deep, warns = None, []
    if deepen is not None:
        base_keys = sorted(f"rule={r['rule']} construct={r['construct']}" for r in ctx.results if r["status"] == "violation")
        try:
            deep, warns = deepen(pid, root, base_keys)
        except Exception as e:      # the deepening is advisory: it never decides the verdict
            warns = [f"SELFTEST-WARNING property={pid} thorough tier could not run: {type(e).__name__}: {e}"]
        for w in warns:
            print(w)
    ev = dict(
        property_id=pid, tier=tier, seed=int(seed), level="other",
        coverage=dict(
            explanation=(rule_module.__doc__ or "").strip(),
            obligations=len(ctx.results), discharged=n_ok + n_known,
            evaluations=len(ctx.results),
            distinct_nontrivial=len({(r['rule'], r['construct']) for r in ctx.results}),
            rule="one obligation per (rule, construct) instance enumerated from the resolved program; "
                 "non-trivial = the instance has at least one term to reconstruct and compare",
            samples=[dict(rule=r['rule'], construct=r['construct'], status=r['status'], detail=r['detail'][:300]) for r in ctx.results[:40]],
            functions_analysed=sorted(ctx.functions),
            modules=len(ctx.prog.modules), source_digest=ctx.prog.digest(),
            known_findings=n_known,
            rules={k: sum(1 for r in ctx.results if r['rule'] == k) for k in sorted({r['rule'] for r in ctx.results})},
            checker_cmd=f"python3 check.py {pid} --tier {tier}",
            thorough=deep, selftest_warnings=warns,
            trusted_base=["CPython ast", "sa/ engine (resolver, term reconstruction, normaliser)", "spec templates transcribed from properties.jsonl"],
        ),
        assumptions=["numba-compiled code has Python semantics for the analysed constructs except silent integer wrap on narrow stores",
                     "external calls are pure unless listed in sa/effects.py"],
        wall_s=round(time.time() - t0, 3), violations=n_viol,
    )
    ed = pathlib.Path(evidence_dir or HERE / "evidence")
    ed.mkdir(parents=True, exist_ok=True)
    (ed / f"{pid}.json").write_text(json.dumps(ev, indent=1, default=str))
    print(f"SUMMARY property={pid} obligations={len(ctx.results)} ok={n_ok} known={n_known} violations={n_viol} wall_s={ev['wall_s']}")
    return 1 if n_viol else (2 if errors else 0)
