"""C01 (structural clauses): Metropolis-Hastings form of the assemble kernels (tempered exponent on
likelihood x prior only, proposal ratio outside it, proposed-state quantities computed after the
proposal is written), selection tail, exchange acceptance, option generator/counter agreement and
chain-index coherence of the orchestrator. Decided by use-def term reconstruction + linear normal
form; also: the arm keeping the carried likelihood is selected by `option == current allele` and both arms fill the same
per-option arrays; selection tails are the exact terms `exp(A - log n)` with the stay slot `1 - sum`; option generators advance
their write index once per emitted option and return the filled prefix; sweeps hand llk/cache and every model argument
through unchanged; after an exchange llks[t-1] and llks[t] receive the two results and no other cell is written.
Not decided: that the counts themselves are the right proposal ratios, convergence."""
from __future__ import annotations
import ast
from ..terms import positive, mkbin, mkphi, mkcmp, path, walk, show, simplify, subst, alpha
from ..norm import Normaliser, Lin, p_const, p_show
from ..kernels import (selection_tail, current_option_arms, proposes, collapse, clip_inner, atom_call, log_atom_inner, replace, kwargs, describe,
                       guard_atoms, storage_root)
from ..model import AnalysisError

P = 'C01'
LIK_CACHED = 'mchap.assemble.likelihood.log_likelihood_cached'
LIK_STRUCT = 'mchap.assemble.likelihood.log_likelihood_structural_change_cached'
PRIOR = 'mchap.assemble.prior.log_genotype_prior'
DOSAGE = 'mchap.jitutils.get_haplotype_dosage'
COPIES = 'mchap.jitutils.count_haplotype_copies'
T_POLY = {('temp',): 1}


def poly_eq(p, q):
    return dict(p) == dict(q)


def neg(p):
    return {m: -c for m, c in p.items()}


def accept_stores(r, nz):
    """in-loop stores whose value is exactly clip0(linear form)"""
    out = []
    for ev in r.events:
        if ev.kind == 'store' and any(c[0][0] == 'inloop' for c in ev.conds if isinstance(c[0], tuple)):
            inner = clip_inner(nz.N(simplify(ev.data[2])))
            if inner is not None:
                out.append((ev, inner))
    return out


def dosage_source(prior_call):
    """state term S such that dosage = out(get_haplotype_dosage; S)"""
    d = kwargs(prior_call).get('dosage')
    if d is None and prior_call[2]:
        d = prior_call[2][0]
    if d and d[0] == 'out' and d[1] == DOSAGE:
        c = d[3]
        args = list(c[2]) + [v for _, v in c[3]]
        kw = kwargs(c)
        return kw.get('genotype', c[2][1] if len(c[2]) > 1 else None)
    return None


def same_other_kwargs(a, b, skip):
    ka, kb = kwargs(a), kwargs(b)
    return {k: v for k, v in ka.items() if k not in skip} == {k: v for k, v in kb.items() if k not in skip}


def rule_base_step(ctx):
    fq = 'mchap.assemble.mutation.base_step'
    f = ctx.func(fq)
    r = ctx.recon(fq)
    nz = Normaliser(scalars=['temp'])
    S = ('param', 'genotype')
    stores = accept_stores(r, nz)
    ctx.need(len(stores) == 1, f"{fq}: expected one clip0 acceptance store in the option loop, found {len(stores)}")
    ev, inner = stores[0]
    con = f.construct('acceptance')
    where = f.where(ev.node)
    lik = pri = None
    props = []
    others = []
    for a, p in inner.items():
        c, k = atom_call(a)
        if c is not None and c[1] == LIK_CACHED and k == 0:
            lik = (a, c, p)
        elif c is not None and c[1] == PRIOR:
            props_ = None
            others.append((a, c, p)) if False else None
            pri = (pri or []) + [(a, c, p)]
        elif log_atom_inner(a) is not None:
            props.append((a, log_atom_inner(a), p))
        else:
            others.append((a, p))
    ctx.need(lik is not None, f"{fq}: no likelihood atom in acceptance term: {describe(inner)}")
    # proposed state
    kw = kwargs(lik[1])
    Sp = kw.get('genotype', lik[1][2][1] if len(lik[1][2]) > 1 else None)
    ok_state = Sp is not None and Sp[0] == 'upd' and Sp[1] == S and Sp[3][0] == 'loopvar'
    ctx.check(ok_state, 'R01.1/state', con,
              f"proposed state = {show(Sp)}", f"likelihood is not evaluated on entry-state-with-one-cell-set: {show(Sp)}", where)
    # likelihood pair: +T * L(S') and -T * llk(param)
    cur = [(a, p) for a, p in others if a == ('param', 'llk')]
    ctx.check(poly_eq(lik[2], T_POLY) and len(cur) == 1 and poly_eq(cur[0][1], neg(T_POLY)),
              'R01.1/likelihood', con, "coefficients +temp on L(S'), -temp on carried llk",
              f"likelihood difference must carry the exponent temp exactly once: {describe(inner)}", where)
    others = [(a, p) for a, p in others if a != ('param', 'llk')]
    # prior pair
    good = False
    detail = describe(inner)
    if pri and len(pri) == 2:
        srcs = {(show(dosage_source(c)) if dosage_source(c) else None): (c, p) for _, c, p in pri}
        cp = srcs.get(show(Sp)); cc = srcs.get(show(S))
        if cp and cc:
            good = poly_eq(cp[1], T_POLY) and poly_eq(cc[1], neg(T_POLY)) and same_other_kwargs(cp[0], cc[0], {'dosage'})
    ctx.check(good, 'R01.1/prior', con, "prior(S') - prior(S), both via get_haplotype_dosage of their own state, coefficient temp",
              f"prior ratio malformed: {detail}", where)
    # proposal pair
    good = False
    if len(props) == 2:
        m = {}
        for a, innerq, p in props:
            if isinstance(innerq, tuple) and innerq[0] == 'call' and innerq[1] == COPIES:
                m[show(innerq[2][0])] = (innerq, p)
        cp, cc = m.get(show(Sp)), m.get(show(S))
        if cp and cc:
            good = poly_eq(cp[1], p_const(1)) and poly_eq(cc[1], p_const(-1)) and cp[0][2][1] == cc[0][2][1] == ('param', 'h')
    ctx.check(good, 'R01.1/proposal', con, "log copies(S', h) - log copies(S, h) outside the exponent",
              f"proposal ratio malformed: {detail}", where)
    ctx.check(not others, 'R01.1/no-extra-terms', con, "no other term", f"unexpected terms: {others}", where)

    arms = current_option_arms(ctx.prog, r, 'genotype')
    good = arms is not None
    if good:
        D, same, diff, lv = arms
        good = bool(same) and bool(diff) and not any(proposes(ctx.prog, e.data[2], 'genotype', lv) for e in same) \
            and any(proposes(ctx.prog, e.data[2], 'genotype', lv) for e in diff) \
            and {e.data[0] for e in same} == {e.data[0] for e in diff} and any(e.data[2] == ('param', 'llk') for e in same)
    ctx.check(good, 'R01.2/current-option', f.construct('arms'), "the option equal to the current allele keeps the carried likelihood; every other option is evaluated as a proposal",
              "the arm for the current allele and the arm for proposals are not selected by `option == current allele`", f.where())
    # R01.2 tail: divisor, residual, choice, returned likelihood
    src = f.node
    tail_ok, why = base_step_tail(ctx, f, r, nz)
    ctx.check(tail_ok, 'R01.2/tail', f.construct('selection'), why, why, f.where())


def base_step_tail(ctx, f, r, nz):
    """acceptance logs reduced by log(#non-current), residual to current, state:=choice, return llks[choice]"""
    # names
    rets = [ev for ev in r.events if ev.kind == 'return']
    if len(rets) != 1:
        return False, f"{len(rets)} return statements"
    ret = rets[0].data[0]
    if ret[0] != 'tuple' or len(ret[1]) != 2:
        return False, "return is not (llk, cache)"
    llk_ret = ret[1][0]
    # llks[choice]
    if llk_ret[0] != 'idx':
        return False, f"returned likelihood is not an element of the per-option array: {show(llk_ret)[:80]}"
    choice = llk_ret[2]
    if not (choice[0] == 'call' and choice[1].endswith('random_choice')):
        return False, f"returned index is not the drawn choice: {show(choice)[:80]}"
    # state store of choice
    st = [ev for ev in r.events if ev.kind == 'store' and ev.data[0] == 'genotype' and not ev.conds]
    if not st or st[-1].data[2] != choice:
        return False, "state is not set to the drawn choice"
    # stores into llks: current arm = llk param, other arm = likelihood of proposal
    llks_name = None
    per = {}
    for ev in r.events:
        if ev.kind == 'store' and ev.conds and ev.data[1][0] == 'loopvar':
            per.setdefault(ev.data[0], []).append(ev)
    cands = [n for n, evs in per.items() if any(e.data[2] == ('param', 'llk') for e in evs)]
    if len(cands) != 1:
        return False, "no per-option likelihood array holding the carried llk for the current option"
    evs = per[cands[0]]
    other = [e for e in evs if e.data[2] != ('param', 'llk')]
    if len(other) != 1 or atom_call(other[0].data[2])[0] is None or atom_call(other[0].data[2])[0][1] != LIK_CACHED:
        return False, "per-option likelihood array is not filled with the proposal likelihood"
    # the returned array must be that array
    base = llk_ret[1]
    names = {x[1] for x in walk(base) if x[0] == 'carried'}
    if cands[0] not in names:
        return False, f"returned likelihood comes from {names}, not from the per-option array {cands[0]}"
    # divisor: probabilities = exp(log_accept - log(n_options)) with n_options counter of non-current arm
    probs = choice[2][0]
    # residual store
    res = [ev for ev in r.events if ev.kind == 'store' and not ev.conds and ev.data[0] != 'genotype']
    if not res:
        return False, "no residual (stay) probability store"
    resid = res[-1]
    v = resid.data[2]
    lin = nz.N(v)
    okres = lin.coeff(()) == p_const(1) and len(lin.d) == 2
    if not okres:
        return False, f"stay probability is not 1 - sum(others): {show(v)[:100]}"
    # counter: find AugAssign n += 1 in the non-current arm only
    counters = [ev.data[0] for ev in r.events if ev.kind == 'augname' and ev.data[1] == 'Add' and ev.data[2] == ('const', 1)
                and path(ev) == path(other[0]) and any(isinstance(c, tuple) and c and c[0] == 'inloop' for c, _ in ev.conds)]
    tail = selection_tail(probs)
    if tail is None:
        return False, "selection probabilities are not exp(log_accept - log(#options)) with the current allele's slot set to 1 - sum"
    if tail[0] != ('idx', ('param', 'genotype'), ('tuple', (('param', 'h'), ('param', 'j')))):
        return False, f"the stay probability is stored at {show(tail[0])[:60]}, not at the current allele"
    txt = show(probs)
    logs = [tail and ('call', 'numpy.log', (tail[2],), (), None)]
    found = False
    for lg in logs:
        inner = lg[2][0]
        cs = {x[1] for x in walk(inner) if x[0] == 'carried'}
        if cs and cs <= set(counters):
            # counter must be incremented in the arm that evaluates the proposal likelihood (non-current)
            found = True
    if not found:
        return False, "acceptance is not divided by the number of non-current options (counter of the proposal arm)"
    return True, "divisor=#non-current options, stay=1-sum, state:=choice, returns per-option likelihood of choice"


# ------------------------------------------------------------------------------------------ interval step
def rule_interval_step(ctx):
    fq = 'mchap.assemble.structural.interval_step'
    f = ctx.func(fq)
    r = ctx.recon(fq)
    nz = Normaliser(scalars=['temp'])
    S = ('param', 'genotype')
    fam = {0: ('recombination_step_options', 'recombination_step_n_options'),
           1: ('dosage_step_options', 'dosage_step_n_options')}
    raw = [ev for ev in r.events if ev.kind == 'store' and ev.data[1][0] == 'loopvar'
           and any(x[0] == 'call' and x[1] in ('numpy.minimum',) for x in walk(ev.data[2]))]
    ctx.need(len(raw) == 1, f"{fq}: expected one acceptance store, found {len(raw)}")
    ev = raw[0]
    where = f.where(ev.node)
    for st, (gen, cnt) in fam.items():
        con = f.construct(f'acceptance[step_type={st}]')
        mode = {}
        for g in guard_atoms([ev.data[2]]):
            if g == '(step_type == 0)':
                mode[g] = (st == 0)
            elif g == '(step_type == 1)':
                mode[g] = (st == 1)
        v = simplify(collapse(ev.data[2], mode))
        inner = clip_inner(nz.N(v))
        ctx.need(inner is not None, f"{fq}: acceptance under step_type={st} is not clip0(linear): {show(v)[:200]}")
        lik, pri, logs, others = None, [], [], []
        for a, p in inner.items():
            c, k = atom_call(a)
            if c is not None and c[1] == LIK_STRUCT and k == 0:
                lik = (c, p)
            elif c is not None and c[1] == PRIOR:
                pri.append((c, p))
            elif log_atom_inner(a) is not None:
                logs.append((log_atom_inner(a), p))
            else:
                others.append((a, p))
        ctx.need(lik is not None, f"{fq}: no structural likelihood atom: {describe(inner)}")
        kw = kwargs(lik[0])
        hi = kw.get('haplotype_indices')
        # option_labels[i, :, 0]
        okopt = hi is not None and hi[0] == 'idx' and hi[1][0] == 'call' and hi[1][1].endswith(gen)
        OPTS = hi[1] if okopt else None
        labels_ok = okopt and OPTS[2] and OPTS[2][0][0] == 'call' and OPTS[2][0][1].endswith('haplotype_segment_labels') \
            and OPTS[2][0][2][0] == S and OPTS[2][0][2][1] == kw.get('interval')
        ctx.check(bool(labels_ok) and kw.get('genotype') == S, 'R01.1/state', con,
                  f"options = {gen}(labels(genotype, interval)); likelihood of option i on the same genotype/interval",
                  f"options are not generated by {gen} from the labels of (genotype, interval) used for the likelihood: {show(hi)[:160]}", where)
        cur = [(a, p) for a, p in others if a == ('param', 'llk')]
        ctx.check(poly_eq(lik[1], T_POLY) and len(cur) == 1 and poly_eq(cur[0][1], neg(T_POLY)), 'R01.1/likelihood', con,
                  "coefficients +temp on L(option), -temp on carried llk", f"{describe(inner)}", where)
        others = [(a, p) for a, p in others if a != ('param', 'llk')]
        # prior: dosage of option_labels[i] vs dosage of genotype
        good = False
        if len(pri) == 2 and okopt:
            i_term = hi[2][1][0] if hi[2][0] == 'tuple' else None
            want_prop = ('idx', OPTS, i_term)
            srcs = {show(dosage_source(c)): (c, p) for c, p in pri if dosage_source(c) is not None}
            cp, cc = srcs.get(show(want_prop)), srcs.get(show(S))
            if cp and cc:
                good = poly_eq(cp[1], T_POLY) and poly_eq(cc[1], neg(T_POLY)) and same_other_kwargs(cp[0], cc[0], {'dosage'})
        ctx.check(good, 'R01.1/prior', con, "prior(option i) - prior(current), coefficient temp", f"prior ratio malformed: {describe(inner)}", where)
        # proposal: +log(len(OPTS)) - log(cnt(OPTS[i]))
        good = False
        if len(logs) == 2 and okopt:
            fwd = [(q, p) for q, p in logs if isinstance(q, tuple) and q[0] == 'call' and q[1] == 'len' and q[2][0] == OPTS]
            ret = [(q, p) for q, p in logs if isinstance(q, tuple) and q[0] == 'call' and q[1].endswith(cnt)
                   and q[2][0] == ('idx', OPTS, i_term)]
            good = len(fwd) == 1 and len(ret) == 1 and poly_eq(fwd[0][1], p_const(1)) and poly_eq(ret[0][1], p_const(-1))
        ctx.check(good, 'R01.1/proposal', con, f"log n_forward - log {cnt}(option i), outside the exponent",
                  f"proposal ratio malformed (need +log len(options) - log {cnt}(option)): {describe(inner)}", where)
        ctx.check(not others, 'R01.1/no-extra-terms', con, "no other term", f"unexpected terms: {[(show(a)[:60], p_show(p)) for a, p in others]}", where)
    # applied move uses the same column and interval
    applied = [c for c, _, _ in r.calls if c[1] == 'mchap.jitutils.structural_change']
    ctx.need(len(applied) == 1, f"{fq}: expected one structural_change application")
    a = applied[0]
    ok = a[2][0] == S and a[2][2] == ('param', 'interval') and a[2][1][0] == 'idx' and a[2][1][2][0] == 'tuple' \
        and a[2][1][2][1][1:] == (('slice', None, None, None), ('const', 0))
    ctx.check(ok, 'R01.2/apply', f.construct('apply'), "applies option[choice, :, 0] on (genotype, interval)",
              f"applied move differs from evaluated move: {show(a)[:200]}", f.where())


# ------------------------------------------------------------------------------------------ exchange
def rule_exchange(ctx):
    fq = 'mchap.assemble.tempering.chain_swap_acceptance'
    f = ctx.func(fq)
    r = ctx.recon(fq)
    nz = Normaliser(scalars=['temp_i', 'temp_j'])
    rets = [ev for ev in r.events if ev.kind == 'return']
    ctx.need(len(rets) == 1, f"{fq}: one return expected")
    v = rets[0].data[0]
    # acceptance_ratio = phi(exp(X) > 1 ? 1.0 : exp(X)) ; take the exp argument
    exps = [x for x in walk(v) if x[0] == 'call' and x[1] == 'numpy.exp']
    ctx.need(exps, f"{fq}: no exp() in acceptance")
    lin = nz.N(exps[0][2][0])
    want = {
        ('param', 'llk_i'): {('temp_j',): 1, ('temp_i',): -1},
        ('param', 'log_prior_i'): {('temp_j',): 1, ('temp_i',): -1},
        ('param', 'llk_j'): {('temp_i',): 1, ('temp_j',): -1},
        ('param', 'log_prior_j'): {('temp_i',): 1, ('temp_j',): -1},
    }
    got = {a: dict(p) for a, p in lin.d.items()}
    ctx.check(got == want, 'R01.3/exchange-form', f.construct('acceptance'),
              "exp((U_j-U_i)*T_i + (U_i-U_j)*T_j), U = llk + log_prior",
              f"exchange exponent is {lin.show()}", f.where(rets[0].node))
    E, one = exps[0], ('const', 1.0)
    capped = v in (mkphi(mkcmp('Gt', E, one), one, E), mkphi(mkcmp('GtE', E, one), one, E), mkphi(mkcmp('Lt', E, one), E, one), mkphi(mkcmp('LtE', E, one), E, one)) \
        or (v[0] == 'call' and v[1] in ('min', 'numpy.minimum') and set(v[2]) == {E, one})
    ctx.check(capped, 'R01.3/exchange-cap', f.construct('acceptance'), "capped at 1", "acceptance not capped at 1", f.where())

    fq2 = 'mchap.assemble.tempering.chain_swap_step'
    f2 = ctx.func(fq2)
    r2 = ctx.recon(fq2)
    acc = [c for c, _, _ in r2.calls if c[1] == fq]
    ctx.need(len(acc) == 1, f"{fq2}: one call of chain_swap_acceptance expected")
    a = acc[0]
    names = ['llk_i', 'log_prior_i', 'temp_i', 'llk_j', 'log_prior_j', 'temp_j']
    b = dict(zip(names, a[2])); b.update(dict(a[3]))
    good = b.get('llk_i') == ('param', 'llk_i') and b.get('llk_j') == ('param', 'llk_j') \
        and b.get('temp_i') == ('param', 'temp_i') and b.get('temp_j') == ('param', 'temp_j')
    pi, pj = b.get('log_prior_i'), b.get('log_prior_j')
    for nm, pr, g in (('i', pi, 'genotype_i'), ('j', pj, 'genotype_j')):
        src = dosage_source(pr) if pr and pr[0] == 'call' and pr[1] == PRIOR else None
        good = good and src == ('param', g)
    good = good and pi is not None and pj is not None and same_other_kwargs(pi, pj, {'dosage'})
    ctx.check(good, 'R01.3/exchange-args', f2.construct('acceptance-call'),
              "each prior from its own genotype's dosage, passed in its own slot",
              f"exchange acceptance called with mismatched slots: {show(a)[:240]}", f2.where())
    # returns: swapped llks exactly on the arm that swaps the arrays
    rets = [ev for ev in r2.events if ev.kind == 'return']
    sw = [ev for ev in rets if ev.data[0] == ('tuple', (('param', 'llk_j'), ('param', 'llk_i')))]
    ns = [ev for ev in rets if ev.data[0] == ('tuple', (('param', 'llk_i'), ('param', 'llk_j')))]
    stores = [ev for ev in r2.events if ev.kind == 'store' and ev.data[0] in ('genotype_i', 'genotype_j')]
    good = len(sw) == 1 and len(ns) == 1 and len(stores) == 2 and all(ev.conds == sw[0].conds for ev in stores)
    if good:
        vi = [ev.data[2] for ev in stores if ev.data[0] == 'genotype_i'][0]
        vj = [ev.data[2] for ev in stores if ev.data[0] == 'genotype_j'][0]
        good = any(x == ('param', 'genotype_j') for x in walk(vi)) and any(x == ('param', 'genotype_i') for x in walk(vj))
    ctx.check(good, 'R01.3/exchange-swap', f2.construct('swap'), "genotypes and likelihoods exchanged together",
              "likelihoods and genotypes are not exchanged on the same arm", f2.where())


# ------------------------------------------------------------------------------------------ generator/counter siblings
def _conds_key(conds):
    """path conditions of an event without loop markers, alpha-normalised as one term"""
    cs = tuple((c, pol) for c, pol in conds if not (isinstance(c, tuple) and c and c[0] in ('inloop', 'handler')))
    return alpha(('tuple', tuple(('tuple', (c, ('const', pol))) for c, pol in cs)))


def _conds_logic_key(conds):
    """the same path condition as a boolean function of its atoms (if/elif chains, nested ifs and merged conditions coincide)"""
    from ..refspec import cond_key
    cs = [(c, pol) for c, pol in conds if not (isinstance(c, tuple) and c and c[0] in ('inloop', 'handler'))]
    wrapped = alpha(('tuple', tuple(c for c, _ in cs)))
    return cond_key([(c, pol) for c, (_, pol) in zip(wrapped[1], cs)])


def rule_siblings(ctx):
    mod = 'mchap.assemble.structural.'
    LAB = ('param', 'labels')
    for gen, cnt, shape in (('recombination_step_options', 'recombination_step_n_options', 'swap'),
                            ('dosage_step_options', 'dosage_step_n_options', 'overwrite')):
        fg, fc = ctx.func(mod + gen), ctx.func(mod + cnt)
        con = fg.construct('vs ' + cnt)
        rc = ctx.recon(mod + cnt)
        rets = [ev.data[0] for ev in rc.events if ev.kind == 'return']
        if len(rets) == 1 and rets[0][0] == 'call' and rets[0][1] == 'len' and rets[0][2][0][0] == 'call' and rets[0][2][0][1] == mod + gen:
            ctx.ok('R01.4/sibling', con, "counter defined as len(generator)")
            continue
        rg = ctx.recon(mod + gen)
        # counter: +1 increments inside loops
        incs = [ev for ev in rc.events if ev.kind == 'augname' and ev.data[1] == 'Add' and ev.data[2] == ('const', 1)
                and any(isinstance(c[0], tuple) and c[0][0] == 'inloop' for c in ev.conds)]
        # generator: in-loop stores of a label of another haplotype into column 0 of an option
        emits = [ev for ev in rg.events if ev.kind == 'store' and ev.data[1][0] == 'tuple' and len(ev.data[1][1]) == 3
                 and ev.data[1][1][2] == ('const', 0) and ev.data[2][0] == 'idx' and ev.data[2][1] == LAB
                 and any(isinstance(c[0], tuple) and c[0][0] == 'inloop' for c in ev.conds)
                 and ev.data[1][1][0][0] != 'loopvar']
        ctx.need(len(incs) == 1, f"{mod + cnt}: expected one +1 counter in the loops, found {len(incs)}")
        ctx.need(emits, f"{mod + gen}: option stores not found")
        kc = _conds_key(incs[0].conds)
        kgs = {_conds_key(ev.conds) for ev in emits}
        same = kgs == {kc} or {_conds_logic_key(ev.conds) for ev in emits} == {_conds_logic_key(incs[0].conds)}
        ctx.check(same, 'R01.4/sibling', con, "options are emitted under exactly the guard chain under which the counter counts",
                  f"option generator and option counter disagree on when an option exists:\n   generator: {[show(k)[:300] for k in kgs]}\n   counter:   {show(kc)[:300]}", fc.where(incs[0].node))
        # the generator advances its write index once per emitted option, under the same guards, and returns options[0:index]
        ginc = [ev for ev in rg.events if ev.kind == 'augname' and ev.data[1] == 'Add' and ev.data[2] == ('const', 1)
                and any(isinstance(c[0], tuple) and c[0][0] == 'inloop' for c in ev.conds)]
        slot = {ev.data[1][1][0] for ev in emits}
        good = len(ginc) == 1 and ({_conds_key(ginc[0].conds)} == kgs or {_conds_logic_key(ginc[0].conds)} == {_conds_logic_key(ev.conds) for ev in emits}) and len(slot) == 1 and next(iter(slot))[0] == 'carried' \
            and ginc[0].data[3] == next(iter(slot))
        grets = [collapse(ev.data[0], {}) for ev in rg.events if ev.kind == 'return']
        good = good and len(grets) == 1 and grets[0][0] == 'idx' and grets[0][2][0] == 'slice' and grets[0][2][1] in (None, ('const', 0)) \
            and any(x[0] == 'carried' and x[1] == ginc[0].data[0] for x in walk(grets[0][2][2]))
        ctx.check(good, 'R01.4/generator-index', fg.construct('write index'), "one slot per emitted option; the filled prefix is returned",
                  "the option generator does not advance its write index once per emitted option (or does not return the filled prefix)", fg.where())
        # shape of one option
        def cell(ev):
            return ev.data[1][1][1], ev.data[2][2]
        if shape == 'swap':
            good = len(emits) == 2
            if good:
                (r1, src1), (r2, src2) = cell(emits[0]), cell(emits[1])
                good = r1 != r2 and src1 == ('tuple', (r2, ('const', 0))) and src2 == ('tuple', (r1, ('const', 0)))
            ctx.check(good, 'R01.4/option-shape', fg.construct('option'), "an option transposes the interval labels of two haplotypes",
                      "recombination option is not a transposition of the interval labels of the two haplotypes", fg.where(emits[0].node))
        else:
            good = len(emits) == 1
            if good:
                r1, src1 = cell(emits[0])
                good = src1[0] == 'tuple' and src1[1][1] == ('const', 0) and src1[1][0] != r1 and src1[1][0][0] == 'loopvar' and r1[0] == 'loopvar'
            ctx.check(good, 'R01.4/option-shape', fg.construct('option'), "an option overwrites one interval label with another haplotype's",
                      "dosage option is not a single overwrite of an interval label", fg.where(emits[0].node))


# ------------------------------------------------------------------------------------------ orchestration
def rule_orchestration(ctx):
    fq = 'mchap.assemble.mcmc._denovo_assembler'
    f = ctx.func(fq)
    r = ctx.recon(fq)
    steps = [(c, conds, n) for c, conds, n in r.calls if c[1] in ('mchap.assemble.mutation.compound_step', 'mchap.assemble.structural.compound_step')]
    ctx.minimum('R01.5', len(steps), 4)
    # loop variable t
    for c, conds, n in steps:
        kw = kwargs(c)
        con = f.construct(f"{c[1].split('.')[-2]}.compound_step@{_ordinal(steps, n)}")
        g, t_, cache = kw.get('genotype'), kw.get('temp'), kw.get('cache')
        g = storage_root(ctx.prog, g) if g is not None else None
        tvar = None
        ok = g is not None and g[0] == 'idx' and g[2][0] == 'loopvar' and _is_array(ctx, g[1], 'genotypes')
        if ok:
            tvar = g[2]
            ok = t_ == ('idx', ('param', 'temperatures'), tvar)
        ctx.check(ok, 'R01.5/chain-index', con, "genotype=genotypes[t], temp=temperatures[t] with the same t",
                  f"step receives genotype={show(g)[:60]} temp={show(t_)[:60]}", f.where(n))
        # llk threading: the llk argument is llks[t] or the result of the previous step
        lk = kw.get('llk')
        def llk_ok(x):
            x = x
            while x[0] == 'phi':
                # both arms must be fine
                return llk_ok(x[2]) and llk_ok(x[3])
            if x[0] == 'proj' and x[1] == 0 and x[2][0] == 'call' and x[2][1].endswith('compound_step'):
                return True
            if x[0] == 'idx' and x[2] == tvar:
                return True
            return False
        ctx.check(lk is not None and llk_ok(lk), 'R01.5/llk-threading', con, "llk is llks[t] or the previous step's result",
                  f"llk argument is {show(lk)[:120]}", f.where(n))
        first = _ordinal(steps, n) == 1

        def cache_ok(x):
            while x[0] == 'phi':
                return cache_ok(x[2]) and cache_ok(x[3])
            if x[0] == 'proj' and x[1] == 1 and x[2][0] == 'call' and x[2][1].endswith('compound_step'):
                return True
            if x[0] == 'carried' and _is_cache_alloc(_origin(x)):
                return first      # only the first step of an iteration may see the carried cache
            return False
        ctx.check(cache is not None and cache_ok(cache), 'R01.5/cache-threading', con, "cache is the latest returned cache",
                  f"cache argument is {show(cache)[:120]}", f.where(n))
    # the cache carried into the next iteration is the one returned by the last step
    # the variable that holds the cache: the one passed as cache= to the first step
    first_call = steps[0][2]
    cache_var = next((k.value.id for k in first_call.keywords if k.arg == 'cache' and isinstance(k.value, ast.Name)), None)
    if cache_var is None:
        # the same argument passed by position
        from ..model import bind_args
        callee = ctx.prog.funcs.get(ctx.prog.resolve_call(f, first_call))
        arg = bind_args(callee, first_call).get('cache') if callee is not None else None
        cache_var = arg.id if isinstance(arg, ast.Name) else None
    ctx.need(cache_var is not None, f"{fq}: cannot identify the cache variable")
    final = r.env.get(cache_var)
    while final is not None and final[0] == 'after':
        final = final[2]

    def final_ok(x):
        if x[0] == 'phi':
            return final_ok(x[2]) and final_ok(x[3])
        return x[0] == 'proj' and x[1] == 1 and x[2][0] == 'call' and x[2][1].endswith('compound_step')
    ctx.check(final is not None and final_ok(final), 'R01.5/cache-threading', f.construct('cache@loop-end'),
              "cache carried to the next iteration is the last returned cache",
              f"cache at the end of the iteration is {show(final)[:120] if final else None}", f.where())
    # exchange
    sw = [(c, n) for c, _, n in r.calls if c[1] == 'mchap.assemble.tempering.chain_swap_step']
    ctx.need(len(sw) == 1, f"{fq}: one chain_swap_step call expected")
    c, n = sw[0]
    kw = kwargs(c)
    gi, gj, ti, tj, li, lj = (kw.get(k) for k in ('genotype_i', 'genotype_j', 'temp_i', 'temp_j', 'llk_i', 'llk_j'))
    gi = storage_root(ctx.prog, gi) if gi is not None else None
    gj = storage_root(ctx.prog, gj) if gj is not None else None
    lj = storage_root(ctx.prog, lj) if lj is not None else None
    good = gi is not None and gj is not None and lj is not None and gi[0] == 'idx' and gi[2][0] == 'loopvar'
    if good:
        t = gi[2]
        tm1 = ('bin', 'Sub', t, ('const', 1))
        good = gj[0] == 'idx' and gj[2] == tm1 and ti == ('idx', ('param', 'temperatures'), t) \
            and tj == ('idx', ('param', 'temperatures'), tm1) and lj[0] == 'idx' and lj[2] == tm1
    ctx.check(good, 'R01.5/exchange-index', f.construct('chain_swap_step'), "exchange pairs chain t with t-1 for genotype, llk and temperature",
              f"exchange called with {show(c)[:300]}", f.where(n))
    # write backs llks[t] = llk ; llks[t-1] = llk_prev
    # the per-chain likelihood array: the one whose element [t] feeds the first step
    lk0 = kwargs(steps[0][0]).get('llk')
    llks_root = storage_root(ctx.prog, lk0[1]) if lk0 is not None and lk0[0] == 'idx' else None
    ctx.need(llks_root is not None, f"{fq}: cannot identify the per-chain likelihood array")
    wb = [ev for ev in r.events if ev.kind == 'store' and storage_root(ctx.prog, ev.data[3]) == llks_root and ev.data[1][0] in ('loopvar', 'bin')]
    tvars = {ev.data[1] for ev in wb if ev.data[1][0] == 'loopvar'}
    t_ = next(iter(tvars)) if len(tvars) == 1 else None
    tm1_ = ('bin', 'Sub', t_, ('const', 1)) if t_ is not None else None
    swc = collapse(c, {})
    # llks[t-1] receives the second result of the exchange, llks[t] (last store) the first result where an exchange happened,
    # and no other cell of the array is written
    at_tm1 = [ev for ev in wb if ev.data[1] == tm1_]
    at_t = [ev for ev in wb if ev.data[1] == t_]
    elsewhere = [ev for ev in wb if ev.data[1] not in (t_, tm1_)]
    have_tm1 = len(at_tm1) >= 1 and all(collapse(ev.data[2], {}) == ('proj', 1, swc) for ev in at_tm1)
    have_t = len(at_t) >= 1 and any(x == ('proj', 0, swc) for x in walk(collapse(at_t[-1].data[2], {})))
    ctx.check(t_ is not None and have_t and have_tm1 and not elsewhere, 'R01.5/write-back', f.construct('llks'), "llks[t] and llks[t-1] written back",
              "carried likelihoods are not written back after the moves", f.where())


def _origin(t):
    """value a loop-carried variable had before the outermost loop"""
    while t[0] in ('carried', 'after'):
        t = t[2]
    return t


def _is_cache_alloc(t):
    """phi(threshold tests) over None / new_log_likelihood_cache(...)"""
    if t[0] == 'phi':
        return _is_cache_alloc(t[2]) or _is_cache_alloc(t[3])
    return t[0] == 'call' and t[1].endswith('new_log_likelihood_cache')


def _is_array(ctx, t, name):
    r = storage_root(ctx.prog, t)
    # the local array `name` allocated in this function (np.empty(...)) possibly with earlier stores
    return r is not None and r[0] == 'call' and r[1] in ('numpy.empty', 'numpy.zeros') or (r is not None and r == ('name', name))


def _ordinal(steps, node):
    return [n for _, _, n in steps].index(node) + 1


def rule_interval_tail(ctx):
    """interval_step selection: acceptance array has a stay slot, probabilities = exp(A - log n) with the stay slot set to
    1 - sum, the chosen option is applied exactly when choice < n and then its likelihood is returned, otherwise the carried one"""
    fq = 'mchap.assemble.structural.interval_step'
    f = ctx.func(fq)
    r = ctx.recon(fq)
    rcs = [c for c, _, _ in r.calls if c[1].endswith('random_choice')]
    ctx.need(len(rcs) == 1, f"{fq}: one random_choice expected")
    rc = rcs[0]
    P = simplify(collapse(rc[2][0], {}))
    why = None
    minus1 = (('un', 'USub', ('const', 1)), ('const', -1))
    ok = P[0] == 'upd' and P[2] in minus1 and P[1][0] == 'call' and P[1][1] == 'numpy.exp'
    E = P[1] if ok else None
    if not ok:
        why = "selection probabilities are not exp(.) with the last slot overwritten"
    if ok:
        ok = P[3] == ('bin', 'Sub', ('const', 1), ('call', '.sum', (E,), (), None))
        why = None if ok else f"stay probability is not 1 - sum(move probabilities): {show(P[3])[:80]}"
    N = None
    if ok:
        arg = E[2][0]
        ok = arg[0] == 'bin' and arg[1] == 'Sub' and arg[3][0] == 'call' and arg[3][1] == 'numpy.log' and arg[3][2][0][0] == 'call' and arg[3][2][0][1] == 'len'
        why = None if ok else "acceptance is not divided by the number of options"
        if ok:
            N = arg[3][2][0]
            A = arg[2]
            root = storage_root(ctx.prog, A)
            ok = root is not None and root[0] == 'call' and root[1] in ('numpy.empty', 'numpy.zeros') and collapse(root[2][0], {}) == mkbin('Add', N, ('const', 1))
            why = None if ok else f"acceptance array does not have one slot per option plus the stay slot: {show(root)[:80] if root else None}"
            stay = [ev for ev in r.events if ev.kind == 'store' and storage_root(ctx.prog, ev.data[3]) == root and ev.data[1] in minus1]
            if ok:
                ok = len(stay) == 1 and stay[0].data[2] == ('un', 'USub', ('name', 'numpy.inf'))
                why = None if ok else "the stay slot of the acceptance array is not -inf before the residual is filled in"
    if ok:
        moved = mkcmp('Lt', rc, N)
        sc = [(c, conds) for c, conds, _ in r.calls if c[1].endswith('structural_change')]
        ok = len(sc) == 1
        if ok:
            c, conds = sc[0]
            pth = [positive(cc, pol) for cc, pol in conds if not (isinstance(cc, tuple) and cc and cc[0] == 'inloop')]
            opt = collapse(c[2][1], {})
            ok = (collapse(moved, {}), True) in [(collapse(cc, {}), pol) for cc, pol in pth] and storage_root(ctx.prog, c[2][0]) == ('param', 'genotype') \
                and opt[0] == 'idx' and opt[1] == N[2][0] and opt[2][0] == 'tuple' and opt[2][1][0] == collapse(rc, {}) and c[2][2] == ('param', 'interval')
        why = None if ok else "the chosen option is not applied exactly when choice < number of options"
    if ok:
        rets = [simplify(collapse(ev.data[0], {})) for ev in r.events if ev.kind == 'return']
        fin = [x for x in rets if x[0] == 'tuple' and x[1][0] != ('param', 'llk')]
        ok = len(fin) == 1 and fin[0][1][0][0] == 'phi' and collapse(fin[0][1][0][1], {}) == collapse(moved, {}) and fin[0][1][0][3] == ('param', 'llk') \
            and fin[0][1][0][2][0] == 'idx' and fin[0][1][0][2][2] == collapse(rc, {})
        if ok:
            llks = fin[0][1][0][2][1]
            lroot = storage_root(ctx.prog, llks)
            ok = lroot is not None and lroot[0] == 'call' and lroot[1] in ('numpy.empty', 'numpy.zeros') and collapse(lroot[2][0], {}) in (N, mkbin('Add', N, ('const', 1)))
            fills = [x for x in walk(llks) if x[0] == 'upd' and x[2][0] == 'loopvar'] if ok else []
            ok = len(fills) >= 1 and all(atom_call(x[3])[0] is not None and atom_call(x[3])[0][1] == LIK_STRUCT and atom_call(x[3])[1] == 0 for x in fills)
        why = None if ok else "the returned likelihood is not that of the chosen option (or the carried one when staying)"
    ctx.check(ok, 'R01.2/interval-tail', f.construct('selection'), "stay slot, divisor n, residual, apply iff choice < n, return the option's likelihood",
              why or "", f.where())


def rule_compound_threading(ctx):
    """the sweep hands every step the likelihood and cache returned by the previous one, starting from its own arguments"""
    for fq, step in (('mchap.assemble.mutation.compound_step', 'mchap.assemble.mutation.base_step'),
                     ('mchap.assemble.structural.compound_step', 'mchap.assemble.structural.interval_step')):
        f = ctx.func(fq)
        r = ctx.recon(fq)
        calls = [c for c, _, _ in r.calls if c[1] == step]
        ctx.need(len(calls) == 1, f"{fq}: one call of {step.split('.')[-1]} expected")
        c = calls[0]
        b = dict(zip(ctx.func(step).params, c[2])); b.update(kwargs(c))
        ok = True
        why = []
        for k in ('llk', 'cache', 'genotype'):
            v = b.get(k)
            if k == 'genotype':
                good = v is not None and storage_root(ctx.prog, v) == ('param', 'genotype')
            else:
                good = v is not None and v[0] == 'carried' and v[2] == ('param', k)
            if not good:
                why.append(f"{k}= receives {show(v)[:60] if v else None}")
        rets = [ev.data[0] for ev in r.events if ev.kind == 'return']
        good = len(rets) == 1 and rets[0][0] == 'tuple' and len(rets[0][1]) == 2
        if good:
            x0, x1 = (collapse(x, {}) for x in rets[0][1])
            cc = collapse(c, {})
            good = x0 == ('proj', 0, cc) and x1 == ('proj', 1, cc)
        if not good:
            why.append("the sweep does not return the last step's (llk, cache)")
        ctx.check(not why, 'R01.5/llk-threading', f.construct('sweep'), "llk and cache are carried from step to step and returned",
                  "; ".join(why), f.where())


def rule_passthrough(ctx):
    from .c18 import passthrough_sites
    passthrough_sites(ctx, 'R01.5/pass-through', ['mchap.assemble.mutation.compound_step', 'mchap.assemble.structural.compound_step'], 'mchap.assemble.', minimum=2)


def run(ctx):
    rule_passthrough(ctx)
    rule_compound_threading(ctx)
    rule_interval_tail(ctx)
    rule_base_step(ctx)
    rule_interval_step(ctx)
    rule_exchange(ctx)
    rule_siblings(ctx)
    rule_orchestration(ctx)
