"""C02 (structural clauses): the Metropolis-Hastings and Gibbs kernels of `mchap call` have the
MH / full-conditional form over the proposed state `genotype_alleles{variable_allele:=a}`, restore
the state, use the same prior and likelihood functions with the same model parameters as the
call-exact enumerators, and every model parameter of CallingMCMC reaches the kernel unchanged.
The stay option is the one selected by `option == current allele`; compound_step and mcmc_sampler pass every argument through.
Not decided: numerical equality of the conditional with the enumerated posterior."""
from __future__ import annotations
from ..terms import walk, show, simplify
from ..norm import Normaliser, p_const, p_show
from ..kernels import current_option_arms, proposes, clip_inner, atom_call, log_atom_inner, kwargs, describe, elementwise, storage_root

MOD = 'mchap.calling.mcmc.'
LIK = 'mchap.calling.likelihood.log_likelihood_alleles_cached'
PRIOR = 'mchap.calling.prior.log_genotype_prior'
APRIOR = 'mchap.calling.prior.log_genotype_allele_prior'
COUNT = 'mchap.calling.utils.count_allele'
S = ('param', 'genotype_alleles')
V = ('param', 'variable_allele')
ONE, MINUS = p_const(1), p_const(-1)


def is_prop(t):
    return t[0] == 'upd' and t[1] == S and t[2] == V and t[3][0] == 'loopvar'


def mentions_prop(t):
    return any(is_prop(x) for x in walk(t))


def model_args_ok(call, lenhap=True):
    kw = kwargs(call)
    ok = kw.get('inbreeding') == ('param', 'inbreeding') and kw.get('frequencies') == ('param', 'frequencies')
    uh = kw.get('unique_haplotypes')
    ok = ok and uh == ('call', 'len', (('param', 'haplotypes'),), (), None)
    return ok


PROG = None


def lik_args_ok(call):
    kw = kwargs(call)
    return all(kw.get(k) == ('param', k) for k in ('reads', 'read_counts', 'haplotypes')) \
        and storage_root(PROG, kw.get('cache')) == ('param', 'llk_cache')


def final_state_restored(ctx, r, f, rule, con):
    st = r.env.get('genotype_alleles')
    st = simplify(st) if st is not None else None
    # upd(after(loop, ...), V, idx(S, V)) : value restored is the entry content of the cell
    good = st is not None and st[0] == 'upd' and st[2] == V and st[3] == ('idx', S, V)
    ctx.check(good, rule, con, "state restored to the entry allele after evaluating the options",
              f"state after the kernel is {show(st)[:120] if st else None}", f.where())


def rule_mh(ctx):
    fq = MOD + 'mh_options'
    f = ctx.func(fq)
    r = ctx.recon(fq)
    nz = Normaliser()
    con = f.construct('acceptance')
    stores = [ev for ev in r.events if ev.kind == 'store' and ev.data[0] == 'probabilities_array' and not ev.conds]
    full = [ev for ev in stores if ev.data[1] == ('slice', None, None, None)]
    ctx.need(len(full) == 1, f"{fq}: expected one whole-array store of transition probabilities")
    v = elementwise(full[0].data[2], mentions_prop)
    v = simplify(v)
    lin = nz.N(v)
    inner = None
    if len(lin.d) == 1:
        (a, p), = lin.d.items()
        if a != () and a[0] == 'natom' and a[1] == 'exp' and p == ONE:
            inner = clip_inner(a[2].lin)
    ctx.need(inner is not None, f"{fq}: transition probabilities are not exp(clip0(linear)): {show(v)[:200]}")
    where = f.where(full[0].node)
    arms = current_option_arms(ctx.prog, r, 'genotype_alleles')
    good = arms is not None
    if good:
        D, same, diff, lv = arms
        good = bool(same) and bool(diff) and not any(proposes(ctx.prog, e.data[2], 'genotype_alleles', lv) for e in same) \
            and any(proposes(ctx.prog, e.data[2], 'genotype_alleles', lv) for e in diff) \
            and {e.data[0] for e in same} == {e.data[0] for e in diff}
    ctx.check(good, 'R02.1/current-option', f.construct('arms'), "the option equal to the current allele is the stay option; every other option is evaluated as a proposal",
              "the arm for the current allele and the arm for proposals are not selected by `option == current allele`", f.where())
    liks, pris, logs, others = [], [], [], []
    for a, p in inner.items():
        c, k = atom_call(a)
        if c is not None and c[1] == LIK:
            liks.append((c, p))
        elif c is not None and c[1] == PRIOR:
            pris.append((c, p))
        elif log_atom_inner(a) is not None:
            logs.append((log_atom_inner(a), p))
        else:
            others.append((a, p))

    def pair(items, key):
        prop = [(c, p) for c, p in items if is_prop(kwargs(c).get(key, ('?',)))]
        cur = [(c, p) for c, p in items if kwargs(c).get(key) == S]
        return prop, cur
    lp, lc = pair(liks, 'genotype_alleles')
    ctx.check(len(lp) == 1 and len(lc) == 1 and lp[0][1] == ONE and lc[0][1] == MINUS and lik_args_ok(lp[0][0]) and lik_args_ok(lc[0][0]),
              'R02.1/likelihood', con, "L(S') - L(S) on the same reads/haplotypes/cache", f"likelihood ratio malformed: {describe(inner)}", where)
    pp, pc = pair(pris, 'genotype')
    ctx.check(len(pp) == 1 and len(pc) == 1 and pp[0][1] == ONE and pc[0][1] == MINUS and model_args_ok(pp[0][0]) and model_args_ok(pc[0][0]),
              'R02.1/prior', con, "prior(S') - prior(S) with (len(haplotypes), inbreeding, frequencies)", f"prior ratio malformed: {describe(inner)}", where)
    good = False
    if len(logs) == 2:
        def cnt(q):
            return isinstance(q, tuple) and q[0] == 'call' and q[1] == COUNT
        qs = [(q, p) for q, p in logs if cnt(q)]
        if len(qs) == 2:
            prop = [(q, p) for q, p in qs if is_prop(q[2][0])]
            cur = [(q, p) for q, p in qs if q[2][0] == S]
            if len(prop) == 1 and len(cur) == 1:
                # counted allele: the content of the variable cell in that state
                a_prop = simplify(prop[0][0][2][1])
                a_cur = cur[0][0][2][1]
                good = prop[0][1] == ONE and cur[0][1] == MINUS and a_prop[0] == 'loopvar' and a_cur == ('idx', S, V)
    ctx.check(good, 'R02.1/proposal', con, "log count(S', a) - log count(S, current)", f"proposal ratio malformed: {describe(inner)}", where)
    ctx.check(not others, 'R02.1/no-extra-terms', con, "no other term", f"unexpected terms: {[(show(a)[:60], p_show(p)) for a, p in others]}", where)
    # tail: current := 0 ; /= n_alleles - 1 ; current := 1 - sum
    tail = [ev for ev in stores if ev.data[1] != ('slice', None, None, None)]
    cur_cell = ('idx', S, V)
    good = len(tail) == 2 and all(ev.data[1] == cur_cell for ev in tail) and tail[0].data[2] == ('const', 0)
    if good:
        lin2 = nz.N(tail[1].data[2])
        good = lin2.coeff(()) == ONE and len(lin2.d) == 2
        # divisor n_alleles - 1
        div = [x for x in walk(tail[1].data[2]) if x[0] == 'bin' and x[1] == 'Div']
        want = ('bin', 'Sub', ('call', 'len', (('param', 'haplotypes'),), (), None), ('const', 1))
        good = good and any(d[3] == want for d in div)
    ctx.check(good, 'R02.1/tail', f.construct('selection'), "others / (n_alleles - 1); current = 1 - sum(others)",
              "selection tail malformed (divisor must be n_alleles - 1 and the current entry the residual)", f.where())
    final_state_restored(ctx, r, f, 'R02.1/restore', f.construct('state'))


def rule_gibbs(ctx):
    fq = MOD + 'gibbs_options'
    f = ctx.func(fq)
    r = ctx.recon(fq)
    nz = Normaliser()
    con = f.construct('conditional')
    stores = [ev for ev in r.events if ev.kind == 'store' and ev.data[0] == 'probabilities_array' and not ev.conds]
    ctx.need(len(stores) == 1, f"{fq}: expected one store of the conditional")
    v = stores[0].data[2]
    ctx.check(v[0] == 'call' and v[1] == 'mchap.jitutils.normalise_log_probs', 'R02.2/normalised', con,
              "probabilities = normalise_log_probs(.)", f"conditional is not normalised in log space: {show(v)[:120]}", f.where(stores[0].node))
    arg = simplify(elementwise(v[2][0], mentions_prop)) if v[0] == 'call' and v[2] else v
    lin = nz.N(arg)
    liks = [(atom_call(a)[0], p) for a, p in lin.items() if atom_call(a)[0] is not None and atom_call(a)[0][1] == LIK]
    pris = [(atom_call(a)[0], p) for a, p in lin.items() if atom_call(a)[0] is not None and atom_call(a)[0][1] == APRIOR]
    good = len(lin.d) == 2 and len(liks) == 1 and len(pris) == 1 and liks[0][1] == ONE and pris[0][1] == ONE
    if good:
        lk, pk = kwargs(liks[0][0]), kwargs(pris[0][0])
        good = is_prop(lk.get('genotype_alleles', ('?',))) and is_prop(pk.get('genotype', ('?',))) \
            and pk.get('variable_allele') == V and model_args_ok(pris[0][0]) and lik_args_ok(liks[0][0])
    ctx.check(good, 'R02.2/full-conditional', con, "L(S_a) + conditional_prior(S_a, variable_allele) for the same cell",
              f"Gibbs weights malformed: {describe(lin)}", f.where(stores[0].node))
    # every option evaluated: loop over range(len(haplotypes))
    loops = [ev for ev in r.events if ev.kind == 'loop_enter']
    want = ('call', 'range', (('call', 'len', (('param', 'haplotypes'),), (), None),), (), None)
    ctx.check(len(loops) == 1 and simplify(loops[0].data[0]) == want, 'R02.2/all-options', con, "loop covers range(len(haplotypes))",
              f"option loop is {show(loops[0].data[0]) if loops else None}", f.where())
    final_state_restored(ctx, r, f, 'R02.2/restore', f.construct('state'))


def passthrough(ctx, rule, caller_q, callee_q, names, self_fields=False, rename=None, minimum=1):
    """every call of callee in caller passes each name unchanged (param -> same-named keyword)"""
    f = ctx.func(caller_q)
    r = ctx.recon(caller_q)
    sites = [(c, n) for c, _, n in r.calls if c[1] == callee_q]
    ctx.minimum(rule, len(sites), minimum)
    callee = ctx.func(callee_q)
    for c, n in sites:
        b = dict(zip(callee.params, c[2]))
        b.update(kwargs(c))
        for nm in names:
            src = (rename or {}).get(nm, nm)
            want = ('attr', ('param', 'self'), src) if self_fields else ('param', src)
            got = b.get(nm)
            got = storage_root(ctx.prog, got) if got is not None else None
            ctx.check(got == want, rule, f.construct(f"{callee.name}({nm}=)"), f"{nm} <- {show(want)}",
                      f"{callee.name} receives {nm}={show(got) if got else 'default'} instead of {show(want)}", f.where(n))


def rule_threading(ctx):
    passthrough(ctx, 'R02.3/threading', 'mchap.calling.classes.CallingMCMC.fit', MOD + 'mcmc_sampler',
                ['haplotypes', 'inbreeding', 'frequencies'], self_fields=True)
    passthrough(ctx, 'R02.3/threading', MOD + 'mcmc_sampler', MOD + 'compound_step',
                ['haplotypes', 'reads', 'read_counts', 'inbreeding', 'frequencies', 'step_type'],
                rename={}, )
    for k in ('gibbs_options', 'mh_options'):
        passthrough(ctx, 'R02.3/threading', MOD + 'compound_step', MOD + k,
                    ['genotype_alleles', 'haplotypes', 'reads', 'read_counts', 'inbreeding', 'frequencies', 'llk_cache'])


def rule_same_target(ctx):
    """prior and likelihood of the exact enumerators are the same functions with the same model arguments"""
    ex = 'mchap.calling.exact.'
    for fn in ('_call_posterior_mode', '_genotype_support_log_joint', '_posterior_allele_frequencies', 'genotype_posteriors'):
        f = ctx.func(ex + fn)
        r = ctx.recon(ex + fn)
        pcs = [(c, n) for c, _, n in r.calls if c[1] == PRIOR]
        ctx.minimum('R02.3/same-prior', len(pcs), 1)
        for c, n in pcs:
            callee = ctx.func(PRIOR)
            b = dict(zip(callee.params, c[2])); b.update(kwargs(c))
            uh = b.get('unique_haplotypes')
            ok_uh = uh in (('call', 'len', (('param', 'haplotypes'),), (), None), ('param', 'n_alleles'))
            if uh and uh[0] == 'after':
                ok_uh = False
            # n_alleles local = len(haplotypes)
            if uh == ('call', 'len', (('param', 'haplotypes'),), (), None) or uh == ('param', 'n_alleles'):
                ok_uh = True
            ok = ok_uh and b.get('inbreeding') == ('param', 'inbreeding') and b.get('frequencies') == ('param', 'frequencies')
            ctx.check(ok, 'R02.3/same-prior', f.construct('log_genotype_prior'),
                      "prior(genotype, n_alleles, inbreeding, frequencies)",
                      f"exact enumerator calls the prior with {show(c)[:160]}", f.where(n))
    # genotype_posteriors' n_alleles comes from len(haplotypes) at its call site
    f = ctx.func('mchap.application.call_exact.program.call_sample_genotypes')
    r = ctx.recon(f.qname)
    gp = [(c, n) for c, _, n in r.calls if c[1] == ex + 'genotype_posteriors']
    ctx.minimum('R02.3/same-prior', len(gp), 1)
    for c, n in gp:
        kw = kwargs(c)
        na = kw.get('n_alleles')
        ok = na is not None and na[0] == 'call' and na[1] == 'len' and kw.get('frequencies') is not None
        ctx.check(ok, 'R02.3/same-prior', f.construct('genotype_posteriors'), "n_alleles=len(haplotypes), frequencies passed",
                  f"genotype_posteriors called with {show(c)[:160]}", f.where(n))
    # likelihood: every enumerator uses assemble.likelihood.log_likelihood(reads, haplotypes[genotype], read_counts)
    LL = 'mchap.assemble.likelihood.log_likelihood'
    for fq in (ex + '_call_posterior_mode', ex + '_genotype_support_log_joint', ex + '_posterior_allele_frequencies',
               ex + '_genotype_likelihoods', 'mchap.calling.likelihood.log_likelihood_alleles'):
        f = ctx.func(fq)
        r = ctx.recon(fq)
        lcs = [(c, n) for c, _, n in r.calls if c[1] == LL]
        ctx.minimum('R02.3/same-likelihood', len(lcs), 1)
        for c, n in lcs:
            kw = kwargs(c)
            g = kw.get('genotype')
            ok = kw.get('reads') == ('param', 'reads') and kw.get('read_counts') == ('param', 'read_counts') \
                and g is not None and g[0] == 'idx' and g[1] == ('param', 'haplotypes')
            ctx.check(ok, 'R02.3/same-likelihood', f.construct('log_likelihood'), "log_likelihood(reads, haplotypes[genotype], read_counts)",
                      f"likelihood called with {show(c)[:160]}", f.where(n))


def rule_compound(ctx):
    fq = MOD + 'compound_step'
    f = ctx.func(fq)
    r = ctx.recon(fq)
    opts = [(c, n) for c, _, n in r.calls if c[1] in (MOD + 'gibbs_options', MOD + 'mh_options')]
    ctx.minimum('R02.4', len(opts), 2)
    st = [ev for ev in r.events if ev.kind == 'store' and ev.data[0] == 'genotype_alleles']
    ctx.need(len(st) == 1, f"{fq}: one state store expected")
    k = st[0].data[1]
    choice = st[0].data[2]
    for c, n in opts:
        ctx.check(kwargs(c).get('variable_allele') == k, 'R02.4/same-position', f.construct(c[1].split('.')[-1]),
                  "the position evaluated is the position written", f"options evaluated for {show(kwargs(c).get('variable_allele'))} but state written at {show(k)}", f.where(n))
    good = choice[0] == 'call' and choice[1] == 'mchap.jitutils.random_choice'
    if good:
        root = storage_root(ctx.prog, choice[2][0])
        pa = {storage_root(ctx.prog, kwargs(c).get('probabilities_array')) for c, _ in opts}
        good = pa == {root}
    ctx.check(good, 'R02.4/choice', f.construct('choice'), "choice drawn from the vector the kernel just filled",
              f"choice is {show(choice)[:120]}", f.where(st[0].node))
    fin = r.env.get('genotype_alleles')
    ctx.check(fin is not None and fin[0] == 'out' and fin[1] == '.sort', 'R02.4/sorted', f.construct('sort'),
              "genotype sorted before it is returned", "genotype is not sorted at the end of the compound step", f.where())


def rule_passthrough(ctx):
    from .c18 import passthrough_sites
    passthrough_sites(ctx, 'R02.4/pass-through', [MOD + 'compound_step', MOD + 'mcmc_sampler'], 'mchap.calling.mcmc.', minimum=2)


def run(ctx):
    rule_passthrough(ctx)
    global PROG
    PROG = ctx.prog
    rule_mh(ctx)
    rule_gibbs(ctx)
    rule_threading(ctx)
    rule_same_target(ctx)
    rule_compound(ctx)
