"""C03 (structural clauses): every loop that walks all genotypes starts at the first genotype, runs
exactly N times, reads the genotype before the single unconditional increment of the iteration
(so the loop index is the VCF index of the genotype it read); the normalising constant accumulates
every genotype; the streaming and array paths call the same prior/likelihood with the same model
arguments, share the first-occurrence rule and the support enumeration; both arms of the path
selection define the reported quantities; in every enumeration the unnormalised log posterior is +1 log likelihood +1 log prior;
allele summaries are `cell + P(genotype)` with P = exp(joint - total), every returned summary vector is accumulated into;
mode and support probabilities are exp(joint - total of the first pass). Not decided: floating-point agreement of the two paths."""
from __future__ import annotations
import ast
from ..terms import walk, show, simplify, alpha, mkcall
from ..reduce import reductions
from ..kernels import collapse
from ..kernels import kwargs, storage_root
from . import c02

EX = 'mchap.calling.exact.'
INC = 'mchap.jitutils.increment_genotype'
LOOPS = [EX + '_call_posterior_mode', EX + '_posterior_allele_frequencies', EX + '_genotype_likelihoods',
         EX + 'genotype_posteriors', EX + 'posterior_allele_frequencies', 'mchap.assemble.snpcalling.snp_posterior']


def lockstep(ctx, rule='R03.1'):
    n_loops = 0
    for fq in LOOPS:
        f = ctx.func(fq)
        for loop in [n for n in ast.walk(f.node) if isinstance(n, ast.For)]:
            incs = [s for s in ast.walk(loop) if isinstance(s, ast.Call) and ctx.prog.resolve_call(f, s) == INC]
            if not incs:
                continue
            if any(isinstance(x, ast.For) and x is not loop and any(i in ast.walk(x) for i in incs) for x in ast.walk(loop)):
                continue        # the increment belongs to an inner loop
            n_loops += 1
            con = f.construct('genotype loop')
            gname = ast.unparse(incs[0].args[0]) if incs[0].args else None
            # exactly one increment, a top-level statement of the body, and the last one that mentions the genotype
            top = [s for s in loop.body if isinstance(s, ast.Expr) and s.value in incs]
            ok_single = len(incs) == 1 and len(top) == 1
            after = []
            if ok_single:
                pos = loop.body.index(top[0])
                for s in loop.body[pos + 1:]:
                    if any(isinstance(m, ast.Name) and m.id == gname for m in ast.walk(s)):
                        after.append(s)
            ctx.check(ok_single and not after, rule + '/increment-last', con,
                      "one unconditional increment per iteration, after every use of the genotype",
                      "the genotype is incremented conditionally, more than once, or before it is used in the same iteration "
                      "(the loop index would no longer be the VCF index of the genotype read)", f.where(incs[0]))
            # starts at the first genotype, runs exactly N times (terms, independent of local names)
            r = ctx.recon(fq)
            inc_terms = [(c, conds) for c, conds, n in r.calls if n is incs[0]]
            ctx.need(len(inc_terms) == 1, f"{fq}: increment call not reconstructed")
            g0 = storage_root(ctx.prog, inc_terms[0][0][2][0])
            ok_init = g0 is not None and g0[0] == 'call' and g0[1] == 'numpy.zeros' and g0[2] and g0[2][0] == ('param', 'ploidy')
            ctx.check(ok_init, rule + '/starts-at-zero', con, "genotype starts as zeros(ploidy)", "enumeration does not start at the all-reference genotype", f.where(loop))
            le = [ev for ev in r.events if ev.kind == 'loop_enter' and ev.node is loop]
            it = le[0].data[0] if le else None
            N = None
            if it is not None and it[0] == 'call' and it[1] == 'range':
                if len(it[2]) == 1:
                    N = it[2][0]
                elif len(it[2]) == 2 and it[2][0] == ('const', 0):
                    N = it[2][1]
            allowed = {
                EX + '_call_posterior_mode': [('param', 'n_genotypes')], EX + '_posterior_allele_frequencies': [('param', 'n_genotypes')],
                EX + '_genotype_likelihoods': [('param', 'n_genotypes')],
                EX + 'genotype_posteriors': [('call', 'len', (('param', 'log_likelihoods'),), (), None)],
                EX + 'posterior_allele_frequencies': [('call', 'len', (('param', 'posteriors'),), (), None)],
                'mchap.assemble.snpcalling.snp_posterior': [mkcall('mchap.jitutils.comb_with_replacement', ('param', 'n_alleles'), ('param', 'ploidy'))],
            }[fq]
            ctx.check(N in allowed, rule + '/n-iterations', con, f"loop runs {show(N) if N else None} times",
                      f"loop is over {show(it)[:80] if it else None}: it must visit exactly the number of genotypes ({show(allowed[0])})", f.where(loop))
    ctx.minimum(rule, n_loops, 6)
    # N is the genotype count at every call site
    sites = [
        (EX + 'posterior_mode', EX + '_call_posterior_mode'), (EX + 'posterior_mode', EX + '_posterior_allele_frequencies'),
        (EX + 'genotype_likelihoods', EX + '_genotype_likelihoods'),
    ]
    for caller, callee in sites:
        f = ctx.func(caller)
        r = ctx.recon(caller)
        cs = [(c, n) for c, _, n in r.calls if c[1] == callee]
        ctx.minimum(rule, len(cs), 1)
        want = mkcall('mchap.combinatorics.count_unique_genotypes', ('call', 'len', (('param', 'haplotypes'),), (), None), ('param', 'ploidy'))
        for c, n in cs:
            kw = kwargs(c)
            ok = kw.get('n_genotypes') == want and kw.get('haplotypes') == ('param', 'haplotypes') and kw.get('ploidy') == ('param', 'ploidy')
            ctx.check(ok, rule + '/count', f.construct(callee.split('.')[-1]), "n_genotypes = count_unique_genotypes(len(haplotypes), ploidy) for the same haplotypes/ploidy",
                      f"enumerator called with {show(c)[:200]}", f.where(n))


def rule_normalisation(ctx):
    fq = EX + '_call_posterior_mode'
    f = ctx.func(fq)
    r = ctx.recon(fq)
    rets = [ev.data[0] for ev in r.events if ev.kind == 'return']
    ctx.need(len(rets) == 1 and rets[0][0] == 'tuple' and len(rets[0][1]) == 4, f"{fq}: expected one return of four values")
    total = reductions(rets[0][1][3])
    ok = total[0] == 'reduce' and total[1] == 'LogAdd' and total[3] is None and total[2] == ('un', 'USub', ('name', 'numpy.inf'))
    if ok:
        body = total[4]
        calls = {x[1] for x in walk(body) if x[0] == 'call'}
        ok = body[0] == 'bin' and body[1] == 'Add' and 'mchap.assemble.likelihood.log_likelihood' in calls and 'mchap.calling.prior.log_genotype_prior' in calls
    ctx.check(ok, 'R03.2/total', f.construct('total'), "total = logsumexp over every genotype of (llk + log prior), unconditionally",
              f"the normalising constant does not accumulate llk + prior of every genotype: {show(total)[:200]}", f.where())
    f = ctx.func(EX + 'posterior_mode')
    r = ctx.recon(f.qname)
    first = [c for c, _, _ in r.calls if c[1] == EX + '_call_posterior_mode']
    cs = [c for c, _, _ in r.calls if c[1] == EX + '_posterior_allele_frequencies']
    ok = len(cs) == 1 and len(first) == 1 and kwargs(cs[0]).get('ldenominator') == ('proj', 3, first[0])
    ctx.check(ok, 'R03.2/same-denominator', f.construct('ldenominator'), "second pass divides by the total of the first pass", "second pass uses a different denominator", f.where())
    # third element of the result list
    from ..sizes import SizeEval
    ret = [ev.data[0] for ev in r.events if ev.kind == 'return']
    items = SizeEval(ctx).as_tuple(collapse(ret[0], {}), {}) if ret else None
    pr = None
    if items is None and ret:
        # list under phi: take any arm, the first three items are unconditional
        t = ret[0]
        while t[0] in ('call',) and t[1] in ('tuple', 'list'):
            t = t[2][0]
        while t[0] == 'phi':
            t = t[2]
        items = t[1] if t[0] == 'list' else None
    pr = items[2] if items is not None and len(items) >= 3 else None
    ok = pr is not None and len(first) == 1 and pr == ('call', 'numpy.exp', (('bin', 'Sub', ('proj', 2, first[0]), ('proj', 3, first[0])),), (), None)
    ctx.check(ok, 'R03.2/posterior', f.construct('mode probability'), "P(mode) = exp(mode_ljoint - total_ljoint)", f"mode probability is {show(pr)[:120] if pr else None}", f.where())


def _occurrence_stores(ctx, fq):
    """alpha-normalised path conditions of the stores into the occurrence array (last returned array)"""
    r = ctx.recon(fq)
    ret = [ev.data[0] for ev in r.events if ev.kind == 'return'][0]
    occ_root = storage_root(ctx.prog, ret[1][-1])
    out = set()
    for ev in r.events:
        if ev.kind == 'store' and storage_root(ctx.prog, ev.data[3]) == occ_root:
            cs = tuple((c, pol) for c, pol in ev.conds if not (isinstance(c, tuple) and c and c[0] == 'inloop'))
            out.add(alpha(('tuple', tuple(('tuple', (c, ('const', pol))) for c, pol in cs))))
    return out


def _occurrence_rule_ok(occ):
    """the occurrence array is stored into exactly where `i == 0 or g[i] != g[i - 1]` holds, however the test is written (nested ifs,
    one disjunction, guard clauses): the disjunction of the stores' path conditions is compared as a boolean function of its atoms"""
    from ..refspec import cond_key
    from ..terms import mkbool, mknot
    if not occ:
        return False
    total = None
    for k in occ:
        conj = None
        for c in k[1]:
            t, pol = c[1][0], c[1][1][1]
            lit = t if pol else mknot(t)
            conj = lit if conj is None else mkbool('And', conj, lit)
        if conj is None:
            return False            # an unconditional store
        total = conj if total is None else mkbool('Or', total, conj)
    key = cond_key([(total, True)])
    if len(key) != 2 or len(key[0]) != 2:
        return False
    from ..refspec import _bool_atoms
    ats = {}
    _bool_atoms(total, ats)
    a_first = a_prev = None
    for d, t in ats.items():
        if t[0] == 'cmp' and t[1] == 'Eq' and ('const', 0) in (t[2], t[3]) and any(x[0] == 'loopvar' for x in (t[2], t[3])):
            a_first = d
            lv = t[2] if t[2][0] == 'loopvar' else t[3]
        elif t[0] == 'cmp' and t[1] == 'Eq' and t[2][0] == 'idx' and t[3][0] == 'idx' and t[2][1] == t[3][1]:
            a_prev = (d, t)
    if a_first is None or a_prev is None:
        return False
    d_prev, t = a_prev
    if {t[2][2], t[3][2]} != {lv, ('bin', 'Sub', lv, ('const', 1))}:
        return False
    order = list(key[0])
    want = []
    for m in range(4):
        val = {order[0]: bool(m & 1), order[1]: bool(m >> 1 & 1)}
        want.append(val[a_first] or not val[d_prev])
    return tuple(want) == tuple(key[1])


def rule_siblings(ctx):
    # first occurrence rule + /ploidy in both allele-frequency functions
    keys = {}
    for fq in (EX + '_posterior_allele_frequencies', EX + 'posterior_allele_frequencies'):
        f = ctx.func(fq)
        r = ctx.recon(fq)
        ret = [ev.data[0] for ev in r.events if ev.kind == 'return'][0]
        first = ret[1][0]
        div = first[0] == 'bin' and first[1] == 'Div' and first[3] == ('param', 'ploidy')
        occ = _occurrence_stores(ctx, fq)
        keys[fq] = occ
        shape_ok = _occurrence_rule_ok(occ)
        ctx.check(shape_ok and div, 'R03.3/frequency-siblings', f.construct('occurrence+frequency'),
                  "occurrence counted at position 0 or where the allele differs from its predecessor; frequency = accumulated / ploidy",
                  "allele frequency / occurrence rule is not {first position, or differs from previous allele} with frequency = counts / ploidy", f.where())
    for fq in (EX + '_genotype_support_log_joint', EX + 'alternate_dosage_posteriors'):
        f = ctx.func(fq)
        r = ctx.recon(fq)
        g = ('param', f.params[0])
        cw = [c for c, _, _ in r.calls if c[1].endswith('combinations_with_replacement')]
        ok = len(cw) == 1
        if ok:
            support, rem = cw[0][2][0], cw[0][2][1]
            ok = support == ('call', 'numpy.unique', (g,), (), None) and rem == ('bin', 'Sub', ('call', 'len', (g,), (), None), ('call', 'len', (support,), (), None))
        srt = [c for c, _, _ in r.calls if c[1] == 'numpy.sort']
        ctx.check(ok and len(srt) >= 1, 'R03.3/support-siblings', f.construct('support options'),
                  "support = unique alleles; options = multisets of size ploidy - |support| over the support; genotypes sorted before use",
                  "support enumeration is not combinations_with_replacement(unique(genotype), ploidy - n_unique)", f.where())


def rule_paths(ctx):
    fq = 'mchap.application.call_exact.program.call_sample_genotypes'
    f = ctx.func(fq)
    r = ctx.recon(fq)
    # variables stored after the branch must be defined on both arms
    for var in ('alleles', 'genotype_prob', 'genotype_support_prob'):
        v = None
        for ev in r.events:
            if ev.kind == 'deepstore':
                for x in walk(ev.data[2]):
                    pass
        # find the sampledata stores of GT / GPM / SPM
    stores = {}
    for ev in r.events:
        if ev.kind == 'deepstore' and ev.data[0][0] == 'idx' and ev.data[0][2][0] == 'name' and any(c[0][0] == 'inloop' for c in ev.conds if isinstance(c[0], tuple)) \
                and not any(isinstance(c[0], tuple) and c[0][0] == 'name' for c in ev.conds):
            stores.setdefault(ev.data[0][2][1].split('.')[-1], []).append(ev)
    for fld in ('GT', 'GPM', 'SPM'):
        # the placeholder record of an invalid locus stores constants (np.full(.., -1) / nan); every other store is the real one
        mock = lambda v: (v[0] == 'call' and v[1] == 'numpy.full') or v == ('name', 'numpy.nan')
        evs = [e for e in stores.get(fld, []) if not mock(e.data[2])]
        ok = len(evs) == 1 and evs[0].data[2][0] == 'phi' and 'undef' not in show(evs[0].data[2])
        ctx.check(ok, 'R03.4/both-arms', f.construct(f"FORMAT.{fld}"), "stored by common code from a value defined on both paths",
                  f"FORMAT.{fld} is not defined on both the streaming and the array path", f.where(evs[0].node) if evs else f.where())
    # the branch condition mentions only GL / GP membership
    conds = set()
    for ev in r.events:
        for c, pol in ev.conds:
            if isinstance(c, tuple) and c[0] == 'bool' and 'formatfields.GL' in show(c, short=False) and 'formatfields.GP' in show(c, short=False):
                conds.add(c)
    ok = len(conds) == 1
    if ok:
        c = next(iter(conds))
        leaves = [x for x in walk(c) if x[0] == 'cmp']
        ok = len(leaves) == 2 and all(x[1] == 'In' and x[3] == ('attr', ('param', 'data'), 'formatfields') for x in leaves)
    ctx.check(ok, 'R03.4/selector', f.construct('path selection'), "path chosen only by GL/GP being requested",
              "path selection depends on something other than the requested FORMAT fields", f.where())


def rule_joint(ctx):
    """every enumeration forms the unnormalised log posterior of a genotype as  +1 * log likelihood  +1 * log prior  and nothing else"""
    from ..norm import Normaliser, p_const
    PRIOR = 'mchap.calling.prior.log_genotype_prior'
    LIKS = ('mchap.calling.likelihood.log_likelihood_alleles', 'mchap.assemble.likelihood.log_likelihood', 'mchap.calling.likelihood.log_likelihood_alleles_cached')
    for fn in ('_call_posterior_mode', '_genotype_support_log_joint', '_posterior_allele_frequencies', 'genotype_posteriors'):
        fq = EX + fn
        f = ctx.func(fq)
        r = ctx.recon(fq)
        joints = set()
        for ev in r.events:
            for d in ev.data:
                if isinstance(d, tuple):
                    for x in walk(d):
                        if isinstance(x, tuple) and x and x[0] == 'bin' and any(isinstance(y, tuple) and y and y[0] == 'call' and y[1] == PRIOR for y in x[2:4]):
                            joints.add(x)
        ctx.need(len(joints) >= 1, f"{fq}: no arithmetic on the genotype prior found")
        ok, why = True, ""
        for x in joints:
            lin = Normaliser().N(x)
            pri = [a for a in lin.d if a != () and a[0] == 'call' and a[1] == PRIOR]
            lik = [a for a in lin.d if a != () and ((a[0] == 'call' and a[1] in LIKS) or (a[0] == 'idx' and a[1] == ('param', 'log_likelihoods')))]
            good = len(lin.d) == 2 and len(pri) == 1 and len(lik) == 1 and lin.coeff(pri[0]) == p_const(1) and lin.coeff(lik[0]) == p_const(1)
            if not good:
                ok, why = False, lin.show()[:200]
        ctx.check(ok, 'R03.2/joint', f.construct('log joint'), "log joint = log likelihood + log prior", f"unnormalised posterior is not likelihood x prior: {why}", f.where())


def rule_accumulate(ctx):
    """allele summaries add (never subtract) the posterior probability of each genotype; probabilities are exp(joint - total)"""
    from ..norm import Normaliser, p_const
    for fn, weight in (('_posterior_allele_frequencies', 'exp'), ('posterior_allele_frequencies', 'param')):
        fq = EX + fn
        f = ctx.func(fq)
        r = ctx.recon(fq)
        acc = [ev for ev in r.events if ev.kind == 'store' and ev.data[1][0] == 'idx' and any(x[0] == 'carried' for x in walk(ev.data[1]))]
        ctx.need(len(acc) >= 2, f"{fq}: per-allele accumulation not found")
        ok, why = True, ""
        rets = [ev.data[0] for ev in r.events if ev.kind == 'return']
        def base(x):
            x = collapse(x, {})
            while x[0] == 'bin':
                x = x[2] if storage_root(ctx.prog, x[2]) is not None else x[3]
            return storage_root(ctx.prog, x)
        allocs = {base(x) for t in rets for x in (t[1] if t[0] == 'tuple' else (t,))} - {None}
        allocs = {x for x in allocs if x[0] == 'call' and x[1] in ('numpy.zeros', 'numpy.empty')}
        filled = {storage_root(ctx.prog, ev.data[3]) for ev in acc}
        if not allocs or not allocs <= filled:
            ok, why = False, f"{len(allocs - filled)} of the {len(allocs)} returned vectors is never accumulated into"
        for ev in acc:
            root, cell, v = ev.data[0], ev.data[1], ev.data[2]
            lin = Normaliser().N(v)
            cur = [a for a in lin.d if a != () and a[0] == 'idx' and a[2] == cell]
            rest = [a for a in lin.d if a not in cur]
            good = len(cur) == 1 and lin.coeff(cur[0]) == p_const(1) and len(rest) == 1 and lin.coeff(rest[0]) == p_const(1)
            if good and weight == 'exp':
                w = rest[0]
                good = w[0] == 'natom' and w[1] == 'exp'
                if good:
                    inner = w[2].lin
                    den = inner.coeff(('param', 'ldenominator'))
                    good = den == p_const(-1) and all(p == p_const(1) for a, p in inner.d.items() if a != ('param', 'ldenominator'))
            elif good:
                good = rest[0][0] == 'idx' and rest[0][1] == ('param', 'posteriors')
            if not good:
                ok, why = False, lin.show()[:200]
        ctx.check(ok, 'R03.3/accumulate', f.construct('accumulation'), "cell += P(genotype), P = exp(joint - total) or the given posterior",
                  f"per-allele accumulation is not `cell + probability of the genotype`: {why}", f.where())
    # support probability of the mode: exp(support joint - total of the first pass)
    f = ctx.func(EX + 'posterior_mode')
    r = ctx.recon(f.qname)
    first = [c for c, _, _ in r.calls if c[1] == EX + '_call_posterior_mode']
    sup = [c for c, _, _ in r.calls if c[1] == EX + '_genotype_support_log_joint']
    exps = {x for ev in r.events if ev.kind == 'return' for x in walk(ev.data[0]) if isinstance(x, tuple) and x and x[0] == 'call' and x[1] == 'numpy.exp'
            and any(y[0] == 'call' and y[1] == EX + '_genotype_support_log_joint' for y in walk(x))}
    ok = len(first) == 1 and len(sup) == 1 and exps == {('call', 'numpy.exp', (('bin', 'Sub', sup[0], ('proj', 3, first[0])),), (), None)}
    ctx.check(ok, 'R03.2/posterior', f.construct('support probability'), "P(support) = exp(support_ljoint - total_ljoint)",
              f"support probability is {[show(x)[:80] for x in exps]}", f.where())


def run(ctx):
    rule_joint(ctx)
    rule_accumulate(ctx)
    lockstep(ctx)
    rule_normalisation(ctx)
    rule_siblings(ctx)
    c02.rule_same_target(ctx)
    rule_paths(ctx)
