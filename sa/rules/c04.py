"""C04 (structural clauses): log_likelihood reconstructs, for all inputs, to the documented mixture
  sum_r w_r * log( sum_h (1/ploidy) * prod_j [not isnan(v)] v ),  v = reads[r, j, genotype[h, j]],
w_r = read_counts[r] (1 without counts; a read with count 0 contributes 0); log_likelihood_structural_change is the same form with
genotype[H(h,j), j], H = haplotype_indices[h] inside the interval else h; structural_change writes
genotype'[h, j] = genotype[haplotype_indices[h], j] over the same interval convention; the calling and
pedigree wrappers delegate to log_likelihood(reads, haplotypes[alleles], read_counts).
Order-invariance and count/duplication equivalence follow from this form. Not decided: floating point."""
from __future__ import annotations
from ..terms import mkphi, mkbin, mkcmp, mkcall, walk, show, simplify, alpha
from ..reduce import reductions
from ..kernels import kwargs, storage_root

LL = 'mchap.assemble.likelihood.'


def rng(n):
    return ('call', 'range', (n,), (), None)


G = ('param', 'genotype')
R_ = ('param', 'reads')
PLOIDY = ('proj', 0, ('attr', G, 'shape'))
NBASE = ('proj', 1, ('attr', G, 'shape'))
r_ = ('loopvar', 'r', rng(('call', 'len', (R_,), (), None)))
h_ = ('loopvar', 'h', rng(PLOIDY))
j_ = ('loopvar', 'j', rng(NBASE))


def spec(hap_index):
    v = ('idx', R_, ('tuple', (r_, j_, ('idx', G, ('tuple', (hap_index, j_))))))
    prod = ('reduce', 'Mult', ('const', 1.0), ('un', 'Not', ('call', 'numpy.isnan', (v,), (), None)), v)
    mix = ('reduce', 'Add', ('const', 0), None, ('bin', 'Div', prod, PLOIDY))
    lg = ('call', 'numpy.log', (mix,), (), None)
    cnt = ('idx', ('param', 'read_counts'), r_)
    # a read with count 0 contributes nothing, whatever its probability (log(0) * 0 would be NaN: defect V)
    weighted = mkphi(mkcmp('Eq', cnt, ('const', 0)), ('const', 0.0), mkbin('Mult', lg, cnt))
    term = mkphi(('cmp', 'IsNot', ('param', 'read_counts'), ('const', None)), weighted, lg)
    return ('reduce', 'Add', ('const', 0.0), None, term)


def rule_closed_form(ctx):
    f = ctx.func(LL + 'log_likelihood')
    r = ctx.recon(f.qname)
    rets = [ev.data[0] for ev in r.events if ev.kind == 'return']
    ctx.need(len(rets) == 1, f"{f.qname}: one return expected")
    got = alpha(reductions(rets[0]))
    want = alpha(spec(h_))
    ctx.check(got == want, 'R04.1/mixture-form', f.construct('return'),
              "sum_r w_r * log(sum_h prod_j[not nan] reads[r, j, genotype[h, j]] / ploidy)",
              f"log_likelihood no longer has the documented mixture form:\n   got  {show(got)[:700]}\n   want {show(want)[:700]}", f.where())
    f2 = ctx.func(LL + 'log_likelihood_structural_change')
    r2 = ctx.recon(f2.qname)
    rets = [ev.data[0] for ev in r2.events if ev.kind == 'return']
    ctx.need(len(rets) == 1, f"{f2.qname}: one return expected")
    got = alpha(reductions(rets[0]))
    intvl = ('phi', ('cmp', 'Is', ('param', 'interval'), ('const', None)), rng(NBASE),
             ('call', 'range', (('idx', ('param', 'interval'), ('const', 0)), ('idx', ('param', 'interval'), ('const', 1))), (), None))
    H = ('phi', ('cmp', 'In', j_, intvl), ('idx', ('param', 'haplotype_indices'), h_), h_)
    want = alpha(spec(H))
    ctx.check(got == want, 'R04.2/rearranged-form', f2.construct('return'),
              "same mixture with genotype[H(h, j), j], H = haplotype_indices[h] inside the interval else h",
              f"log_likelihood_structural_change is not the mixture form of the rearranged genotype:\n   got  {show(got)[:800]}\n   want {show(want)[:800]}", f2.where())
    # structural_change itself
    f3 = ctx.func('mchap.jitutils.structural_change')
    r3 = ctx.recon(f3.qname)
    loops = [ev for ev in r3.events if ev.kind == 'loop_enter']
    outer = loops[0].data[0] if loops else None
    ok_iv = outer == intvl
    st_gen = [ev for ev in r3.events if ev.kind == 'store' and ev.data[0] == 'genotype']
    st_cache = [ev for ev in r3.events if ev.kind == 'store' and ev.data[0] != 'genotype']
    ok = ok_iv and len(st_cache) == 1 and len(st_gen) == 1
    if ok:
        c_idx, c_val = st_cache[0].data[1], st_cache[0].data[2]
        g_idx, g_val = st_gen[0].data[1], simplify(st_gen[0].data[2])
        # scratch[h] = genotype[h, j] ; genotype[h', j] = scratch[haplotype_indices[h']]  (j over the interval, h over range(ploidy))
        ok = c_idx[0] == 'loopvar' and c_idx[2] == rng(PLOIDY) and c_val[0] == 'idx' and c_val[2][0] == 'tuple' and c_val[2][1][0] == c_idx \
            and c_val[2][1][1][0] == 'loopvar' and c_val[2][1][1][2] == outer
        jj = c_val[2][1][1] if ok else None
        ok = ok and g_idx[0] == 'tuple' and g_idx[1][1] == jj and g_idx[1][0][0] == 'loopvar' and g_idx[1][0][2] == rng(PLOIDY) \
            and g_val[0] == 'idx' and g_val[2] == ('idx', ('param', 'haplotype_indices'), g_idx[1][0]) \
            and storage_root(ctx.prog, g_val[1]) == storage_root(ctx.prog, st_cache[0].data[3])
    ctx.check(ok, 'R04.2/structural-change', f3.construct('assignment'), "genotype'[h, j] = genotype[haplotype_indices[h], j] for j in the interval (all sites if None)",
              "structural_change no longer rearranges haplotypes as the structural likelihood assumes", f3.where())


def rule_delegation(ctx):
    f = ctx.func('mchap.calling.likelihood.log_likelihood_alleles')
    r = ctx.recon(f.qname)
    rets = [ev.data[0] for ev in r.events if ev.kind == 'return']
    want = mkcall(LL + 'log_likelihood', genotype=('idx', ('param', 'haplotypes'), ('param', 'genotype_alleles')), read_counts=('param', 'read_counts'), reads=('param', 'reads'))
    ctx.check(rets == [want], 'R04.3/delegation', f.construct('return'), "log_likelihood(reads, haplotypes[genotype_alleles], read_counts)",
              f"log_likelihood_alleles is {show(rets[0])[:160] if rets else None}", f.where())
    f = ctx.func('mchap.pedigree.likelihood.log_likelihood_alleles_cached')
    r = ctx.recon(f.qname)
    cs = [c for c, _, _ in r.calls if c[1] == LL + 'log_likelihood']
    idx = ('cmp', 'Gt', ('param', 'read_counts'), ('const', 0))
    want_kw = {'genotype': ('idx', ('param', 'haplotypes'), ('param', 'genotype_alleles')), 'reads': ('idx', ('param', 'reads'), idx), 'read_counts': ('idx', ('param', 'read_counts'), idx)}
    ok = len(cs) == 2 and all(kwargs(c) == want_kw for c in cs)
    ctx.check(ok, 'R04.3/delegation', f.construct('log_likelihood'), "log_likelihood(reads[counts>0], haplotypes[alleles], counts[counts>0]) on both arms",
              "pedigree wrapper no longer delegates to log_likelihood on the positively counted reads", f.where())


def run(ctx):
    rule_closed_form(ctx)
    rule_delegation(ctx)
