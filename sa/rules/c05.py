"""C05 (structural clauses): the prior functions reconstruct, as algebraic identities for all inputs,
to the documented closed forms: Dirichlet-multinomial log-pmf
  lgamma(n+1) + lgamma(A) - lgamma(n+A) + sum_{x_i>0} [lgamma(x_i+a_i) - lgamma(x_i+1) - lgamma(a_i)]
(assemble: a = exp(log_dispersion), A = a*U; call: a_i = alpha of the allele, A = sum alpha),
multinomial forms for inbreeding 0, dispersion alpha = frequency*(1-F)/F (flat: frequency = 1/U;
assemble: log alpha = log((1-F)/F) - log U), the single-allele conditional
  log(alpha_a + n_a(rest)) - log(sum alpha + n - 1)
(via lgamma(1+x)-lgamma(x) = log x), and ln_equivalent_permutations = lgamma(sum d + 1) - sum lgamma(d_i+1).
Not decided: numerical normalisation, behaviour at zero frequencies."""
from __future__ import annotations
from ..terms import mkcall, walk, show, simplify, alpha
from ..reduce import reductions
from ..norm import Normaliser, Lin, lgamma_rewrite
from ..kernels import collapse

NZ = Normaliser()


def P(n): return ('param', n)
def C(v): return ('const', v)
def call(q, *a, **k): return mkcall(q, *a, **k)
def add(a, b): return ('bin', 'Add', a, b)
def sub(a, b): return ('bin', 'Sub', a, b)
def mul(a, b): return ('bin', 'Mult', a, b)
def div(a, b): return ('bin', 'Div', a, b)
def lg(x): return call('math.lgamma', x)
def log(x): return call('numpy.log', x)
def idx(a, i): return ('idx', a, i)
def rng(n): return call('range', n)
def lv(name, n): return ('loopvar', name, rng(n))
def reduce_(op, init, guard, body): return ('reduce', op, init, guard, body)


def form(t, mode=None):
    t = reductions(simplify(t))          # recognise reductions before 'after' wrappers are stripped
    t = alpha(collapse(t, mode or {}))
    return lgamma_rewrite(NZ.N(t))


def returns_by_mode(ctx, fq, atoms):
    """{mode tuple: return term} using the path conditions of each return"""
    import itertools
    from ..kernels import truth
    r = ctx.recon(fq)
    rets = [ev for ev in r.events if ev.kind == 'return']
    out = {}
    for vals in itertools.product([True, False], repeat=len(atoms)):
        mode = dict(zip(atoms, vals))
        for ev in rets:
            ok = True
            for c, pol in ev.conds:
                tv = truth(collapse(c, mode), mode)
                if tv is not None and tv != pol:
                    ok = False
                if tv is None:
                    ok = ok
            if ok:
                out[vals] = (ev, mode)
                break
    return out


def compare(ctx, rule, f, name, got_term, want_term, mode=None, okmsg=""):
    g, w = form(got_term, mode), form(want_term, mode)
    ctx.check(g == w, rule, f.construct(name), okmsg or w.show()[:200],
              f"closed form differs from the documented formula:\n   got  {g.show()[:700]}\n   want {w.show()[:700]}", f.where())


def rule_dm_assemble(ctx):
    fq = 'mchap.assemble.prior.log_dirichlet_multinomial_pmf'
    f = ctx.func(fq)
    r = ctx.recon(fq)
    ret = [ev.data[0] for ev in r.events if ev.kind == 'return'][0]
    n = call('numpy.sum', P('dosage'))
    a = call('numpy.exp', P('log_dispersion'))
    A = call('numpy.exp', add(P('log_dispersion'), P('log_unique_haplotypes')))
    i = lv('i', call('len', P('dosage')))
    d = idx(P('dosage'), i)
    body = sub(lg(add(d, a)), add(lg(add(d, C(1))), lg(a)))
    want = add(sub(add(lg(add(n, C(1))), lg(A)), lg(add(n, A))), reduce_('Add', C(0.0), ('cmp', 'Gt', d, C(0)), body))
    compare(ctx, 'R05.1/dirichlet-multinomial', f, 'pmf', ret, want, okmsg="Dirichlet-multinomial log-pmf with a = exp(log_dispersion), A = a*U")
    fq = 'mchap.assemble.prior.log_genotype_prior'
    f = ctx.func(fq)
    modes = returns_by_mode(ctx, fq, ['(inbreeding == 0)'])
    null = call('mchap.assemble.prior.log_genotype_null_prior', P('dosage'), P('log_unique_haplotypes'))
    dm = call('mchap.assemble.prior.log_dirichlet_multinomial_pmf', P('dosage'), sub(log(div(sub(C(1), P('inbreeding')), P('inbreeding'))), P('log_unique_haplotypes')), P('log_unique_haplotypes'))
    compare(ctx, 'R05.2/dispersion', f, 'F=0', modes[(True,)][0].data[0], null, okmsg="inbreeding 0 -> multinomial null prior")
    compare(ctx, 'R05.2/dispersion', f, 'F>0', modes[(False,)][0].data[0], dm, okmsg="log alpha = log((1-F)/F) - log U")
    fq = 'mchap.assemble.prior.log_genotype_null_prior'
    f = ctx.func(fq)
    ret = [ev.data[0] for ev in ctx.recon(fq).events if ev.kind == 'return'][0]
    want = sub(call('mchap.jitutils.ln_equivalent_permutations', P('dosage')), mul(call('.sum', P('dosage')), P('log_unique_haplotypes')))
    compare(ctx, 'R05.1/multinomial', f, 'null prior', ret, want, okmsg="ln permutations - n * log U")


def rule_call_prior(ctx):
    fq = 'mchap.calling.prior.log_genotype_prior'
    f = ctx.func(fq)
    atoms = ['(inbreeding == 0)', '(frequencies is None)']
    modes = returns_by_mode(ctx, fq, atoms)
    g = P('genotype')
    U = P('unique_haplotypes')
    n = call('len', g)
    dos = call('mchap.calling.utils.allelic_dosage', g)
    perms = call('mchap.jitutils.ln_equivalent_permutations', dos)
    i = lv('i', n)
    # F = 0
    compare(ctx, 'R05.1/multinomial', f, 'F=0,flat', modes[(True, True)][0].data[0], sub(perms, mul(n, log(U))), modes[(True, True)][1], "ln permutations - n log U")
    # the log-frequencies are summed; log(prod f) underflows for many copies of a rare allele (defect X)
    lsum = reduce_('Add', C(0.0), None, log(idx(P('frequencies'), idx(g, i))))
    compare(ctx, 'R05.1/multinomial', f, 'F=0,frequencies', modes[(True, False)][0].data[0], add(perms, lsum), modes[(True, False)][1], "ln permutations + sum log f")
    # F > 0
    alphas = call('mchap.calling.prior.calculate_alphas', P('inbreeding'), P('frequencies'))
    aconst = call('mchap.calling.prior.calculate_alphas', P('inbreeding'), div(C(1), U))
    d = idx(dos, i)
    for key, a_i, A, nm in (((False, True), aconst, mul(aconst, U), 'F>0,flat'), ((False, False), idx(alphas, idx(g, i)), call('.sum', alphas), 'F>0,frequencies')):
        body = sub(lg(add(d, a_i)), add(lg(add(d, C(1))), lg(a_i)))
        want = add(sub(add(lg(add(n, C(1))), lg(A)), lg(add(n, A))), reduce_('Add', C(0.0), ('cmp', 'Gt', d, C(0)), body))
        compare(ctx, 'R05.1/dirichlet-multinomial', f, nm, modes[key][0].data[0], want, modes[key][1], "Dirichlet-multinomial log-pmf with per-allele alpha")
    # alphas
    fq = 'mchap.calling.prior.calculate_alphas'
    f2 = ctx.func(fq)
    ret = [ev.data[0] for ev in ctx.recon(fq).events if ev.kind == 'return'][0]
    compare(ctx, 'R05.2/dispersion', f2, 'alpha', ret, mul(P('frequencies'), div(sub(C(1), P('inbreeding')), P('inbreeding'))), okmsg="alpha = frequency * (1 - F) / F")


def rule_conditional(ctx):
    fq = 'mchap.calling.prior.log_genotype_allele_prior'
    f = ctx.func(fq)
    atoms = ['(inbreeding == 0)', '(frequencies is None)']
    modes = returns_by_mode(ctx, fq, atoms)
    g, v, U = P('genotype'), P('variable_allele'), P('unique_haplotypes')
    a = idx(g, v)
    compare(ctx, 'R05.3/conditional', f, 'F=0,flat', modes[(True, True)][0].data[0], log(div(C(1), U)), modes[(True, True)][1], "1/U")
    compare(ctx, 'R05.3/conditional', f, 'F=0,frequencies', modes[(True, False)][0].data[0], log(idx(P('frequencies'), a)), modes[(True, False)][1], "f_a")
    rest = sub(call('len', g), C(1))
    ibs = sub(call('mchap.calling.utils.count_allele', g, a), C(1))
    alphas = call('mchap.calling.prior.calculate_alphas', P('inbreeding'), P('frequencies'))
    aconst = call('mchap.calling.prior.calculate_alphas', P('inbreeding'), div(C(1), U))
    for key, a_a, A, nm in (((False, True), aconst, mul(aconst, U), 'F>0,flat'), ((False, False), idx(alphas, a), call('.sum', alphas), 'F>0,frequencies')):
        want = sub(log(add(a_a, ibs)), log(add(rest, A)))
        compare(ctx, 'R05.3/conditional', f, nm, modes[key][0].data[0], want, modes[key][1], "log(alpha_a + copies among the others) - log(sum alpha + n - 1)")


def rule_permutations(ctx):
    fq = 'mchap.jitutils.ln_equivalent_permutations'
    f = ctx.func(fq)
    ret = [ev.data[0] for ev in ctx.recon(fq).events if ev.kind == 'return'][0]
    i = lv('i', call('len', P('dosage')))
    want = sub(lg(add(call('numpy.sum', P('dosage')), C(1))), reduce_('Add', C(0.0), None, lg(add(idx(P('dosage'), i), C(1)))))
    compare(ctx, 'R05.4/permutations', f, 'ln multinomial coefficient', ret, want, okmsg="lgamma(sum d + 1) - sum lgamma(d_i + 1)")


def rule_no_log_of_product(ctx):
    """a prior is a product over the copies of a genotype: with the ploidy of a pooled sample (a hundred copies) and a rare allele the
    product leaves the floating point range although its logarithm is an ordinary number, so the prior functions must add logarithms and
    never take the logarithm of a product accumulated in a loop (defect X: log_genotype_prior without inbreeding returned -inf for 108
    copies of an allele of frequency 0.001, and the posterior mode of a pool moved)"""
    n = 0
    for fq in ('mchap.calling.prior.log_genotype_prior', 'mchap.calling.prior.log_genotype_allele_prior', 'mchap.assemble.prior.log_genotype_prior',
               'mchap.assemble.prior.log_dirichlet_multinomial_pmf', 'mchap.pedigree.prior.log_unknown_dosage_prior', 'mchap.pedigree.prior.log_unknown_const_prior'):
        if fq not in ctx.prog.funcs:
            continue
        f = ctx.func(fq)
        r = ctx.recon(fq)
        bad = []
        for ev in r.events:
            if ev.kind != 'return':
                continue
            t = reductions(ev.data[0])
            for x in walk(t):
                if x[0] == 'call' and x[1] in ('numpy.log', 'math.log') and any(y[0] == 'reduce' and y[1] == 'Mult' for y in walk(x[2][0])):
                    bad.append(x)
        n += 1
        ctx.check(not bad, 'R05.5/no-log-of-product', f.construct('log of a product'), "logarithms are added; no logarithm of a product accumulated over the copies",
                  "the logarithm of a product accumulated in a loop is returned: the product underflows to 0 (log = -inf) for many copies of a rare allele", f.where())
    ctx.minimum('R05.5', n, 3)


def run(ctx):
    rule_no_log_of_product(ctx)
    rule_dm_assemble(ctx)
    rule_call_prior(ctx)
    rule_conditional(ctx)
    rule_permutations(ctx)
