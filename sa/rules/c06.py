"""C06 (structural clauses): a read reaches the extraction arm iff it is mapped, MAPQ >= threshold and
not (duplicate & skip_duplicates) etc., each skip option being paired with its own pysam flag; each
read-filter CLI option reaches extract_read_variants under its own name (keep flags are store_false
on skip destinations); sample selection uses one predicate at header and read level; rows are keyed
by read name with the three-way mate merge; reference checks are must-pass-through and raise;
RCOUNT/SNVDP/DP/RCALLS and the inference tensor derive from the same concatenated read matrix and
pool members are concatenated before de-duplication. Not decided: pysam's alignment semantics."""
from __future__ import annotations
import ast
from ..terms import walk, show, simplify, mkcmp, path, positive, atoms
from ..kernels import kwargs, storage_root
from ..pat import find_all, find, has, count

BAM = 'mchap.io.bam.extract_read_variants'
ENC = 'mchap.application.baseclass.program.encode_sample_reads'
FMT = 'mchap.io.vcf.formatfields.'
PAIR = {'skip_duplicates': 'is_duplicate', 'skip_qcfail': 'is_qcfail', 'skip_supplementary': 'is_supplementary'}


def fetch_loop(ctx, r):
    """(read loop variable term, in-loop marker) of the loop over alignment_file.fetch(...)"""
    for ev in r.events:
        if ev.kind == 'loop_enter' and ev.data[0][0] == 'call' and ev.data[0][1].endswith('.fetch'):
            names = ev.data[1]
            ctx.need(len(names) == 1, f"{BAM}: fetch loop with one target expected")
            return ('loopvar', names[0], ev.data[0]), ev.node.lineno
    ctx.need(False, f"{BAM}: loop over alignment_file.fetch not found")


def read_attr(read, a):
    return ('attr', read, a)


def classify_filter(read, c, pol):
    """which of the five documented filters a path-condition atom is, and whether it has the documented sense"""
    if c == read_attr(read, 'is_unmapped'):
        return 'unmapped', pol is False
    mq, mn = read_attr(read, 'mapping_quality'), ('param', 'min_quality')
    if c[0] == 'cmp' and {c[2], c[3]} == {mq, mn}:
        keep_if_true = c in (mkcmp('GtE', mq, mn), mkcmp('LtE', mn, mq))
        skip_if_true = c in (mkcmp('Lt', mq, mn), mkcmp('Gt', mn, mq))
        return 'mapq', (keep_if_true and pol is True) or (skip_if_true and pol is False)
    if c[0] == 'bool' and c[1] == 'And':
        ops = {c[2], c[3]}
        for opt, flag in PAIR.items():
            if ('param', opt) in ops or read_attr(read, flag) in ops:
                return opt, ops == {('param', opt), read_attr(read, flag)} and pol is False
    if any(x in (read_attr(read, a) for a in ('is_unmapped', 'mapping_quality', 'is_duplicate', 'is_qcfail', 'is_supplementary', 'is_secondary', 'flag'))
           or (x[0] == 'param' and x[1] in (*PAIR, 'min_quality')) for x in walk(c) if isinstance(x, tuple) and x):
        return 'other:' + show(c)[:60], False
    return None, True


def rule_cascade(ctx):
    f = ctx.func(BAM)
    r = ctx.recon(BAM)
    read, marker = fetch_loop(ctx, r)
    effects = [ev for ev in r.events if ev.kind in ('store', 'deepstore', 'attrstore', 'raise', 'augname') and path(ev, marker) is not None]
    ctx.need(len(effects) >= 5, f"{BAM}: no effects found inside the fetch loop")
    # every effect inside the fetch loop happens under the same five filter decisions
    first = None
    for ev in effects:
        got = {}
        for c, pol in sorted(atoms(path(ev, marker)), key=lambda cp: show(cp[0])):       # `if a: skip` `elif b: skip` or `if a or b: skip`: the same filters
            kind, ok = classify_filter(read, c, pol)
            if kind is not None:
                got[kind] = (ok, show(c), pol)
        if first is None:
            first = got
            for kind, (ok, txt, pol) in sorted(got.items()):
                con = f.construct(f"filter:{kind.split(':')[0]}")
                if kind.startswith('other:'):
                    ctx.violation('R06.1/cascade', con, f"unexpected read filter `{txt}` (the property lists unmapped, MAPQ, duplicate, QC-fail, supplementary)", f.where(ev.node))
                elif kind == 'mapq':
                    ctx.check(ok, 'R06.1/cascade', con, "kept iff MAPQ >= min_quality", f"MAPQ filter keeps a read when `{txt}` is {pol}; reads with MAPQ equal to the threshold must be kept and lower ones skipped", f.where(ev.node))
                elif kind == 'unmapped':
                    ctx.check(ok, 'R06.1/cascade', con, "unmapped reads skipped", f"a read is used when `{txt}` is {pol}", f.where(ev.node))
                else:
                    ctx.check(ok, 'R06.1/cascade', con, f"skipped iff {PAIR[kind]} and {kind}", f"filter `{txt}` does not pair the option {kind} with its own flag {PAIR[kind]} (read used when it is {pol})", f.where(ev.node))
            missing = {'unmapped', 'mapq', *PAIR} - set(got)
            ctx.check(not missing, 'R06.1/cascade-complete', f.construct('filters'), "all five filters guard the extraction", f"filters missing on the path to the extraction: {sorted(missing)}", f.where(ev.node))
        elif set(got) != set(first) or any(got[k][0] != first[k][0] for k in got):
            ctx.violation('R06.1/cascade', f.construct('filter:bypass'), f"an effect inside the fetch loop is reached under different filters ({sorted(got)}) than the first ({sorted(first)})", f.where(ev.node))
            break


def rule_threading(ctx):
    f = ctx.func(ENC)
    r = ctx.recon(ENC)
    calls = [(c, n) for c, _, n in r.calls if c[1] == BAM]
    ctx.need(len(calls) == 1, f"{ENC}: one extract_read_variants call expected")
    kw = kwargs(calls[0][0])
    want = {'id': 'read_group_field', 'min_quality': 'mapping_quality', 'skip_duplicates': 'skip_duplicates',
            'skip_qcfail': 'skip_qcfail', 'skip_supplementary': 'skip_supplementary'}
    for k, fld in want.items():
        ctx.check(kw.get(k) == ('attr', ('param', 'self'), fld), 'R06.2/threading', f.construct(f"extract_read_variants({k}=)"), f"{k} <- self.{fld}",
                  f"extract_read_variants receives {k}={show(kw.get(k)) if kw.get(k) else 'default'} instead of self.{fld}", f.where(calls[0][1]))
    g = ctx.func('mchap.application.arguments.collect_default_program_arguments')
    src = ast.unparse(g.node)
    for fld, expr in (('read_group_field', 'arguments.read_group_field[0]'), ('mapping_quality', 'arguments.mapping_quality[0]'),
                      ('skip_duplicates', 'arguments.skip_duplicates'), ('skip_qcfail', 'arguments.skip_qcfail'), ('skip_supplementary', 'arguments.skip_supplementary')):
        ctx.check(f"{fld}={expr}" in src, 'R06.2/threading', g.construct(fld), f"{fld} <- {expr}", f"program field {fld} is not filled from {expr}", g.where())
    # keep flags: store_false on the matching skip destination, and present in every program's argument list
    m = ctx.prog.modules['mchap.application.arguments']
    for var, flag in (('skip_duplicates', '--keep-duplicate-reads'), ('skip_qcfail', '--keep-qcfail-reads'), ('skip_supplementary', '--keep-supplementary-reads')):
        node = m.consts.get(var)
        ctx.need(isinstance(node, ast.Call), f"arguments.{var} not found")
        txt = ast.unparse(node)
        ok = repr(flag) in txt and f"dest='{var}'" in txt and "action='store_false'" in txt and ast.unparse(node.func) == 'BooleanFlag'
        ctx.check(ok, 'R06.2/flag-polarity', f"mchap/application/arguments.py::{var}", f"{flag}: store_false on {var}",
                  f"{flag} must be a store_false flag on destination {var} (giving the flag keeps the reads)", f"mchap/application/arguments.py:{node.lineno}")
    dflt = ast.unparse(m.consts.get('DEFAULT_PARSER_ARGUMENTS'))
    for var in ('mapping_quality', 'skip_duplicates', 'skip_qcfail', 'skip_supplementary', 'read_group_field'):
        ctx.check(var in dflt, 'R06.2/threading', f"mchap/application/arguments.py::DEFAULT_PARSER_ARGUMENTS[{var}]", "option registered for all calling programs",
                  f"{var} is not registered on the shared parser argument list")


def merge_facts(ctx):
    """stores of read bases into the per-read character row, with their path conditions relative to the fetch loop"""
    r = ctx.recon(BAM)
    read, marker = fetch_loop(ctx, r)
    qname = read_attr(read, 'qname')
    rows = [ev for ev in r.events if ev.kind == 'store' and ev.data[1] == qname and path(ev, marker) is not None]
    seq = read_attr(read, 'seq')
    base_stores = [ev for ev in r.events if ev.kind == 'store' and path(ev, marker) is not None and ev.data[2][0] == 'idx' and ev.data[2][1] == seq]
    return r, read, marker, qname, rows, base_stores


def rule_rows(ctx):
    f = ctx.func(BAM)
    r, read, marker, qname, rows, base_stores = merge_facts(ctx)
    rv = read[1]
    # one row per read name: created under `qname not in rows`, otherwise the existing row is continued
    ok = len(rows) == 1
    if ok:
        member = [(c, pol) for c, pol in path(rows[0], marker) if c[0] == 'cmp' and c[1] == 'In' and c[2] == qname]
        ok = len(member) == 1 and member[0][1] is False
        if ok:
            table = member[0][0][3]
            # the row continued on the other arm is table[qname]
            reuse = [ev for ev in r.events if ev.kind == 'assign' and path(ev, marker) is not None and (member[0][0], True) in path(ev, marker)
                     and any(y == ('idx', table, qname) for y in walk(ev.data[1]))]
            ok = len(reuse) >= 1
    ctx.check(ok, 'R06.4/row-per-qname', f.construct('rows'), "one row per read name; mates reuse the row", "rows are not keyed by read name (mates would no longer merge)", f.where())
    # three-way merge on the cell: gap -> take the base; same base -> keep; different base -> 'N'
    ctx.need(len(base_stores) == 1, f"{BAM}: store of the read base not found")
    take = base_stores[0]
    root, cell, base = take.data[0], take.data[1], take.data[2]
    cur = None
    for c, pol in path(take, marker):
        if c[0] == 'cmp' and c[1] == 'Eq' and ('const', '-') in (c[2], c[3]):
            other = c[2] if c[3] == ('const', '-') else c[3]
            if other[0] == 'idx' and other[2] == cell:
                cur = other
    ctx.need(cur is not None, f"{BAM}: gap test of the mate merge not found")
    gap, same = mkcmp('Eq', cur, ('const', '-')), mkcmp('Eq', base, cur)
    prefix = [cp for cp in path(take, marker) if cp[0] not in (gap, same)]
    cell_stores = [ev for ev in r.events if ev.kind == 'store' and ev.data[0] == root and ev.data[1] == cell and path(ev, marker) is not None]
    outcome = {}
    recognised = True
    for g in (True, False):
        for sm in (True, False):
            fired = []
            for ev in cell_stores:
                extra = [cp for cp in path(ev, marker) if cp not in prefix]
                if any(c not in (gap, same) for c, _ in extra):
                    recognised = False
                if all((g if c == gap else sm) == pol for c, pol in extra if c in (gap, same)):
                    fired.append(ev.data[2])
            outcome[(g, sm)] = fired[-1] if fired else None
    good = recognised and outcome[(True, True)] == base and outcome[(True, False)] == base and outcome[(False, True)] in (None, cur) and outcome[(False, False)] == ('const', 'N')
    ctx.check(good, 'R06.4/mate-merge', f.construct('merge'), "gap -> take; same base -> keep; different -> 'N' (no call)",
              "mate merge is not {first call taken, agreeing call kept, disagreeing call -> N}: " +
              "; ".join(f"gap={g},same={sm} -> {show(v) if v else 'unchanged'}" for (g, sm), v in sorted(outcome.items(), reverse=True)), f.where(take.node))
    g = ctx.func('mchap.encoding.character.transcode.as_allelic')
    ok = has(g.node, "_a = alleles[_i].get(_s, -1)") or has(g.node, "alleles[_i].get(_s, -1)")
    ctx.check(ok, 'R06.4/unlisted-is-gap', g.construct('lookup'), "unlisted bases encode to -1", "bases that are not listed alleles no longer encode to -1", g.where())
    # sample selection predicate identical at header and read level
    preds = [ast.unparse(n.test) for n in ast.walk(f.node) if isinstance(n, ast.If) and has(n.test, "samples and _k not in samples")]
    ctx.check(len(preds) == 2 and len(set(preds)) == 1, 'R06.3/sample-predicate', f.construct('samples'), f"same predicate `{preds[0] if preds else None}` at header and read level",
              f"header-level and read-level sample tests differ: {preds}", f.where())
    n1, b1 = find(f.node, "_map[_d['ID']] = _key")
    ok = n1 is not None and has(f.node, f"{b1['_key']} = {b1['_d']}[id]") and has(f.node, f"{b1['_key']} = {b1['_map']}[{rv}.get_tag('RG')]")
    ctx.check(ok, 'R06.3/read-group-map', f.construct('sample_keys'), "reads mapped to samples through RG ID -> chosen field", "read group to sample mapping changed", f.where())


def rule_reference(ctx):
    L = 'mchap.io.loci.Locus.'
    for meth, attr in (('set_sequence', 'variants'), ('set_variants', 'sequence')):
        f = ctx.func(L + meth)
        ok = False
        lv = None
        for n in ast.walk(f.node):
            if isinstance(n, ast.If):
                bb = {}
                from ..pat import match, compile_pattern
                if match(compile_pattern(f"_loc.{attr}").value, n.test, bb) and has(n, f"{bb['_loc']}.validate_reference_alleles()"):
                    ok, lv = True, bb['_loc']
        rets = [n for n in ast.walk(f.node) if isinstance(n, ast.Return)]
        ok = ok and len(rets) == 1 and ast.unparse(rets[0].value) == lv
        ctx.check(ok, 'R06.5/validate', f.construct('validate'), f"validated whenever .{attr} is set", f"{meth} can return a locus with both sequence and variants without validating the reference alleles", f.where())
    f = ctx.func(L + 'validate_reference_alleles')
    raises = [n for n in ast.walk(f.node) if isinstance(n, ast.Raise)]
    cmp_ = [n for n in ast.walk(f.node) if isinstance(n, ast.If) and has(n.test, "_a != _b") and isinstance(n.test, ast.Compare)]
    ctx.check(len(raises) == 1 and len(cmp_) == 1 and raises[0] in list(ast.walk(cmp_[0])), 'R06.5/validate', f.construct('raise'), "mismatch raises ValueError",
              "reference mismatch no longer raises", f.where())
    a = ctx.func('mchap.application.assemble.program.loci')
    n_chain = count(a.node, "_b.set_sequence(self.ref).set_variants(self.vcf)")
    ctx.check(n_chain == 2, 'R06.5/validate', a.construct('chain'), "every locus gets sequence then variants (validated)",
              "assemble no longer builds loci through set_sequence(...).set_variants(...)", a.where())
    f = ctx.func(BAM)
    r, read, marker, qname, rows, base_stores = merge_facts(ctx)
    raises = [ev for ev in r.events if ev.kind == 'raise' and path(ev, marker) is not None]
    ok = len(raises) == 1 and len(base_stores) >= 1
    if ok:
        mism = [(c, pol) for c, pol in path(raises[0], marker) if c[0] == 'cmp' and c[1] == 'Eq' and all(x[0] == 'call' and x[1] == '.upper' for x in (c[2], c[3]))]
        ok = len(mism) == 1 and mism[0][1] is False and any('alleles' in show(x) for x in (mism[0][0][2], mism[0][0][3]))
        # every use of a read base lies on the path where the comparison succeeded
        ok = ok and all((mism[0][0], True) in path(ev, marker) for ev in base_stores)
    ctx.check(ok, 'R06.5/alignment-reference', f.construct('ref_char'), "alignment reference base compared (and raising) before the read base is used",
              "a read base can be used without the alignment reference base having been checked", f.where())


def rule_statistics(ctx):
    f = ctx.func(ENC)
    r = ctx.recon(ENC)
    stores = {}
    for ev in r.events:
        if ev.kind == 'deepstore' and ev.data[0][0] == 'idx' and ev.data[0][2][0] == 'name':
            stores[ev.data[0][2][1].split('.')[-1]] = simplify(ev.data[2])
    attr = {}
    for ev in r.events:
        if ev.kind == 'deepstore' and ev.data[0][0] == 'attr' and ev.data[0][2] in ('read_dists', 'read_counts', 'read_calls'):
            attr[ev.data[0][2]] = simplify(ev.data[2])
    ctx.need({'RCOUNT', 'DP', 'SNVDP', 'RCALLS'} <= set(stores) and {'read_dists', 'read_counts', 'read_calls'} <= set(attr), f"{ENC}: statistic stores not found")
    # read_chars after pooling = phi(len(pairs) > 0, concatenate(list), empty)
    rc = stores['RCOUNT']
    ok = rc[0] == 'idx' and rc[1][0] == 'attr' and rc[1][2] == 'shape' and rc[2] == ('const', 0)
    CH = rc[1][1] if ok else None
    ok = ok and CH[0] == 'phi' and any(arm[0] == 'call' and arm[1] == 'numpy.concatenate' for arm in (CH[2], CH[3]))
    ctx.check(ok, 'R06.6/rcount', f.construct('RCOUNT'), "RCOUNT = rows of the concatenated read matrix", f"RCOUNT is {show(rc)[:100]}", f.where())
    def mentions(t, x):
        return any(y == x for y in walk(t))
    calls = attr['read_calls']
    ok = CH is not None and calls[0] == 'call' and calls[1] == 'mchap.io.bam.encode_read_alleles' and calls[2][1] == CH
    ctx.check(ok, 'R06.6/same-source', f.construct('read_calls'), "allele calls encoded from the same matrix", "allele calls are not encoded from the matrix RCOUNT is counted on", f.where())
    ok = CH is not None and mentions(stores['SNVDP'], CH) and 'character.sequence.depth' in show(stores['SNVDP'], short=False) and mentions(stores['DP'], CH)
    ctx.check(ok, 'R06.6/same-source', f.construct('SNVDP/DP'), "SNVDP/DP = depth of the same matrix", "SNVDP/DP do not derive from the read matrix", f.where())
    ok = stores['RCALLS'] == ('call', 'numpy.sum', (('cmp', 'GtE', calls, ('const', 0)),), (), None)
    ctx.check(ok, 'R06.6/same-source', f.construct('RCALLS'), "RCALLS = number of non-gap calls", f"RCALLS is {show(stores['RCALLS'])[:100]}", f.where())
    d, c = attr['read_dists'], attr['read_counts']
    ok = d[0] == 'proj' and c[0] == 'proj' and d[2] == c[2] and d[2][0] == 'call' and d[2][1] == 'mchap.mset.unique_counts' and len(d[2][2]) == 1 \
        and d[2][2][0][0] == 'call' and d[2][2][0][1] == 'mchap.io.bam.encode_read_distributions' and d[2][2][0][2][1] == calls
    ctx.check(ok, 'R06.6/dedup-after-pool', f.construct('unique_counts'), "tensor = unique_counts(distributions of the pooled calls)",
              "de-duplication is not applied to the pooled, encoded read matrix", f.where())
    # one extract per (member, path), restricted to that member
    calls_ = [(cc, n) for cc, _, n in r.calls if cc[1] == BAM]
    kw = kwargs(calls_[0][0])
    ok = kw.get('samples', ('?',))[0] == 'loopvar'
    loopb = [n for n in ast.walk(f.node) if isinstance(n, ast.For) and isinstance(n.target, ast.Tuple) and len(n.target.elts) == 2
             and has(n, 'extract_read_variants')]
    ok = ok and len(loopb) == 1
    if ok:
        nm = loopb[0].target.elts[0].id
        n_ex, b_ex = find(loopb[0], f"_c, _q = extract_read_variants(_A, alignment_file=_B, samples={nm}, id=_C, min_quality=_D, skip_duplicates=_E, skip_qcfail=_F, skip_supplementary=_G)[{nm}]")
        # the character matrix of this member (first element of the pair) is what joins the pool
        ok = n_ex is not None and has(loopb[0], f"_lst.append({b_ex['_c']})")
        if ok:
            lst = find(loopb[0], f"_lst.append({b_ex['_c']})")[1]['_lst']
            ok = has(f.node, f"_m = np.concatenate({lst})") or has(f.node, f"np.concatenate({lst})")
    ctx.check(ok, 'R06.3/pool-member', f.construct('pairs'), "each (member, bam) pair contributes exactly its own reads", "pool members are not extracted one (name, path) pair at a time", f.where())


def run(ctx):
    rule_cascade(ctx)
    rule_threading(ctx)
    rule_rows(ctx)
    rule_reference(ctx)
    rule_statistics(ctx)
