"""C07 (structural clauses): every array stored into a FORMAT/INFO field whose declared Number is
A, R or G has, on every feasible path, the size implied by the record's own allele count
(R = len(ALT)+1, A = R-1, G = C(R+ploidy-1, ploidy)) or is the one-element missing placeholder;
record keys come from the lists the header prints; FILTER ids are declared; AC/AN/UAN/NS derive from
the GT arrays through one count vector of R entries; INFO DP/ACP/AFP/RCOUNT are the stated aggregates of the FORMAT values;
GP is filled at the G-index of the sorted labels for called genotypes only; POS/END/SNVPOS/REF derive from the locus. Decided by size-term evaluation with
inlining of the repo's classes under guard modes. Not decided: byte-level validity, values."""
from __future__ import annotations
import ast
import itertools
from ..terms import path, mkbin, mkcmp, walk, show, simplify, subst
from ..kernels import storage_root, collapse, truth, kwargs, guard_atoms
from ..sizes import SizeEval, norm_size, Obj
from ..pat import has, find, find_all

FMT = 'mchap.io.vcf.formatfields.'
INF = 'mchap.io.vcf.infofields.'
COL = 'mchap.io.vcf.columns.'
PROGRAMS = {
    'assemble': 'mchap.application.assemble.program.call_sample_genotypes',
    'call': 'mchap.application.call.program.call_sample_genotypes',
    'call-exact': 'mchap.application.call_exact.program.call_sample_genotypes',
    'call-pedigree': 'mchap.application.call_pedigree.program.call_sample_genotypes',
}
LOCUS_CLASS = {'assemble': 'mchap.application.assemble.program.loci'}


def field_numbers(ctx):
    out = {}
    for modname, prefix in (('mchap.io.vcf.formatfields', FMT), ('mchap.io.vcf.infofields', INF)):
        m = ctx.prog.modules.get(modname)
        ctx.need(m is not None, f"anchor vanished: module {modname}")
        for name, node in m.consts.items():
            if isinstance(node, ast.Call) and ast.unparse(node.func) in ('FormatField', 'InfoField'):
                kw = {k.arg: k.value for k in node.keywords}
                num = kw.get('number')
                if isinstance(num, ast.Constant):
                    out[prefix + name] = num.value
    ctx.need(len(out) >= 40, f"only {len(out)} field declarations found")
    return out


def stores_of(r):
    """(kind, field_qname, value, conds, node) for data.sampledata[F][sample] / data.infodata[F] / data.columndata[C]"""
    out = []
    for ev in r.events:
        if ev.kind != 'deepstore':
            continue
        base, idx, val, text = ev.data
        if base[0] == 'idx' and base[1] == ('attr', ('param', 'data'), 'sampledata') and base[2][0] == 'name':
            out.append(('sample', base[2][1], val, ev.conds, ev.node))
        elif base == ('attr', ('param', 'data'), 'infodata') and idx[0] == 'name':
            out.append(('info', idx[1], val, ev.conds, ev.node))
        elif base == ('attr', ('param', 'data'), 'columndata') and idx[0] == 'name':
            out.append(('column', idx[1], val, ev.conds, ev.node))
    return out


class LocusSizeEval(SizeEval):
    """SizeEval that knows the class of `data.locus` for the analysed program"""

    def __init__(self, ctx, locus_cls):
        super().__init__(ctx)
        self.locus_cls = locus_cls

    def resolve_obj(self, t, mode, depth=0):
        t2 = t
        if t2 == ('attr', ('param', 'data'), 'locus'):
            c = self.prog.classes[self.locus_cls]
            return Obj(self.locus_cls, {f: ('attr', t2, f) for f in self.prog.all_fields(c)})
        return super().resolve_obj(t, mode, depth)

    def _size(self, t, mode, depth=0):
        t2 = t
        # method on data.locus whose receiver class is known although the call was not resolvable syntactically
        if t2[0] == 'call' and t2[1].startswith('.') and t2[2] and collapse(t2[2][0], mode) == ('attr', ('param', 'data'), 'locus'):
            m = self.prog.find_method(self.prog.classes[self.locus_cls], t2[1][1:])
            if m is not None:
                return super()._size(('call', m.qname, t2[2], t2[3], None), mode, depth)
        if t2[0] == 'bin' and t2[1] == 'Add' and (t2[2][0] in ('tuple', 'list') or t2[3][0] in ('tuple', 'list')):
            a, b = self.size(t2[2], mode, depth + 1), self.size(t2[3], mode, depth + 1)
            if a[0] == 'const':
                return ('add', b, a[1])
            if b[0] == 'const':
                return ('add', a, b[1])
        if t2[0] == 'comp':
            return self.size(t2[3][0], mode, depth + 1)
        if t2[0] == 'call' and t2[1] in SHAPE_PRESERVING and t2[2]:
            return self.size(t2[2][0], mode, depth + 1)
        return super()._size(t2, mode, depth)


SHAPE_PRESERVING = {
    'mchap.encoding.integer.transcode.as_characters',
    'mchap.encoding.character.transcode.as_allelic',
    'list',
}


def check_shape_preserving(ctx):
    for q in sorted(SHAPE_PRESERVING - {'list'}):
        f = ctx.func(q)
        rets = [n for n in ast.walk(f.node) if isinstance(n, ast.Return) and n.value is not None]
        good = bool(rets) and any('reshape(' in ast.unparse(n.value) and ('array.shape' in ast.unparse(n.value) or 'shape' in ast.unparse(n.value)) for n in rets)
        ctx.check(good, 'R07.1/shape-summary', f.construct('return'), "returns an array reshaped to the input's shape",
                  "helper assumed shape-preserving no longer reshapes to its input's shape", f.where())


def locus_class(ctx, prog_key, fq):
    f = ctx.func(fq)
    loci = ctx.prog.find_method(ctx.prog.classes[f.cls], 'loci')
    ctx.need(loci is not None, f"{f.cls}: no loci() method")
    cs = ctx.prog.return_classes(loci.qname)
    ctx.need(len(cs) == 1, f"{loci.qname}: cannot determine the locus class ({cs})")
    return next(iter(cs))


def equal_sizes(a, b, aliases):
    a, b = norm_size(a), norm_size(b)
    if a == b:
        return True
    def ap(s):
        if s in aliases:
            return aliases[s]
        if s[0] == 'add':
            inner = ap(s[1])
            if inner[0] == 'const':
                return ('const', inner[1] + s[2])
            return ('add', inner, s[2])
        if s[0] == 'G':
            return ('G', ap(s[1]), s[2])
        return s
    return norm_size(ap(a)) == norm_size(ap(b))


def rule_cardinality(ctx):
    numbers = field_numbers(ctx)
    check_shape_preserving(ctx)
    n_sinks = 0
    for key, fq in PROGRAMS.items():
        f = ctx.func(fq)
        r = ctx.recon(fq)
        se = LocusSizeEval(ctx, locus_class(ctx, key, fq))
        st = stores_of(r)
        alts = [s for s in st if s[0] == 'column' and s[1] == COL + 'ALT']
        ctx.need(len(alts) == 1, f"{fq}: expected exactly one store of the ALT column, found {len(alts)}")
        alt_val = collapse(alts[0][2], {})
        st = [(a, b, collapse(c, {}), d, e) for a, b, c, d, e in st]
        sinks = [s for s in st if s[0] in ('sample', 'info') and numbers.get(s[1]) in ('A', 'R', 'G')]
        # guard atoms: phi conditions inside the relevant terms
        atoms = guard_atoms([alt_val] + [s[2] for s in sinks])
        atoms = atoms[:8]
        for kind, field, val, conds, node in sinks:
            n_sinks += 1
            num = numbers[field]
            fname = field.split('.')[-1]
            con = f.construct(ctx.ordinal(f.qname, f"{'FORMAT' if kind == 'sample' else 'INFO'}.{fname}"))
            problems = []
            seen_sizes = set()
            for vals in itertools.product([True, False], repeat=len(atoms)):
                mode = dict(zip(atoms, vals))
                feasible = True
                for c, pol in conds:
                    if isinstance(c, tuple) and c and c[0] in ('inloop', 'handler'):
                        continue
                    tv = truth(collapse(c, mode), mode)
                    if tv is not None and tv != pol:
                        feasible = False
                        break
                if not feasible:
                    continue
                aliases = {}
                if se.locus_cls.endswith('LocusPrior'):
                    # class invariant of LocusPrior (established where it is constructed, rule R12.3)
                    aliases[('len', 'data.locus.frequencies')] = ('add', ('len', 'data.locus.alts'), 1)
                for a, v in mode.items():
                    # not (len(X) > 1)  ==> len(X) == 1 for a non-empty X
                    if a.startswith('(len(') and a.endswith(') > 1)') and v is False:
                        aliases[('len', a[len('(len('):-len(') > 1)')])] = ('const', 1)
                R = norm_size(('add', se.size(alt_val, mode), 1))
                got = norm_size(se.size(val, mode))
                seen_sizes.add(repr(got))
                if got == ('const', 1) and _is_nan_placeholder(collapse(val, mode)):
                    continue
                want = {'R': R, 'A': norm_size(('add', R, -1)), 'G': ('G', R, None)}[num]
                if num == 'G':
                    ok = got[0] == 'G' and equal_sizes(got[1], R, aliases)
                else:
                    ok = equal_sizes(got, want, aliases)
                if not ok:
                    problems.append(f"mode {_mode_txt(mode)}: size {_sz(got)} but Number={num} needs {_sz(want)}")
            ctx.check(not problems, 'R07.1/cardinality', con, f"Number={num}: size = {', '.join(sorted(seen_sizes))[:160]}",
                      "; ".join(sorted(set(problems)))[:600], f.where(node))
    # baseclass INFO sinks
    fq = 'mchap.application.baseclass.program.sumarise_vcf_record'
    f = ctx.func(fq)
    r = ctx.recon(fq)
    se = SizeEval(ctx)
    ALT = ('idx', ('attr', ('param', 'data'), 'columndata'), ('name', COL + 'ALT'))
    R = ('add', ('len', show(ALT)), 1)
    for kind, field, val, conds, node in stores_of(r):
        num = numbers.get(field)
        if kind != 'info' or num not in ('A', 'R'):
            continue
        n_sinks += 1
        fname = field.split('.')[-1]
        con = f.construct(ctx.ordinal(f.qname, f"INFO.{fname}"))
        v = collapse(val, {})
        got = norm_size(se.size(v, {}))
        want = norm_size(R if num == 'R' else ('add', R, -1))
        ok = got == want
        if not ok and got[0] == 'join':
            ok = all(x == want or _sums_sample_field(x) for x in got[1:])
        if not ok:
            ok = _sums_sample_field(got)
        ctx.check(ok, 'R07.1/cardinality', con, f"Number={num}: {_sz(got)}", f"size {_sz(got)} but Number={num} needs {_sz(want)}", f.where(node))
    ctx.minimum('R07.1', n_sinks, 40)


def _sums_sample_field(sz):
    """INFO value computed as the element-wise sum of the per-sample vectors of the same record"""
    return sz[0] in ('len', '?') and 'sampledata' in repr(sz) and 'sum(' in repr(sz)


def _is_nan_placeholder(v):
    return v[0] == 'call' and v[1] == 'numpy.array' and v[2] and v[2][0] == ('list', (('name', 'numpy.nan'),))


def _mode_txt(mode):
    return "{" + ", ".join(f"{k[:40]}={'T' if v else 'F'}" for k, v in mode.items()) + "}"


def _sz(s):
    if s[0] == 'len':
        return f"len({s[1]})"
    if s[0] == 'add':
        return f"{_sz(s[1])}{s[2]:+d}"
    if s[0] == 'G':
        return f"G({_sz(s[1])}, ploidy)"
    if s[0] == 'const':
        return str(s[1])
    if s[0] == 'max+1':
        return f"max({s[1][:60]})+1"
    if s[0] == 'join':
        return " | ".join(_sz(x) for x in s[1:])
    return repr(s)[:120]


# ------------------------------------------------------------------------------------------ other clauses
def rule_declared(ctx):
    base = 'mchap.application.baseclass.'
    f = ctx.func(base + 'LocusAssemblyData.format_vcf_record')
    ok = has(f.node, "{_f.id: self.infodata[_f] for _f in self.infofields}") and has(f.node, "{_f.id: self._sampledata_as_list(_f) for _f in self.formatfields}")
    ctx.check(ok, 'R07.2/keys-from-header-lists', f.construct('keys'), "record keys iterate the record's infofields/formatfields",
              "record keys no longer come from the program's field lists", f.where())
    f = ctx.func(base + 'program._locus_data')
    r = ctx.recon(f.qname)
    ctor = [c for c, _, _ in r.calls if c[1] == base + 'LocusAssemblyData']
    ok = len(ctor) == 1 and kwargs(ctor[0]).get('infofields') == ('call', '.copy', (('attr', ('param', 'self'), 'info_fields'),), (), None) \
        and kwargs(ctor[0]).get('formatfields') == ('call', '.copy', (('attr', ('param', 'self'), 'format_fields'),), (), None)
    ctx.check(ok, 'R07.2/keys-from-header-lists', f.construct('LocusAssemblyData'), "record field lists are copies of the header's lists",
              "record field lists are not the lists printed in the header", f.where())
    f = ctx.func(base + 'program.header')
    src = ast.unparse(f.node)
    ok = 'self.info_fields' in src and 'self.format_fields' in src and all(x in src for x in ('filters.PASS', 'filters.NOA', 'filters.AF0'))
    ctx.check(ok, 'R07.2/header', f.construct('header'), "header prints info_fields, format_fields and the three filters", "header no longer prints the field lists / filters", f.where())
    # every FILTER id appended anywhere is one of the declared filters
    declared = {'mchap.io.vcf.filters.PASS', 'mchap.io.vcf.filters.NOA', 'mchap.io.vcf.filters.AF0'}
    n = 0
    for fq, fn in ctx.prog.funcs.items():
        if not fq.startswith('mchap.application.'):
            continue
        for node in ast.walk(fn.node):
            if isinstance(node, ast.Call) and isinstance(node.func, ast.Attribute) and node.func.attr == 'append' \
                    and 'columndata[COLUMN.FILTER]' in ast.unparse(node.func.value):
                n += 1
                arg = ast.unparse(node.args[0])
                q = ctx.prog.resolve_name(fn.module, arg.rsplit('.id', 1)[0]) if arg.endswith('.id') else None
                ctx.check(q in declared, 'R07.2/filters', fn.construct(ctx.ordinal(fn.qname, "FILTER.append")), f"appends {arg}",
                          f"FILTER receives {arg}, which is not a filter declared in the header", fn.where(node))
    ctx.minimum('R07.2/filters', n, 7)


def rule_summaries(ctx):
    fq = 'mchap.application.baseclass.program.sumarise_vcf_record'
    f = ctx.func(fq)
    r = ctx.recon(fq)
    st = {s[1].split('.')[-1]: s for s in stores_of(r) if s[0] in ('info', 'column')}
    def derived(name, pred, okmsg, badmsg):
        s = st.get(name)
        ctx.check(s is not None and pred(simplify(s[2])), 'R07.3/derivation', f.construct(name), okmsg, badmsg + (f": {show(s[2])[:120]}" if s else " (no store)"), f.where(s[4]) if s else f.where())
    locus = ('attr', ('param', 'data'), 'locus')
    derived('POS', lambda v: v == ('bin', 'Add', ('attr', locus, 'start'), ('const', 1)), "POS = start + 1", "POS is not start + 1")
    derived('END', lambda v: v == ('attr', locus, 'stop'), "END = stop", "END is not locus.stop")
    derived('NVAR', lambda v: v == ('call', 'len', (('attr', locus, 'variants'),), (), None), "NVAR = len(variants)", "NVAR malformed")
    derived('SNVPOS', lambda v: v == ('bin', 'Add', ('call', 'numpy.subtract', (('attr', locus, 'positions'), ('attr', locus, 'start')), (), None), ('const', 1)),
        "SNVPOS = positions - start + 1", "SNVPOS malformed")
    # AC / AN / UAN / NS derive from GT arrays only
    def from_gt(v):
        txt = show(v)
        return 'formatfields.GT' in txt or 'allele_counts' in txt
    GT = ('idx', ('attr', ('param', 'data'), 'sampledata'), ('name', FMT + 'GT'))
    ok = False
    for n in ast.walk(f.node):
        if isinstance(n, ast.For) and ast.unparse(n.iter) == 'data.sampledata[FORMAT.GT].values()' and isinstance(n.target, ast.Name):
            arr = n.target.id
            ok = has(n, f"for _a in {arr}:\n    if _a >= 0:\n        _counts[_a] += 1")
    ctx.check(ok, 'R07.3/allele-counts', f.construct('allele_counts'), "allele counts accumulate GT entries >= 0", "allele counting loop changed: null alleles must be skipped and only GT counted", f.where())
    ac = st.get('AC')
    COUNTS = simplify(ac[2])[1] if ac is not None and simplify(ac[2])[0] == 'idx' else None
    root = storage_root(ctx.prog, COUNTS) if COUNTS is not None else None
    n_all = mkbin('Add', ('call', 'len', (('idx', ('attr', ('param', 'data'), 'columndata'), ('name', COL + 'ALT')),), (), None), ('const', 1))
    counts_ok = root is not None and root[0] == 'call' and root[1] == 'numpy.zeros' and root[2] and root[2][0] == n_all
    derived('AC', lambda v: counts_ok and v == ('idx', COUNTS, ('slice', ('const', 1), None, None)), "AC = counts[1:] of a vector with one count per allele", "AC is not the per-allele counts without the reference")
    derived('AN', lambda v: counts_ok and v == ('call', 'numpy.sum', (COUNTS,), (), None), "AN = sum(counts)", "AN is not the sum of the allele counts")
    derived('UAN', lambda v: counts_ok and v == ('call', 'numpy.sum', (mkcmp('Gt', COUNTS, ('const', 0)),), (), None), "UAN = sum(counts > 0)", "UAN is not the number of alleles with a positive count")
    SD = lambda fld: ('call', '.values', (('idx', ('attr', ('param', 'data'), 'sampledata'), ('name', FMT + fld)),), (), None)
    total = lambda fld: ('call', 'sum', (SD(fld),), (), None)
    nsum = lambda fld: ('call', 'numpy.nansum', (('call', 'list', (SD(fld),), (), None),), (), None)
    # the total ploidy of the samples of this record (not of every entry of the ploidy map, which may list samples that are not
    # part of the run - defect S): sum(data.sample_ploidy[s] for s in data.samples)
    _samples = ('attr', ('param', 'data'), 'samples')

    def is_ploidies(t):
        return t[0] == 'call' and t[1] == 'sum' and len(t[2]) == 1 and t[2][0][0] == 'comp' and len(t[2][0]) == 4 and t[2][0][3] == (_samples,) \
            and t[2][0][2][0] == 'idx' and t[2][0][2][1] == ('attr', ('param', 'data'), 'sample_ploidy') and t[2][0][2][2][0] == 'loopvar' and t[2][0][2][2][2] == _samples

    def nan_or(v, x):
        # phi(isnan(x).all(), full(n_alleles, nan), x)
        return v[0] == 'phi' and v[1] == ('call', '.all', (('call', 'numpy.isnan', (x,), (), None),), (), None) and v[3] == x \
            and v[2][0] == 'call' and v[2][1] == 'numpy.full' and v[2][2][0] == n_all and v[2][2][1] == ('name', 'numpy.nan')
    dp_vals = {simplify(x[2]) for x in stores_of(r) if x[0] == 'info' and x[1].split('.')[-1] == 'DP'}
    derived('DP', lambda v: dp_vals == {('name', 'numpy.nan'), nsum('DP')}, "INFO DP = nansum(FORMAT DP) (NaN for a locus without variants)", "INFO DP is not the sum of the sample depths")
    derived('ACP', lambda v: nan_or(v, total('ACP')), "INFO ACP = sum(FORMAT ACP) (all-NaN -> NaN vector of length R)", "INFO ACP is not the sum of the sample allele counts")
    derived('AFP', lambda v: v[0] == 'phi' and v[3][0] == 'bin' and v[3][1] == 'Div' and v[3][2] == total('ACP') and is_ploidies(v[3][3]) and nan_or(v, v[3]),
            "INFO AFP = sum(FORMAT ACP) / total ploidy of the samples of the run", "INFO AFP is not the sum of the sample allele counts over the total ploidy of the samples in the run")
    derived('NS', lambda v: v[0] == 'call' and v[1] == 'sum' and v[2][0][0] == 'comp' and v[2][0][2] == ('call', 'numpy.any', (mkcmp('GtE', ('loopvar', v[2][0][2][2][0][2][1] if v[2][0][2][0] == 'call' and v[2][0][2][2] and v[2][0][2][2][0][0] == 'cmp' else '?', SD('GT')), ('const', 0)),), (), None),
            "NS = number of samples with at least one called allele", "NS is not the number of samples with a called allele")
    derived('RCOUNT', lambda v: v == nsum('RCOUNT'), "INFO RCOUNT = nansum(FORMAT RCOUNT)", "INFO RCOUNT malformed")
    # REF in programs
    for key, fq2 in PROGRAMS.items():
        f2 = ctx.func(fq2)
        r2 = ctx.recon(fq2)
        refs = [s for s in stores_of(r2) if s[0] == 'column' and s[1] == COL + 'REF']
        ok = len(refs) == 1 and refs[0][2] == ('attr', locus, 'sequence')
        ctx.check(ok, 'R07.4/ref', f2.construct('REF'), "REF = locus.sequence", "REF is not the locus sequence", f2.where())


def rule_small_kernels(ctx):
    """two helpers every GL/GP value passes through"""
    fq = 'mchap.jitutils.natural_log_to_log10'
    f = ctx.func(fq)
    r = ctx.recon(fq)
    rets = [ev.data[0] for ev in r.events if ev.kind == 'return']
    e = ('call', 'numpy.exp', (('const', 1),), (), None)
    want = {mkbin('Mult', ('call', 'numpy.log10', (e,), (), None), ('param', 'x')), ('bin', 'Div', ('param', 'x'), ('call', 'numpy.log', (('const', 10),), (), None))}
    ctx.check(len(rets) == 1 and rets[0] in want, 'R07.3/derivation', f.construct('log10'), "log10 value = natural log * log10(e)",
              f"natural_log_to_log10 returns {show(rets[0])[:80] if rets else None}", f.where())
    fq = 'mchap.application.assemble._genotype_posterior_as_array'
    f = ctx.func(fq)
    r = ctx.recon(fq)
    st = [ev for ev in r.events if ev.kind == 'store' and ev.data[1][0] == 'call' and ev.data[1][1] == 'mchap.jitutils.genotype_alleles_as_index']
    ok = len(st) == 1
    if ok:
        ev = st[0]
        alleles = ev.data[1][2][0]
        # stored exactly when the sorted labels contain no unknown (-1) allele; value is the probability paired with the genotype
        guard = [(c, pol) for c, pol in path(ev) if c[0] == 'cmp']
        ok = guard == [(mkcmp('Lt', ('idx', alleles, ('const', 0)), ('const', 0)), False)] and alleles[0] == 'call' and alleles[1] == 'numpy.sort' \
            and ev.data[2][0] == 'loopvar'
        root = storage_root(ctx.prog, ev.data[3])
        ok = ok and root is not None and root[0] == 'call' and root[1] == 'numpy.zeros'
    ctx.check(ok, 'R07.3/derivation', f.construct('GP fill'), "GP[index(sorted labels)] = probability, for genotypes of called alleles only; zero elsewhere",
              "posterior genotypes are not written to their G-index (or unknown alleles are not skipped)", f.where())


def rule_frequency_gate(ctx):
    """every INFO field that sumarise_vcf_record derives from the per-sample posterior frequency fields (FORMAT ACP / AFP / AOP) is
    in the set that makes the programs compute those fields (require_AFP); otherwise the field requested on its own is summed over
    an empty table and written as the scalar 0 whatever its declared Number.  The tally behind AC / AN / UAN is not a narrow
    integer (one allele can have more than 127 copies in a cohort)."""
    import ast as _ast
    BASE = 'mchap.application.baseclass.program.'
    g = ctx.func(BASE + 'require_AFP')
    sets = [n for n in _ast.walk(g.node) if isinstance(n, _ast.Set)]
    gate_info = {_ast.unparse(e) for st in sets for e in st.elts if _ast.unparse(e).startswith('INFO.')}
    gate_format = {_ast.unparse(e) for st in sets for e in st.elts if _ast.unparse(e).startswith('FORMAT.')}
    ctx.need(gate_info and gate_format, f"{g.qname}: the two sets of fields that require posterior frequencies were not found")
    f = ctx.func(BASE + 'sumarise_vcf_record')
    derived = {}
    for n in _ast.walk(f.node):
        if isinstance(n, _ast.If) and isinstance(n.test, _ast.Compare) and len(n.test.ops) == 1 and isinstance(n.test.ops[0], _ast.In) \
                and _ast.unparse(n.test.left).startswith('INFO.') and _ast.unparse(n.test.comparators[0]).endswith('infofields'):
            reads = {_ast.unparse(m.slice) for st in n.body for m in _ast.walk(st)
                     if isinstance(m, _ast.Subscript) and _ast.unparse(m.value).endswith('sampledata')}
            if reads & {'FORMAT.ACP', 'FORMAT.AFP', 'FORMAT.AOP'}:
                derived[_ast.unparse(n.test.left)] = sorted(reads)
    ctx.minimum('R07.6', len(derived), 4)
    for fld, reads in sorted(derived.items()):
        ctx.check(fld in gate_info, 'R07.6/frequency-gate', f.construct(fld), f"derived from {', '.join(reads)}; requesting it makes the programs compute them",
                  f"{fld} is derived from {', '.join(reads)} but is not in the set of require_AFP(): requested on its own it is the sum over an empty table (scalar 0)", g.where())
    ctx.check({'FORMAT.ACP', 'FORMAT.AFP', 'FORMAT.AOP'} <= gate_format, 'R07.6/frequency-gate', g.construct('FORMAT fields'), "FORMAT ACP, AFP and AOP each make the programs compute posterior frequencies",
              f"require_AFP() no longer reacts to {sorted({'FORMAT.ACP', 'FORMAT.AFP', 'FORMAT.AOP'} - gate_format)}", g.where())
    from .c15 import narrow_dtype
    allocs = [n for n in _ast.walk(f.node) if isinstance(n, _ast.Assign) and isinstance(n.value, _ast.Call) and _ast.unparse(n.value.func).split('.')[-1] in ('zeros', 'empty', 'full')
              and any(isinstance(m, _ast.AugAssign) and isinstance(m.target, _ast.Subscript) and _ast.unparse(m.target.value) == _ast.unparse(n.targets[0]) for m in _ast.walk(f.node))]
    ctx.need(allocs, f"{f.qname}: the allele tally was not found")
    for a in allocs:
        dt = narrow_dtype(a.value)
        ctx.check(dt is None, 'R07.6/tally-width', f.construct('allele tally'), "the allele tally is a full-width integer",
                  f"the allele tally behind AC / AN / UAN is {dt}: more than 127 copies of one allele in a cohort wrap silently", f.where(a))


def rule_reference_span(ctx):
    """REF is the reference sequence of [POS, END]: the sequence fetched for a locus must be checked to have stop - start bases before
    it becomes the locus' sequence (pysam truncates silently at the contig end: a target CHR1:50-70 on a contig of 60 bases gave POS=51,
    END=70 and a REF of 10 bases, defect Y)"""
    fq = 'mchap.io.loci.Locus.set_sequence'
    f = ctx.func(fq)
    r = ctx.recon(fq)
    sets = [(c, conds) for c, conds, _ in r.calls if c[1].endswith('Locus.set') or c[1] == '.set']
    ctx.need(len(sets) == 1, f"{fq}: the call that stores the fetched sequence in the locus was not found")
    span = mkbin('Sub', ('attr', ('param', 'self'), 'stop'), ('attr', ('param', 'self'), 'start'))
    ok = False
    for c, pol in sets[0][1]:
        for x in walk(c):
            if x[0] == 'cmp' and x[1] in ('Eq', 'NotEq') and any(y[0] == 'call' and y[1] == 'len' for y in walk(x)) and any(simplify(y) == simplify(span) for y in (x[2], x[3])):
                ok = True
    ctx.check(ok, 'R07.7/reference-span', f.construct('fetched sequence'), "the fetched sequence is used only if it has stop - start bases",
              "the fetched reference sequence becomes the locus' sequence without a check of its length: a target overhanging the contig end is written "
              "with a REF shorter than [POS, END]", f.where())


def run(ctx):
    rule_reference_span(ctx)
    rule_frequency_gate(ctx)
    rule_small_kernels(ctx)
    rule_cardinality(ctx)
    rule_declared(ctx)
    rule_summaries(ctx)
