"""C08 (structural clauses): every fit() seeds each RNG domain in which a draw is reachable, with
self.random_seed, before any call that can draw; the CLI seed reaches all three samplers; nothing
reachable from call_locus writes program state or a module global; there is no RNG source other than
the seeded ones and no iteration over hash-ordered sets; in multi-core mode only the writer (and the
header loop before the pool starts) writes stdout, workers enqueue whole lines, every job is awaited
before the kill signal, and no exception handler on the locus path completes without re-raising.
Not decided: OS scheduling, byte equality of outputs."""
from __future__ import annotations
import ast
from ..terms import walk, show
from ..kernels import kwargs
from ..model import AnalysisError
from ..pat import has, find, find_all

BASE = 'mchap.application.baseclass.program.'
FITS = ['mchap.assemble.mcmc.DenovoMCMC.fit', 'mchap.calling.classes.CallingMCMC.fit', 'mchap.pedigree.classes.PedigreeCallingMCMC.fit']
SEED_CALLS = {'jit': 'mchap.jitutils.seed_numba', 'python': 'numpy.random.seed'}
FORBIDDEN_SOURCES = ('random.', 'secrets.', 'uuid.', 'os.urandom', 'time.time', 'time.time_ns', 'numpy.random.default_rng', 'numpy.random.RandomState',
                     'numpy.random.Generator', 'datetime.datetime.now')


def rule_reseed(ctx, rule='R08.1/reseed-dominates', fits=None):
    for fq in (fits or FITS):
        f = ctx.func(fq)
        body = f.node.body
        # domains in which a draw is reachable from this fit
        need = set()
        draw_stmt_idx = {}
        for i, st in enumerate(body):
            for n in ast.walk(st):
                if isinstance(n, ast.Call):
                    q = ctx.prog.resolve_call(f, n)
                    doms = set()
                    if q in ctx.eff.draws:
                        doms |= ctx.eff.draws[q]
                    parts = q.split('.')
                    if len(parts) >= 2 and parts[-2] == 'random' and parts[0] in ('numpy', 'np') and parts[-1] != 'seed':
                        doms.add('python')
                    for d in doms:
                        need.add(d)
                        draw_stmt_idx.setdefault(d, []).append(i)
        ctx.need(need, f"{fq}: no reachable random draw found; rule needs re-confirmation")
        for dom in sorted(need):
            con = f.construct(f"seed[{dom}]")
            seed_idx = None
            for i, st in enumerate(body):
                if isinstance(st, ast.If) and ast.unparse(st.test) == 'self.random_seed is not None' and not st.orelse:
                    for s in st.body:
                        if isinstance(s, ast.Expr) and isinstance(s.value, ast.Call) and ctx.prog.resolve_call(f, s.value) == SEED_CALLS[dom] \
                                and len(s.value.args) == 1 and ast.unparse(s.value.args[0]) == 'self.random_seed':
                            seed_idx = i
            first_draw = min(draw_stmt_idx[dom])
            ok = seed_idx is not None and seed_idx < first_draw
            ctx.check(ok, rule, con, f"{SEED_CALLS[dom].split('.')[-1]}(self.random_seed) precedes every {dom}-domain draw",
                      f"a {dom}-domain random draw is reachable from statement {first_draw} of fit() but "
                      + ("no seeding of that domain with self.random_seed exists" if seed_idx is None else f"the seeding happens later (statement {seed_idx})"),
                      f.where(body[first_draw]))


def rule_seed_threading(ctx):
    sites = [('mchap.application.assemble.program.call_sample_genotypes', 'mchap.assemble.mcmc.DenovoMCMC'),
             ('mchap.application.call.program.call_sample_genotypes', 'mchap.calling.classes.CallingMCMC'),
             ('mchap.application.call_pedigree.program.call_sample_genotypes', 'mchap.pedigree.classes.PedigreeCallingMCMC')]
    for fq, cls in sites:
        f = ctx.func(fq)
        r = ctx.recon(fq)
        ctor = [(c, n) for c, _, n in r.calls if c[1] == cls]
        ctx.need(len(ctor) == 1, f"{fq}: one {cls} construction expected")
        ok = kwargs(ctor[0][0]).get('random_seed') == ('attr', ('param', 'self'), 'random_seed')
        ctx.check(ok, 'R08.2/seed-threading', f.construct(f"{cls.split('.')[-1]}(random_seed=)"), "random_seed <- self.random_seed",
                  "the sampler is constructed without the program's seed (it would run unseeded)", f.where(ctor[0][1]))
    f = ctx.func('mchap.application.arguments.collect_default_mcmc_program_arguments')
    src = ast.unparse(f.node)
    ctx.check('random_seed=arguments.mcmc_seed[0]' in src, 'R08.2/seed-threading', f.construct('random_seed'), "random_seed <- --mcmc-seed",
              "--mcmc-seed does not reach the program's random_seed", f.where())


def set_iterations(tree):
    """iteration constructs over hash-ordered collections"""
    out = []
    set_names = set()
    for n in ast.walk(tree):
        if isinstance(n, ast.Assign) and len(n.targets) == 1 and isinstance(n.targets[0], ast.Name) and _is_set_expr(n.value, set()):
            set_names.add(n.targets[0].id)
    for n in ast.walk(tree):
        its = []
        if isinstance(n, ast.For):
            its.append(n.iter)
        if isinstance(n, ast.comprehension):
            its.append(n.iter)
        if isinstance(n, ast.Call) and ast.unparse(n.func) in ('list', 'tuple', 'enumerate', 'np.array', 'numpy.array', 'sorted') and n.args:
            if ast.unparse(n.func) != 'sorted':
                its.append(n.args[0])
        for it in its:
            if _is_set_expr(it, set_names):
                out.append(it)
    return out


def _is_set_expr(e, set_names):
    if isinstance(e, (ast.Set, ast.SetComp)):
        return True
    if isinstance(e, ast.Call) and ast.unparse(e.func) in ('set', 'frozenset'):
        return True
    if isinstance(e, ast.Name) and e.id in set_names:
        return True
    if isinstance(e, ast.BinOp) and isinstance(e.op, (ast.Sub, ast.BitAnd, ast.BitOr, ast.BitXor)) and (_is_set_expr(e.left, set_names) or _is_set_expr(e.right, set_names)):
        return True
    return False


POSITIVE_EXAMPLE = "def f(xs):\n    seen = {x.tobytes() for x in xs}\n    out = []\n    for s in seen:\n        out.append(s)\n    return out\n"


def rule_state(ctx):
    # module globals
    gw = [q for q, v in ctx.eff.global_writes.items() if v]
    ctx.check(not gw, 'R08.3/no-global-writes', 'mchap/**::global', f"{len(ctx.prog.funcs)} functions scanned, none declares `global`",
              f"functions write module globals: {gw}")
    # module-level containers filled from inside a function are module state just as much (a memo dict, a list that grows), with or
    # without a `global` statement; the detector is checked against a built-in example
    def module_state_writes(m, fn):
        shadow = {x.arg for x in fn.args.posonlyargs + fn.args.args + fn.args.kwonlyargs}
        for n in ast.walk(fn):
            if isinstance(n, ast.Name) and isinstance(n.ctx, ast.Store):
                shadow.add(n.id)
        mods = {k for k in m.consts if k not in shadow}
        # a local name bound to a module container is the same object: `x = _TABLE; x += [..]` edits the table
        alias = {}
        for n in ast.walk(fn):
            if isinstance(n, ast.Assign) and isinstance(n.value, ast.Name) and n.value.id in mods:
                for t in n.targets:
                    if isinstance(t, ast.Name):
                        alias[t.id] = n.value.id
        mods = mods | set(alias)
        out = []
        for n in ast.walk(fn):
            tgt = None
            if isinstance(n, (ast.Assign, ast.AugAssign)):
                for t in (n.targets if isinstance(n, ast.Assign) else [n.target]):
                    if isinstance(n, ast.AugAssign) and isinstance(t, ast.Name) and t.id in alias:
                        tgt = t.id          # in place for lists, sets and arrays
                    if isinstance(t, ast.Subscript):
                        r_ = t.value
                        while isinstance(r_, (ast.Subscript, ast.Attribute)):
                            r_ = r_.value
                        if isinstance(r_, ast.Name) and r_.id in mods:
                            tgt = r_.id
            elif isinstance(n, ast.Call) and isinstance(n.func, ast.Attribute) and isinstance(n.func.value, ast.Name) and n.func.value.id in mods \
                    and n.func.attr in ('append', 'extend', 'update', 'setdefault', 'add', 'insert', 'pop', 'clear', 'popitem'):
                tgt = n.func.value.id
            if tgt:
                out.append((alias.get(tgt, tgt), n.lineno))
        return out
    ex = ast.parse("_MEMO = {}\ndef f(k):\n    if k not in _MEMO:\n        _MEMO[k] = k * 2\n    return _MEMO[k]\n")
    class _M:
        consts = {'_MEMO': ex.body[0].value}
    if not module_state_writes(_M, ex.body[1]):
        raise AnalysisError("module-state detector no longer matches its positive example")
    ex2 = ast.parse("_SKIP = [1, 2]\ndef f(dup):\n    skip = _SKIP\n    if dup:\n        skip += [4]\n    return sum(skip)\n")
    class _M2:
        consts = {'_SKIP': ex2.body[0].value}
    if not module_state_writes(_M2, ex2.body[1]):
        raise AnalysisError("module-state detector no longer matches its positive example (alias)")
    ms = []
    for q, f in ctx.prog.funcs.items():
        for name, ln in module_state_writes(f.module, f.node):
            ms.append(f"{q} fills {name} (line {ln})")
    ctx.check(not ms, 'R08.3/no-module-state', 'mchap/**::module containers', f"{len(ctx.prog.funcs)} functions scanned, none stores into a module-level container (detector self-test passed)",
              f"module-level containers are filled at run time, so a result can depend on what the process did before: {ms}")
    # a memoised function hands the same object to every caller: a later in-place edit of the result changes what the next caller gets
    memo = []
    for q, f in ctx.prog.funcs.items():
        for d in f.node.decorator_list:
            if ast.unparse(d).split('(')[0].split('.')[-1] in ('lru_cache', 'cache', 'cached_property'):
                memo.append(f"{q} (@{ast.unparse(d)[:30]})")
    ctx.check(not memo, 'R08.3/no-memoised-functions', 'mchap/**::memoised functions', "no function is memoised with functools (results are never shared between calls)",
              f"memoised functions keep their results between calls; an in-place edit of a returned array leaks into the next locus: {memo}")
    # the fit() methods leave their arguments alone (a fit that writes into the caller's `initial` makes the next fit differ).
    # Decided on terms: an array handed to a parameter that the callee mutates (effect summary), or stored into directly, must not be
    # rooted in a parameter of fit() on any arm of the decisions that lead there.
    def param_roots(t, depth=0):
        out = set()
        stack = [t]
        while stack:
            x = stack.pop()
            if not isinstance(x, tuple) or not x:
                continue
            h = x[0]
            if h == 'param':
                out.add(x[1])
            elif h in ('upd', 'havoc'):
                stack.append(x[1])
            elif h in ('after', 'carried'):
                stack.append(x[2] if len(x) > 2 else None)
            elif h == 'phi':
                stack += [x[2], x[3]]
            elif h == 'idx':
                stack.append(x[1])          # a row / slice of an array is a view of it
            elif h == 'call' and x[1] in ('numpy.asarray', 'numpy.asanyarray') and x[2]:
                stack.append(x[2][0])
        return out
    from ..model import bind_args
    for fq in FITS:
        f = ctx.func(fq)
        r = ctx.recon(fq)
        hit = []
        for ev in r.events:
            if ev.kind == 'store':
                for p_ in param_roots(ev.data[3]) - {'self'}:
                    hit.append(f"{p_} (stored into at line {ev.lineno})")
        for c, _, n in r.calls:
            callee = ctx.prog.funcs.get(c[1])
            if callee is None or not ctx.eff.mutates.get(c[1]):
                continue
            kw = dict(c[3])
            for pname in ctx.eff.mutates[c[1]]:
                arg = kw.get(pname)
                if arg is not None:
                    for p_ in param_roots(arg) - {'self'}:
                        hit.append(f"{p_} (handed to {callee.name}({pname}=), which writes into it, line {n.lineno})")
        ctx.check(not hit, 'R08.3/fit-arguments-unchanged', f.construct('arguments'), "no array rooted in an argument of fit() is written to, directly or by a callee",
                  "fit() writes into its caller's array: " + "; ".join(sorted(set(hit))) + " - a repeated fit with the same inputs starts from a changed state", f.where())
    # a sampler object is configuration only: every attribute its methods read is a declared dataclass field, and none is written
    # (a cache or memo kept on the object outlives the fit that filled it: the next fit with other reads starts from it)
    for cq in ('mchap.assemble.mcmc.DenovoMCMC', 'mchap.calling.classes.CallingMCMC', 'mchap.pedigree.classes.PedigreeCallingMCMC'):
        c = ctx.prog.cls(cq)
        fields = set(c.fields)
        for base in c.bases:
            bq = ctx.prog.resolve_name(c.module, base) if hasattr(ctx.prog, 'resolve_name') else None
            bc = ctx.prog.classes.get(bq) if bq else None
            if bc is None:
                bc = next((k for k in ctx.prog.classes.values() if k.qname.endswith('.' + base)), None)
            if bc is not None:
                fields |= set(bc.fields)
        methods = set(c.methods)
        bad = []
        # attributes computed once in __post_init__ from the fields are configuration as well, as long as nothing writes into them later
        # (a table of log frequencies is fine; a dictionary handed to a sampler that stores into it is a cache that outlives the fit)
        derived = set()
        pi = c.methods.get('__post_init__')
        if pi is not None:
            for n in ast.walk(pi.node):
                if isinstance(n, ast.Attribute) and isinstance(n.ctx, ast.Store) and isinstance(n.value, ast.Name) and n.value.id == 'self':
                    derived.add(n.attr)
        from ..model import bind_args
        mutated = set()
        for mname, mf in c.methods.items():
            for n in ast.walk(mf.node):
                if isinstance(n, ast.Call):
                    q = ctx.prog.resolve_call(mf, n)
                    cf = ctx.prog.funcs.get(q)
                    if cf is not None and ctx.eff.mutates.get(q):
                        b = bind_args(cf, n)
                        for pname in ctx.eff.mutates[q]:
                            a = b.get(pname)
                            if isinstance(a, ast.Attribute) and isinstance(a.value, ast.Name) and a.value.id == 'self':
                                mutated.add(a.attr)
                    if isinstance(n.func, ast.Attribute) and n.func.attr in ('append', 'extend', 'update', 'clear', 'pop', 'setdefault', 'sort', 'fill') \
                            and isinstance(n.func.value, ast.Attribute) and isinstance(n.func.value.value, ast.Name) and n.func.value.value.id == 'self':
                        mutated.add(n.func.value.attr)
                if isinstance(n, (ast.Assign, ast.AugAssign)):
                    for t in (n.targets if isinstance(n, ast.Assign) else [n.target]):
                        if isinstance(t, ast.Subscript) and isinstance(t.value, ast.Attribute) and isinstance(t.value.value, ast.Name) and t.value.value.id == 'self':
                            mutated.add(t.value.attr)
        for mname, mf in sorted(c.methods.items()):
            for n in ast.walk(mf.node):
                if isinstance(n, ast.Attribute) and isinstance(n.value, ast.Name) and n.value.id == 'self':
                    if isinstance(n.ctx, ast.Store):
                        if mname != '__post_init__':
                            bad.append(f"{mname} assigns self.{n.attr} (line {n.lineno})")
                    elif n.attr in derived:
                        if n.attr in mutated:
                            bad.append(f"self.{n.attr}, created in __post_init__, is written into later (line {n.lineno}): it outlives the fit that filled it")
                    elif n.attr not in fields and n.attr not in methods and not n.attr.startswith('__'):
                        bad.append(f"{mname} reads self.{n.attr}, which is not a declared field (line {n.lineno})")
            for w in ctx.eff.self_writes[mf.qname]:
                if isinstance(w, ast.Call):
                    bad.append(f"{mname} mutates a container held by self (line {w.lineno})")
        ctx.check(not bad, 'R08.3/sampler-is-configuration', c_construct(c), f"{len(c.methods)} methods: only declared fields of self are read, none is written",
                  "a sampler object carries state from one fit to the next: " + "; ".join(sorted(set(bad))[:4]), f"{c.module.relpath}:{c.node.lineno}")
    # program attributes written during a locus
    reach = ctx.eff.reachable(BASE + 'call_locus')
    bad = []
    for q in sorted(reach):
        f = ctx.prog.funcs[q]
        if f.cls and f.cls.endswith('.program') and ctx.eff.self_writes[q]:
            bad.append((q, ctx.eff.self_writes[q][0].lineno))
    ctx.check(not bad, 'R08.3/no-program-state', 'mchap/application::program.self', f"{len(reach)} functions reachable from call_locus, none writes self.<attr> of a program",
              f"program attributes are written while a locus is processed (history dependence): {bad}")
    # RNG / entropy sources
    bad = []
    for q, f in ctx.prog.funcs.items():
        for n, callee in ctx.prog.calls_in(f):
            if callee.startswith(FORBIDDEN_SOURCES) or callee in FORBIDDEN_SOURCES:
                bad.append((q, callee, n.lineno))
    ctx.check(not bad, 'R08.3/no-other-entropy', 'mchap/**::entropy', "no call to random.*, default_rng, time.time, os.urandom, uuid", f"unseeded entropy sources used: {bad}")
    for m in ctx.prog.modules.values():
        for n in m.tree.body:
            if isinstance(n, (ast.Import, ast.ImportFrom)):
                names = [a.name for a in n.names] if isinstance(n, ast.Import) else [n.module or '']
                if any(x in ('random', 'secrets', 'uuid') for x in names):
                    ctx.violation('R08.3/no-other-entropy', f"{m.relpath}::import", f"imports {names}", f"{m.relpath}:{n.lineno}")
    # date only in the header helper
    users = [q for q, f in ctx.prog.funcs.items() for n, callee in ctx.prog.calls_in(f) if callee.endswith('date.today')]
    ctx.check(set(users) <= {'mchap.io.vcf.headermeta.filedate'}, 'R08.3/date-only-in-header', 'mchap/**::date.today', "date.today() only in headermeta.filedate",
              f"the current date is used outside the header: {users}")
    # set iteration
    pos = set_iterations(ast.parse(POSITIVE_EXAMPLE))
    if len(pos) != 1:
        raise AnalysisError("set-iteration detector no longer matches its positive example")
    hits = []
    for m in ctx.prog.modules.values():
        for it in set_iterations(m.tree):
            hits.append(f"{m.relpath}:{it.lineno} {ast.unparse(it)[:60]}")
    ctx.check(not hits, 'R08.3/no-set-iteration', 'mchap/**::set-iteration', f"{len(ctx.prog.modules)} modules scanned, no iteration over a set (detector self-test passed)",
              f"iteration over hash-ordered sets (bytes hashes are randomised per process): {hits}")


def rule_stdout(ctx):
    allowed = {BASE + '_run_stdout_single_core', BASE + '_writer', BASE + '_run_stdout_multi_core',
               'mchap.application.atomize.atomize_vcf', 'mchap.application.find_snvs.write_vcf_header', 'mchap.application.find_snvs.write_vcf_block'}
    writers = {q for q, v in ctx.eff.stdout.items() if v}
    ctx.check(writers <= allowed, 'R08.4/stdout-owners', 'mchap/**::stdout', f"stdout written only by {sorted(x.split('.')[-1] for x in writers)}",
              f"unexpected functions write stdout: {sorted(writers - allowed)}")
    reach = ctx.eff.reachable(BASE + '_worker')
    bad = sorted(q for q in reach if ctx.eff.stdout[q])
    ctx.check(not bad, 'R08.4/workers-silent', BASE.replace('mchap.', 'mchap/', 1) + '_worker', f"{len(reach)} functions reachable from _worker, none writes stdout",
              f"code reachable from a worker writes stdout directly (interleaves with the writer): {bad}")
    f = ctx.func(BASE + '_run_stdout_multi_core')
    pool_line = min((n.lineno for n in ast.walk(f.node) if isinstance(n, ast.Call) and ast.unparse(n.func) in ('mp.Pool', 'multiprocessing.Pool')), default=None)
    ctx.need(pool_line is not None, f"{f.qname}: mp.Pool creation not found")
    late = [n.lineno for n in ctx.eff.stdout[f.qname] if n.lineno > pool_line]
    ctx.check(not late, 'R08.4/header-before-pool', f.construct('header'), "the parent writes stdout only before the pool exists",
              f"the parent process writes stdout at lines {late} while workers are running", f.where())
    f = ctx.func(BASE + '_worker')
    ok = has(f.node, "for _line in self._assemble_loci_wrapped(loci):\n    queue.put(str(_line))") or has(f.node, "for _line in self._assemble_loci_wrapped(loci):\n    queue.put(_line)")
    ctx.check(ok, 'R08.4/whole-lines', f.construct('queue.put'), "one complete record line is enqueued per locus", "workers do not enqueue exactly one complete line per locus", f.where())
    f = ctx.func(BASE + '_writer')
    writes = [n for n in ctx.eff.stdout[f.qname]]
    ok = len(writes) == 1 and has(writes[0], "sys.stdout.write(_line + '\\n')")
    ctx.check(ok, 'R08.4/whole-lines', f.construct('write'), "writer emits each line with a single write", "writer splits a record over several writes", f.where())


def c_construct(c):
    return f"{c.module.relpath}::{c.qname.split('.')[-1]}::self"


def rule_jobs(ctx):
    f = ctx.func(BASE + '_run_stdout_multi_core')
    body = f.node.body

    def idx(pattern, b=None):
        for i, st in enumerate(body):
            r = find_all(st, pattern, b)
            if r and r[0][0] is st:
                return i, r[0][1]
        return None, None
    i_loci, b = idx("_loci = list(self.loci())")
    i_blocks, b = idx("_blocks = np.array_split(_loci, self.n_cores)", b) if b else (None, None)
    i_submit = i_get = i_kill = None
    if b:
        for i, st in enumerate(body):
            if isinstance(st, ast.For) and ast.unparse(st.iter) == b['_blocks'] and isinstance(st.target, ast.Name):
                blk = st.target.id
                r1 = find_all(st, f"_job = _pool.apply_async(self._worker, ({blk}, _queue))")
                if r1 and has(st, f"_jobs.append({r1[0][1]['_job']})"):
                    i_submit = i
                    b.update(r1[0][1])
                    b.update(find_all(st, f"_jobs.append({r1[0][1]['_job']})")[0][1])
            # the same submission written (or normalised, sa/normalise.py) as a comprehension
            if i_submit is None and isinstance(st, ast.Assign) and isinstance(st.value, ast.ListComp) and len(st.value.generators) == 1 \
                    and ast.unparse(st.value.generators[0].iter) == b['_blocks'] and isinstance(st.value.generators[0].target, ast.Name) \
                    and not st.value.generators[0].ifs and len(st.targets) == 1 and isinstance(st.targets[0], ast.Name):
                blk = st.value.generators[0].target.id
                r1 = find_all(st.value.elt, f"_pool.apply_async(self._worker, ({blk}, _queue))")
                if r1 and r1[0][0] is st.value.elt:
                    i_submit = i
                    b.update(r1[0][1])
                    b['_jobs'] = st.targets[0].id
        if i_submit is not None:
            for i, st in enumerate(body):
                if isinstance(st, ast.For) and ast.unparse(st.iter) == b['_jobs'] and isinstance(st.target, ast.Name) and has(st, f"{st.target.id}.get()"):
                    i_get = i
                if ast.unparse(st) == f"{b['_queue']}.put(KILL_SIGNAL)":
                    i_kill = i
    order = [i_loci, i_blocks, i_submit, i_get, i_kill]
    ok = all(x is not None for x in order) and order == sorted(order)
    ctx.check(ok, 'R08.5/await-all', f.construct('jobs'), "all loci split into blocks, one job per block, every job awaited before the kill signal",
              f"job submission/await/kill order broken (statement indices loci,blocks,submit,get,kill = {order}); a failing worker would be lost or loci dropped", f.where())
    # the writer is a job like the others: its result has to be awaited (after the kill signal, which ends it), otherwise an exception in
    # the writer - an unencodable character, a closed pipe - drops every later record and the run still exits 0 (defect Z)
    w_name, i_wget = None, None
    for i, st in enumerate(body):
        if isinstance(st, ast.Assign) and len(st.targets) == 1 and isinstance(st.targets[0], ast.Name) and isinstance(st.value, ast.Call) \
                and isinstance(st.value.func, ast.Attribute) and st.value.func.attr == 'apply_async' and st.value.args \
                and ast.unparse(st.value.args[0]) == 'self._writer':
            w_name = st.targets[0].id
        if w_name and isinstance(st, (ast.Expr, ast.Assign)) and isinstance(st.value, ast.Call) and ast.unparse(st.value.func) == f"{w_name}.get":
            i_wget = i
    ok_w = w_name is not None and i_wget is not None and i_kill is not None and i_wget > i_kill
    ctx.check(ok_w, 'R08.5/await-writer', f.construct('writer'), "the writer job is awaited after the kill signal, so a fault in the writer fails the run",
              "the result of the writer job is discarded: an exception in the writer process loses every later record while the run exits 0", f.where())
    # exception discipline on the locus path
    reach = ctx.eff.reachable(BASE + '_assemble_loci_wrapped') | ctx.eff.reachable(BASE + 'call_locus')
    n = 0
    for q in sorted(reach):
        fn = ctx.prog.funcs[q]
        if fn.jit or not (q.startswith('mchap.application.') or q.startswith('mchap.io.')):
            continue
        for h in [x for x in ast.walk(fn.node) if isinstance(x, ast.ExceptHandler)]:
            n += 1
            ok = _always_raises(h.body)
            ctx.check(ok, 'R08.5/no-swallow', fn.construct(f"except {ast.unparse(h.type) if h.type else ''}#{_handler_ordinal(fn.node, h)}"),
                      "handler re-raises", "exception handler on the locus path can complete without raising (a failing locus would be silently omitted)", fn.where(h))
    ctx.minimum('R08.5/no-swallow', n, 8)


def _handler_ordinal(fn_node, h):
    hs = [x for x in ast.walk(fn_node) if isinstance(x, ast.ExceptHandler)]
    hs.sort(key=lambda x: x.lineno)
    return hs.index(h) + 1


def _always_raises(stmts):
    if not stmts:
        return False
    last = stmts[-1]
    if isinstance(last, ast.Raise):
        return True
    if isinstance(last, ast.If):
        return _always_raises(last.body) and _always_raises(last.orelse)
    return False


def run(ctx):
    rule_reseed(ctx)
    rule_seed_threading(ctx)
    rule_state(ctx)
    rule_stdout(ctx)
    rule_jobs(ctx)
