"""C09 (structural clauses): the array-map cache is threaded linearly (no stale tuple is reused),
each cached wrapper keys the cache with the very genotype whose likelihood it computes and calls
the same compute function on hit/miss/no-cache arms, every cache serves exactly one read set
(pedigree: reads, counts, mask and genotype row all indexed by the `sample=` of the key), the
likelihood a kernel returns is the one stored for the chosen state, and an overflow flush returns a
fresh map. Not decided: trie invariants under growth, NaN sentinel collisions."""
from __future__ import annotations
import ast
from ..terms import walk, show, simplify
from ..kernels import kwargs, storage_root
from ..model import bind_args

A = 'mchap.assemble.'
CACHE_RETURNING = {
    A + 'likelihood.log_likelihood_cached', A + 'likelihood.log_likelihood_structural_change_cached',
    A + 'mutation.base_step', A + 'mutation.compound_step', A + 'structural.interval_step', A + 'structural.compound_step',
}
PED_LIK = 'mchap.pedigree.likelihood.log_likelihood_alleles_cached'


# ------------------------------------------------------------------------------------------ R09.1
def rule_linear_threading(ctx):
    n_sites = 0
    for fq, f in ctx.prog.funcs.items():
        for node in ast.walk(f.node):
            if not isinstance(node, ast.Assign) or not isinstance(node.value, ast.Call):
                continue
            callee = ctx.prog.resolve_call(f, node.value)
            if callee not in CACHE_RETURNING:
                continue
            n_sites += 1
            ctx.functions.add(fq)
            con = f.construct(ctx.ordinal(f.qname, callee.split('.')[-1]))
            b = bind_args(ctx.prog.funcs[callee], node.value)
            passed = b.get('cache')
            tgt = node.targets[0]
            ok = isinstance(tgt, ast.Tuple) and len(tgt.elts) == 2 and isinstance(tgt.elts[1], ast.Name) \
                and isinstance(passed, ast.Name) and tgt.elts[1].id == passed.id
            ctx.check(ok, 'R09.1/linear-cache', con, f"cache '{ast.unparse(passed) if passed is not None else None}' rebound from the result",
                      f"updated cache is not rebound to the variable that was passed ({ast.unparse(tgt)} = ...cache={ast.unparse(passed) if passed is not None else None})",
                      f.where(node))
    ctx.minimum('R09.1', n_sites, 8)
    # functions that take a cache return it
    for q in sorted(CACHE_RETURNING):
        f = ctx.func(q)
        r = ctx.recon(q)
        rets = [ev for ev in r.events if ev.kind == 'return']
        good = bool(rets)
        for ev in rets:
            t = ev.data[0]
            good = good and t[0] == 'tuple' and len(t[1]) == 2 and _is_cache(ctx, t[1][1])
        ctx.check(good, 'R09.1/returns-cache', f.construct('return'), "returns (llk, cache) with the latest cache",
                  "function does not hand the (possibly replaced) cache back on every path", f.where())


def _is_cache(ctx, t):
    """the term is the cache parameter or an updated cache derived from it"""
    if t[0] == 'phi':
        return _is_cache(ctx, t[2]) and _is_cache(ctx, t[3])
    if t[0] == 'after':
        return _is_cache(ctx, t[2])
    if t == ('param', 'cache'):
        return True
    if t[0] == 'carried':
        return _is_cache(ctx, t[2])
    if t[0] == 'proj' and t[1] == 1 and t[2][0] == 'call' and t[2][1] in CACHE_RETURNING:
        return True
    if t[0] == 'call' and t[1] == A + 'arraymap.set':
        return _is_cache(ctx, t[2][0])
    return False


# ------------------------------------------------------------------------------------------ R09.2
def rule_key_value(ctx):
    # assemble plain wrapper
    f = ctx.func(A + 'likelihood.log_likelihood_cached')
    r = ctx.recon(f.qname)
    G = ('call', '.ravel', (('param', 'genotype'),), (), None)
    gets = [c for c, _, _ in r.calls if c[1] == A + 'arraymap.get']
    sets = [c for c, _, _ in r.calls if c[1] == A + 'arraymap.set']
    comps = [c for c, _, _ in r.calls if c[1] == A + 'likelihood.log_likelihood']
    ctx.need(len(gets) == 1 and len(sets) == 1 and len(comps) == 2, f"{f.qname}: unexpected shape")
    ok = gets[0][2][1] == G and sets[0][2][1] == G and all(c[2][:2] == (('param', 'reads'), ('param', 'genotype')) and kwargs(c).get('read_counts') == ('param', 'read_counts') for c in comps)
    ctx.check(ok, 'R09.2/key-value', f.construct('key'), "get/set key = genotype.ravel(); value = log_likelihood(reads, genotype, read_counts) on every arm",
              f"cache key and computed genotype differ: get={show(gets[0])[:80]} set={show(sets[0])[:80]}", f.where())
    ctx.check(sets[0][2][2][0] in ('call',) and sets[0][2][2] == comps[-1], 'R09.2/stored-value', f.construct('value'),
              "the value stored is the value just computed", f"stored value is {show(sets[0][2][2])[:80]}", f.where())

    # structural wrapper
    f = ctx.func(A + 'likelihood.log_likelihood_structural_change_cached')
    r = ctx.recon(f.qname)
    gets = [c for c, _, _ in r.calls if c[1] == A + 'arraymap.get']
    sets = [c for c, _, _ in r.calls if c[1] == A + 'arraymap.set']
    comps = [c for c, _, _ in r.calls if c[1] == A + 'likelihood.log_likelihood_structural_change']
    sc = [c for c, _, _ in r.calls if c[1] == 'mchap.jitutils.structural_change']
    ctx.need(len(gets) == 1 and len(sets) == 1 and len(comps) == 2 and len(sc) == 1, f"{f.qname}: unexpected shape")
    kw_sc = kwargs(sc[0])
    copy_ok = sc[0][2][0] == ('call', '.copy', (('param', 'genotype'),), (), None)
    key_args = (kw_sc.get('haplotype_indices'), kw_sc.get('interval'))
    val_ok = all((kwargs(c).get('genotype'), kwargs(c).get('haplotype_indices'), kwargs(c).get('interval'), kwargs(c).get('reads'), kwargs(c).get('read_counts'))
                 == (('param', 'genotype'), ('param', 'haplotype_indices'), ('param', 'interval'), ('param', 'reads'), ('param', 'read_counts')) for c in comps)
    key_ok = copy_ok and key_args == (('param', 'haplotype_indices'), ('param', 'interval'))

    def is_key(t):
        return t[0] == 'call' and t[1] == '.ravel' and t[2][0][0] == 'out' and t[2][0][1] == 'mchap.jitutils.structural_change'
    ctx.check(key_ok and val_ok and is_key(gets[0][2][1]) and is_key(sets[0][2][1]), 'R09.2/key-value', f.construct('key'),
              "key = structural_change(copy(genotype), haplotype_indices, interval); value computed for the same three arguments",
              f"key built from {show(sc[0])[:100]}; value from {show(comps[-1])[:120]}", f.where())

    # calling wrapper
    f = ctx.func('mchap.calling.likelihood.log_likelihood_alleles_cached')
    r = ctx.recon(f.qname)
    comps = [c for c, _, _ in r.calls if c[1] == 'mchap.calling.likelihood.log_likelihood_alleles']
    keys = [c for c, _, _ in r.calls if c[1] == 'mchap.jitutils.genotype_alleles_as_index']
    ctx.need(len(comps) == 2 and len(keys) == 1, f"{f.qname}: unexpected shape")
    k_ok = keys[0][2][0] == ('call', 'numpy.sort', (('param', 'genotype_alleles'),), (), None)
    v_ok = all(kwargs(c) == {k: ('param', k) for k in ('reads', 'read_counts', 'haplotypes', 'genotype_alleles')} for c in comps)
    ctx.check(k_ok and v_ok, 'R09.2/key-value', f.construct('key'), "key = index(sort(genotype_alleles)); value = likelihood of genotype_alleles on both arms",
              f"key {show(keys[0])[:80]} value {show(comps[-1])[:120]}", f.where())

    # pedigree wrapper
    f = ctx.func(PED_LIK)
    r = ctx.recon(f.qname)
    comps = [c for c, _, _ in r.calls if c[1] == A + 'likelihood.log_likelihood']
    keys = [c for c, _, _ in r.calls if c[1] == 'mchap.jitutils.genotype_alleles_as_index']
    ctx.need(len(comps) == 2 and len(keys) == 1, f"{f.qname}: unexpected shape")
    k_ok = keys[0][2][0] == ('param', 'genotype_alleles')
    v_ok = all(kwargs(c).get('genotype') == ('idx', ('param', 'haplotypes'), ('param', 'genotype_alleles')) for c in comps) and comps[0][3] == comps[1][3]
    st = [ev for ev in r.events if ev.kind == 'store' and ev.data[3] == ('param', 'cache')]
    key_ok = len(st) == 1 and st[0].data[1] == ('tuple', (('param', 'sample'), keys[0]))
    ctx.check(k_ok and v_ok and key_ok, 'R09.2/key-value', f.construct('key'), "key = (sample, index(genotype_alleles)); same computation on both arms",
              f"key {show(st[0].data[1]) if st else None}; value {show(comps[-1])[:120]}", f.where())


# ------------------------------------------------------------------------------------------ R09.3
def sample_template_problems(ctx, c):
    """pedigree cached likelihood: everything indexed by the sample of the key"""
    kw = kwargs(c)
    s = kw.get('sample')
    probs = []
    if s is None:
        return ["no sample= argument"]
    counts_s = ('idx', ('param', 'sample_read_counts'), s)
    mask = ('cmp', 'Gt', counts_s, ('const', 0))
    want_reads = ('idx', ('idx', ('param', 'sample_read_dists'), s), mask)
    want_counts = ('idx', counts_s, mask)
    if kw.get('reads') != want_reads:
        probs.append(f"reads = {show(kw.get('reads'))[:110]} (expected {show(want_reads)})")
    if kw.get('read_counts') != want_counts:
        probs.append(f"read_counts = {show(kw.get('read_counts'))[:110]} (expected {show(want_counts)})")
    g = kw.get('genotype_alleles')
    good = g is not None and g[0] == 'call' and g[1] == 'numpy.sort' and g[2][0][0] == 'idx'
    if good:
        base, ix = g[2][0][1], g[2][0][2]
        good = storage_root(ctx.prog, base) == ('param', 'sample_genotypes') and ix == ('tuple', (s, ('slice', ('const', 0), ('idx', ('param', 'sample_ploidy'), s), None)))
    if not good:
        probs.append(f"genotype_alleles = {show(g)[:120]} (expected sort(sample_genotypes[s, 0:sample_ploidy[s]]))")
    if storage_root(ctx.prog, kw.get('cache')) != ('param', 'llk_cache'):
        probs.append("cache is not the sampler's llk_cache")
    if kw.get('haplotypes') != ('param', 'haplotypes'):
        probs.append("haplotypes differ")
    return probs


def rule_pedigree_samples(ctx, rule='R09.3/sample-index'):
    n = 0
    for fq in ('mchap.pedigree.mcmc.metropolis_hastings_probabilities', 'mchap.pedigree.mcmc.gibbs_probabilities',
               'mchap.pedigree.mcmc.pair_allele_swap_step'):
        f = ctx.func(fq)
        r = ctx.recon(fq)
        seen = {}
        for c, _, node in r.calls:
            if c[1] != PED_LIK:
                continue
            n += 1
            c2 = simplify(c)
            s = kwargs(c2).get('sample')
            probs = sample_template_problems(ctx, c2)
            key = f.construct(f"log_likelihood_alleles_cached(sample={show(s)})")
            # one obligation per (function, sample); keep the first failing site
            if key in seen and not probs:
                continue
            if key in seen and seen[key]:
                continue
            seen[key] = bool(probs)
            ctx.check(not probs, rule, key, "reads, counts, mask and genotype row all belong to the sample of the cache key",
                      "; ".join(probs), f.where(node))
    ctx.minimum(rule, n, 7)


def rule_one_cache_one_readset(ctx):
    # assemble: the cache is created in _denovo_assembler next to the reads it serves, and every step gets those reads
    fq = A + 'mcmc._denovo_assembler'
    f = ctx.func(fq)
    r = ctx.recon(fq)
    steps = [(c, n) for c, _, n in r.calls if c[1] in (A + 'mutation.compound_step', A + 'structural.compound_step')]
    ctx.minimum('R09.3', len(steps), 4)
    for c, n in steps:
        kw = kwargs(c)
        ok = kw.get('reads') == ('param', 'reads') and kw.get('read_counts') == ('param', 'read_counts')
        ctx.check(ok, 'R09.3/one-readset', f.construct(ctx.ordinal(f.qname, f"{c[1].split('.')[-2]}.compound_step")),
                  "step receives the sampler's own reads/read_counts", f"step receives reads={show(kw.get('reads'))[:40]} read_counts={show(kw.get('read_counts'))[:40]}", f.where(n))
    for q, inner, names in ((A + 'mutation.compound_step', A + 'mutation.base_step', ('reads', 'read_counts', 'genotype')),
                            (A + 'structural.compound_step', A + 'structural.interval_step', ('reads', 'read_counts', 'genotype')),
                            (A + 'mutation.base_step', A + 'likelihood.log_likelihood_cached', ('reads', 'read_counts')),
                            (A + 'structural.interval_step', A + 'likelihood.log_likelihood_structural_change_cached', ('reads', 'read_counts', 'genotype', 'interval'))):
        f = ctx.func(q)
        r = ctx.recon(q)
        sites = [(c, n) for c, _, n in r.calls if c[1] == inner]
        ctx.minimum('R09.3', len(sites), 1)
        callee = ctx.func(inner)
        for c, n in sites:
            b = dict(zip(callee.params, c[2])); b.update(kwargs(c))
            bad = [nm for nm in names if storage_root(ctx.prog, b.get(nm)) != ('param', nm) and not (nm == 'genotype' and inner.endswith('log_likelihood_cached'))]
            ctx.check(not bad, 'R09.3/one-readset', f.construct(f"{callee.name}"), "reads/read_counts passed through unchanged",
                      f"{callee.name} receives modified {bad}", f.where(n))
    # calling / pedigree: a fresh dict per sampler invocation
    for fq, callee in (('mchap.calling.mcmc.mcmc_sampler', 'mchap.calling.mcmc.compound_step'), ('mchap.pedigree.mcmc.mcmc_sampler', 'mchap.pedigree.mcmc.compound_step')):
        f = ctx.func(fq)
        r = ctx.recon(fq)
        cs = [c for c, _, _ in r.calls if c[1] == callee]
        ctx.need(len(cs) == 1, f"{fq}: one compound_step call expected")
        root = kwargs(cs[0]).get('llk_cache')
        # strip in-place versions; accept phi(cache flag, {}, None)
        def fresh(t):
            t0 = t
            while t0[0] in ('carried', 'after', 'upd', 'out'):
                t0 = t0[2] if t0[0] in ('carried', 'after') else (t0[1] if t0[0] == 'upd' else storage_root(ctx.prog, t0))
                if t0 is None:
                    return False
            if t0[0] == 'phi':
                return fresh(t0[2]) or fresh(t0[3])
            return t0[0] == 'dict' and t0[1] == ()
        ctx.check(root is not None and fresh(root), 'R09.3/one-readset', f.construct('llk_cache'), "cache is a dict created inside the sampler invocation (one per read set)",
                  "the likelihood cache is not created per sampler invocation", f.where())


# ------------------------------------------------------------------------------------------ R09.4 / R09.5
def rule_carried(ctx):
    f = ctx.func('mchap.calling.mcmc.compound_step')
    r = ctx.recon(f.qname)
    rets = [ev for ev in r.events if ev.kind == 'return']
    ok = len(rets) == 1 and rets[0].data[0][0] == 'idx' and rets[0].data[0][2][0] in ('after',)
    if ok:
        idx = rets[0].data[0][2]
        ok = any(x[0] == 'call' and x[1] == 'mchap.jitutils.random_choice' for x in walk(idx))
        root = storage_root(ctx.prog, rets[0].data[0][1])
        ok = ok and root is not None and root[:3] == ('call', 'numpy.full', (('call', 'len', (('param', 'haplotypes'),), (), None), ('name', 'numpy.nan')))
    ctx.check(ok, 'R09.4/carried-llk', f.construct('return'), "returns the per-option likelihood of the last choice",
              f"returns {show(rets[0].data[0])[:100] if rets else None}", f.where())
    f = ctx.func('mchap.calling.mcmc.mcmc_sampler')
    r = ctx.recon(f.qname)
    step = [c for c, _, _ in r.calls if c[1] == 'mchap.calling.mcmc.compound_step']
    stores = [ev for ev in r.events if ev.kind == 'store' and ev.data[1][0] == 'loopvar']
    llk_st = [ev for ev in stores if step and ev.data[2] == step[0]]
    gen_st = [ev for ev in stores if ev.data[2][0] == 'call' and ev.data[2][1] == '.copy']
    ok = len(step) == 1 and len(llk_st) == 1 and len(gen_st) == 1 and llk_st[0].data[1] == gen_st[0].data[1]
    if ok:
        g = gen_st[0].data[2]
        ok = g[2][0][0] == 'out' and g[2][0][3] == step[0]
    ctx.check(ok, 'R09.4/trace', f.construct('trace'), "llk recorded is the value returned for the state copied into the trace",
              "trace records a likelihood that does not belong to the recorded state", f.where())
    f = ctx.func(A + 'structural.interval_step')
    r = ctx.recon(f.qname)
    rets = [ev for ev in r.events if ev.kind == 'return' and ev.data[0][0] == 'tuple' and ev.data[0][1][0] != ('param', 'llk')]
    ok = len(rets) == 1
    if ok:
        t = rets[0].data[0][1][0]
        applied = [ev for ev in r.events if ev.kind == 'expr' and ev.data[0][0] == 'call' and ev.data[0][1] == 'mchap.jitutils.structural_change']
        ok = t[0] == 'phi' and t[3] == ('param', 'llk') and t[2][0] == 'idx' and len(applied) == 1 \
            and any(c[0] == t[1] and c[1] for c in applied[0].conds)
    ctx.check(ok, 'R09.4/carried-llk', f.construct('return'), "llk replaced by llks[choice] exactly on the arm that applies the move",
              "returned likelihood and applied move are decided on different arms", f.where())


def rule_flush(ctx):
    fnew = ctx.func(A + 'arraymap.new')
    fset = ctx.func(A + 'arraymap.set')
    rnew = ctx.recon(fnew.qname)
    rset = ctx.recon(fset.qname)
    new_ret = [ev.data[0] for ev in rnew.events if ev.kind == 'return'][0]
    counters_new = new_ret[1][3:5]
    flushes = [ev for ev in rset.events if ev.kind == 'return' and any(c[0] == ('param', 'empty_if_full') and c[1] for c in ev.conds)]
    ctx.minimum('R09.5', len(flushes), 2)
    for ev in flushes:
        t = ev.data[0]
        ok = t[0] == 'tuple' and t[1][3:5] == counters_new
        ctx.check(ok, 'R09.5/flush-fresh', fset.construct(ctx.ordinal(fset.qname, "flush")), "flush returns the counters of a new map",
                  f"flush returns counters {show(('tuple', t[1][3:5]))}, a new map has {show(('tuple', counters_new))}", fset.where(ev.node))


def rule_fixed_positions(ctx):
    """DenovoMCMC._mcmc samples only the positions that are not fixed as homozygous and scatters the sampled genotypes back into a
    template of the fixed alleles.  The log-likelihoods it returns together with those genotypes must be those of the whole
    genotypes: the sampler's value plus the contribution of the fixed positions, which is the likelihood of the template restricted to
    them (all haplotypes agree there, so the mixture factorises).  Without it the recorded llk is not the llk of the recorded genotype
    (defect Q: 40 reads, 5 SNVs, default fix_homozygous: trace -55.588, recomputed -55.897)."""
    fq = 'mchap.assemble.mcmc.DenovoMCMC._mcmc'
    f = ctx.func(fq)
    r = ctx.recon(fq)
    LLK = 'mchap.assemble.likelihood.log_likelihood'
    rets = [ev for ev in r.events if ev.kind == 'return' and ev.data[0][0] == 'tuple' and len(ev.data[0][1]) == 2]
    scattered = [ev for ev in rets if any(x[0] == 'upd' and any(y[0] == 'call' and y[1].endswith('_denovo_assembler') for y in walk(x[3])) for x in walk(ev.data[0][1][0]))]
    ctx.need(len(scattered) == 1, f"{fq}: the return of the genotypes scattered back into the template of fixed alleles was not found")
    gen, llk = scattered[0].data[0][1]
    sampler = [x for x in walk(llk) if x[0] == 'call' and x[1].endswith('_denovo_assembler')]
    fixed_part = [x for x in walk(llk) if x[0] == 'call' and x[1] == LLK]
    ok = bool(sampler) and len(fixed_part) == 1
    detail = ""
    if ok:
        kw = dict(fixed_part[0][3])
        reads_arg, geno_arg = kw.get('reads'), kw.get('genotype')
        # both restricted to the same mask, and that mask is the complement of the one the sampler's reads were restricted to
        def mask_of(t):
            return t[2][1][-1] if t and t[0] == 'idx' and t[2][0] == 'tuple' else None
        m_fixed, m_geno = mask_of(reads_arg), mask_of(geno_arg)
        s_reads = dict(sampler[0][3]).get('reads')
        m_het = mask_of(s_reads)
        ok = m_fixed is not None and m_fixed == m_geno and m_het == ('un', 'Invert', m_fixed) and kw.get('read_counts') == ('param', 'read_counts') \
            and any(x == ('param', 'reads') for x in walk(reads_arg))
        detail = f"fixed part: reads{show(reads_arg)[5:60] if reads_arg else None}"
    ctx.check(ok, 'R09.6/fixed-positions', f.construct('llks'), "recorded llk = sampler's llk + likelihood of the fixed positions (same reads, same counts, complementary masks)",
              "the log-likelihoods returned with the re-assembled genotypes are the sampler's values for the non-fixed positions only: "
              "they are not the likelihood of the recorded genotypes " + detail, f.where(scattered[0].node))


def rule_mock_read(ctx):
    """DenovoMCMC.fit replaces an empty read set by one all-nan read.  The counts handed on with it must not be the caller's (empty)
    count array: the jitted likelihood indexes counts by read and has no bounds check, so the recorded llk would be a product of
    unrelated memory (defect R: four identical fits of a sample without reads gave -0.0104, -0.0156, -2.5e-06, -0.0104)."""
    fq = 'mchap.assemble.mcmc.DenovoMCMC.fit'
    f = ctx.func(fq)
    r = ctx.recon(fq)
    calls = [c for c, _, _ in r.calls if c[1].endswith('DenovoMCMC._mcmc')]
    ctx.need(len(calls) == 1, f"{fq}: one call of _mcmc expected")
    kw = dict(calls[0][3])
    reads, counts = kw.get('reads'), kw.get('read_counts')
    # reads is phi(no reads, mock, param); the counts must be decided by the same condition and not be the parameter on the mock arm
    ok = reads is not None and counts is not None and reads[0] == 'phi' and counts[0] == 'phi' and reads[1] == counts[1]
    if ok:
        mock_arm = 3 if reads[2] == ('param', 'reads') else 2
        ok = not any(x == ('param', 'read_counts') for x in walk(counts[mock_arm]))
    ctx.check(ok, 'R09.7/mock-read-counts', f.construct('read_counts'), "the mock read of an empty read set is not paired with the caller's empty count array",
              "with an empty read set the single mock read is passed on together with the caller's (empty) read_counts, which the jitted likelihood indexes out of bounds", f.where())


def run(ctx):
    rule_mock_read(ctx)
    rule_fixed_positions(ctx)
    rule_linear_threading(ctx)
    rule_key_value(ctx)
    rule_pedigree_samples(ctx)
    rule_one_cache_one_readset(ctx)
    rule_carried(ctx)
    rule_flush(ctx)
    # the key of the calling and pedigree caches is the genotype index: it is only injective if the binomial tables it is built from are
    # read within their own bounds and hold what the fall-back computes
    from .c11 import rule_tables
    rule_tables(ctx, rule='R09.8')
