"""C10 (structural clauses): in every per-sample loop no variable assigned in one iteration can be read
in a later one before being reassigned (no loop-carried flow), every store into the per-sample output
tables is keyed by the loop's own sample, pooled members are extracted one by one, concatenated and
only then de-duplicated, and in assemble the per-sample statistics are stored before the population
haplotype list is formed. Not decided: equality of the resulting outputs."""
from __future__ import annotations
import ast
from ..terms import walk, show
from ..pat import has, find, find_all

APP = 'mchap.application.'
LOOP_FUNCS = [APP + 'baseclass.program.encode_sample_reads', APP + 'assemble.program.call_sample_genotypes',
              APP + 'call.program.call_sample_genotypes', APP + 'call_exact.program.call_sample_genotypes',
              APP + 'call_pedigree.program.call_sample_genotypes']


def assigned_names(stmts):
    out = set()
    for st in stmts:
        for n in ast.walk(st):
            if isinstance(n, (ast.Assign, ast.AnnAssign, ast.AugAssign)):
                tgts = n.targets if isinstance(n, ast.Assign) else [n.target]
                for t in tgts:
                    for m in ast.walk(t):
                        if isinstance(m, ast.Name) and isinstance(m.ctx, ast.Store):
                            out.add(m.id)
            elif isinstance(n, (ast.For, ast.comprehension)):
                for m in ast.walk(n.target):
                    if isinstance(m, ast.Name):
                        out.add(m.id)
            elif isinstance(n, ast.withitem) and n.optional_vars is not None:
                for m in ast.walk(n.optional_vars):
                    if isinstance(m, ast.Name):
                        out.add(m.id)
            elif isinstance(n, ast.ExceptHandler) and n.name:
                out.add(n.name)
    return out


class CarriedFinder:
    """names of `interest` that may be read before being (re)defined in the same iteration"""

    def __init__(self, interest):
        self.interest = interest
        self.hits = {}

    def uses(self, node, defined):
        for m in ast.walk(node):
            if isinstance(m, ast.Name) and isinstance(m.ctx, ast.Load) and m.id in self.interest and m.id not in defined:
                self.hits.setdefault(m.id, m.lineno)

    def targets(self, t, defined):
        for m in ast.walk(t):
            if isinstance(m, ast.Name) and isinstance(m.ctx, ast.Store):
                defined.add(m.id)

    def block(self, stmts, defined):
        for st in stmts:
            defined = self.stmt(st, defined)
        return defined

    def stmt(self, st, defined):
        d = set(defined)
        if isinstance(st, ast.Assign):
            self.uses(st.value, d)
            for t in st.targets:
                if isinstance(t, (ast.Subscript, ast.Attribute)):
                    self.uses(t, d)
                self.targets(t, d)
        elif isinstance(st, ast.AugAssign):
            self.uses(st.value, d)
            self.uses(ast.Name(id=st.target.id, ctx=ast.Load(), lineno=st.lineno), d) if isinstance(st.target, ast.Name) else self.uses(st.target, d)
            self.targets(st.target, d)
        elif isinstance(st, ast.AnnAssign):
            if st.value is not None:
                self.uses(st.value, d)
                self.targets(st.target, d)
        elif isinstance(st, ast.If):
            self.uses(st.test, d)
            a = self.block(st.body, set(d))
            b = self.block(st.orelse, set(d))
            d = a & b if st.orelse else d & a
            if _always_exits(st.body):
                d = b
            elif st.orelse and _always_exits(st.orelse):
                d = a
        elif isinstance(st, ast.For):
            self.uses(st.iter, d)
            inner = set(d)
            self.targets(st.target, inner)
            self.block(st.body, inner)
            # names defined only inside the inner loop are not must-defined afterwards
        elif isinstance(st, ast.While):
            self.uses(st.test, d)
            self.block(st.body, set(d))
        elif isinstance(st, ast.With):
            for it in st.items:
                self.uses(it.context_expr, d)
                if it.optional_vars is not None:
                    self.targets(it.optional_vars, d)
            d = self.block(st.body, d)
        elif isinstance(st, ast.Try):
            after = self.block(st.body, set(d))
            for h in st.handlers:
                hd = set(d)
                if h.name:
                    hd.add(h.name)
                self.block(h.body, hd)
            d = self.block(st.orelse, after) if st.orelse else after
            if all(_always_exits(h.body) for h in st.handlers):
                pass
            else:
                d = d & set(defined)
            d = self.block(st.finalbody, d)
        elif isinstance(st, (ast.Expr, ast.Return, ast.Raise, ast.Assert, ast.Delete)):
            self.uses(st, d)
        else:
            self.uses(st, d)
        return d


def _always_exits(stmts):
    return bool(stmts) and isinstance(stmts[-1], (ast.Raise, ast.Return, ast.Continue, ast.Break))


def sample_loops(fn_node):
    out = []
    for n in ast.walk(fn_node):
        if isinstance(n, ast.For):
            names = [m.id for m in ast.walk(n.target) if isinstance(m, ast.Name)]
            it = ast.unparse(n.iter)
            if it == 'data.samples' and len(names) == 1:
                out.append((n, names[0]))
            elif it == 'enumerate(data.samples)' and len(names) == 2:
                out.append((n, names[1]))
    return out


def _stmts_between(fn_node, a, b):
    """statements of the function (at any depth, outside a and b) that lie between the end of loop a and the start of loop b"""
    out = []
    for n in ast.walk(fn_node):
        if isinstance(n, ast.stmt) and n is not a and n is not b and a.end_lineno < n.lineno and n.end_lineno < b.lineno:
            out.append(n)
    return out


def rule_loop_carried(ctx):
    n_loops = 0
    n_stores = 0
    for fq in LOOP_FUNCS:
        f = ctx.func(fq)
        for k, (loop, svar) in enumerate(sample_loops(f.node), 1):
            n_loops += 1
            con = f.construct(f"sample loop #{k}")
            interest = assigned_names(loop.body)
            tnames = {m.id for m in ast.walk(loop.target) if isinstance(m, ast.Name)}
            cf = CarriedFinder(interest - tnames)
            cf.block(loop.body, set(tnames))
            ctx.check(not cf.hits, 'R10.1/no-loop-carried', con, f"{len(interest)} names assigned in the body, none readable from a previous iteration",
                      "variables may carry a value from the previous sample into this one: " + ", ".join(f"{v} (line {ln})" for v, ln in sorted(cf.hits.items())), f.where(loop))
            # a name last assigned inside an earlier loop of the function holds the value of that loop's last sample: it must not be
            # read in this loop before this loop defines it (unless it was re-initialised between the two loops)
            leaked = set()
            for loop2, _ in sample_loops(f.node):
                if loop2 is not loop and loop2.end_lineno < loop.lineno:
                    between = [s for s in _stmts_between(f.node, loop2, loop)]
                    leaked |= (assigned_names(loop2.body) | {m.id for m in ast.walk(loop2.target) if isinstance(m, ast.Name)}) - assigned_names(between)
            lf = CarriedFinder(leaked - tnames)
            lf.block(loop.body, set(tnames))
            ctx.check(not lf.hits, 'R10.1/no-leftover-from-earlier-loop', con, f"{len(leaked)} names left over from earlier per-sample loops, none read before being redefined",
                      "values left over from the last sample of an earlier loop are read for every sample: " + ", ".join(f"{v} (line {ln})" for v, ln in sorted(lf.hits.items())), f.where(loop))
            # a container created outside the loop that the body both fills and reads is a channel from one sample to the next
            # (a memo keyed by file path, a list that is never reset), unless it is keyed by the loop's own sample on both sides
            body_assigned = assigned_names(loop.body)
            filled, read = {}, {}
            for n in ast.walk(loop):
                if isinstance(n, ast.Subscript) and isinstance(n.value, ast.Name) and n.value.id not in body_assigned | tnames | {'data', 'self'}:
                    key = ast.unparse(n.slice)
                    (filled if isinstance(n.ctx, ast.Store) else read).setdefault(n.value.id, []).append((key, n.lineno))
                elif isinstance(n, ast.Call) and isinstance(n.func, ast.Attribute) and isinstance(n.func.value, ast.Name) \
                        and n.func.value.id not in body_assigned | tnames | {'data', 'self'} and n.func.value.id not in f.module.imports:
                    if n.func.attr in ('append', 'extend', 'update', 'setdefault', 'add', 'insert'):
                        filled.setdefault(n.func.value.id, []).append(('*', n.lineno))
                        if n.func.attr == 'setdefault':
                            read.setdefault(n.func.value.id, []).append(('*', n.lineno))
                    elif n.func.attr in ('get', 'pop', 'items', 'values', 'keys', '__contains__'):
                        read.setdefault(n.func.value.id, []).append(('*', n.lineno))
                elif isinstance(n, ast.Compare) and any(isinstance(o, (ast.In, ast.NotIn)) for o in n.ops):
                    for c in n.comparators:
                        if isinstance(c, ast.Name) and c.id not in body_assigned | tnames | {'data', 'self'}:
                            read.setdefault(c.id, []).append(('*', n.lineno))
            channels = []
            for name in sorted(set(filled) & set(read)):
                keys = {k for k, _ in filled[name]} | {k for k, _ in read[name]}
                if keys != {svar}:
                    channels.append(f"{name} (filled at line {filled[name][0][1]}, read at line {read[name][0][1]})")
            ctx.check(not channels, 'R10.1/no-cross-sample-container', con, "no container from outside the loop is both filled and read by the body",
                      "containers that outlive one sample are filled and read inside the per-sample loop: " + ", ".join(channels), f.where(loop))
            # every store into per-sample tables is keyed by this loop's sample
            bad = []
            for st in ast.walk(loop):
                if isinstance(st, ast.Assign):
                    for t in st.targets:
                        txt = ast.unparse(t)
                        if txt.startswith(('data.sampledata[', 'data.read_calls[', 'data.read_dists[', 'data.read_counts[')):
                            n_stores += 1
                            key = ast.unparse(t.slice) if isinstance(t, ast.Subscript) else None
                            if key != svar:
                                bad.append(f"{txt} (line {st.lineno})")
            ctx.check(not bad, 'R10.1/keyed-by-sample', con, f"all per-sample stores keyed by `{svar}`", f"stores not keyed by the loop's sample: {bad}", f.where(loop))
    ctx.minimum('R10.1', n_loops, 8)
    ctx.minimum('R10.1/keyed-by-sample', n_stores, 40)


def rule_pool(ctx):
    f = ctx.func(APP + 'baseclass.program.encode_sample_reads')
    # order of the pooling pipeline, located by what each statement does (names are bound by the patterns)
    def line(pattern, b=None):
        r = find_all(f.node, pattern, b)
        return (r[0][0].lineno, r[0][1]) if r else (None, None)
    l1, b = line("for _name, _path in _pairs:\n    _BODY")
    if l1 is None:
        loops = [n for n in ast.walk(f.node) if isinstance(n, ast.For) and isinstance(n.target, ast.Tuple) and has(n, 'extract_read_variants')]
        l1 = loops[0].lineno if loops else None
    l2, b2 = line("_chars = np.concatenate(_chars)")
    l3, b3 = line(f"_calls = encode_read_alleles(_loc, {b2['_chars']})", None) if b2 else (None, None)
    l4, _ = line("_u, _c = mset.unique_counts(_dists)")
    order = [l1, l2, l3, l4]
    ctx.check(all(o is not None for o in order) and order == sorted(order), 'R10.2/pool-order', f.construct('pool'), "extract per member -> concatenate -> encode -> de-duplicate",
              f"pool members are no longer concatenated before encoding/de-duplication (lines {order})", f.where())
    g = ctx.func(APP + 'arguments.parse_sample_pools')
    n1, b = find(g.node, "_pb[_pool].append((_sample, _bam))")
    ok = n1 is not None and has(g.node, f"{b['_pb']}[{b['_pool']}] = [({b['_sample']}, {b['_bam']})]") and has(g.node, f"for {b['_sample']}, {b['_pool']} in _lines:\n    _BODY") or \
        (n1 is not None and has(g.node, f"{b['_pb']}[{b['_pool']}] = [({b['_sample']}, {b['_bam']})]"))
    ctx.check(bool(ok), 'R10.4/multi-pool', g.construct('pools'), "each (sample, pool) line adds the sample to that pool", "a sample listed for several pools is no longer added to each", g.where())


def rule_assemble_stages(ctx):
    fq = APP + 'assemble.program.call_sample_genotypes'
    f = ctx.func(fq)
    loops = sample_loops(f.node)
    ctx.need(len(loops) == 2, f"{fq}: two per-sample loops expected")
    union = [n for n in ast.walk(f.node) if isinstance(n, ast.Call) and ast.unparse(n.func) == 'call_posterior_haplotypes']
    ctx.need(len(union) == 1, f"{fq}: one call_posterior_haplotypes expected")
    first, second = loops[0][0], loops[1][0]
    ok = first.end_lineno < union[0].lineno < second.lineno
    stat1 = {ast.unparse(t).split('[')[1].split(']')[0] for st in ast.walk(first) if isinstance(st, ast.Assign) for t in st.targets if ast.unparse(t).startswith('data.sampledata[')}
    need = {'FORMAT.SPM', 'FORMAT.SQ', 'FORMAT.GQ', 'FORMAT.GPM', 'FORMAT.MEC', 'FORMAT.MECP', 'FORMAT.MCI'}
    ctx.check(ok and need <= stat1, 'R10.3/stats-before-union', f.construct('stages'), "per-sample statistics stored before the population haplotype list exists",
              f"statistics {sorted(need - stat1)} are no longer computed in the per-sample stage that precedes call_posterior_haplotypes", f.where())
    # in the second stage, other samples can only enter through haplotypes / haplotype_labels
    # names that carry population-level information into stage 2: the results of call_posterior_haplotypes and what is derived from them,
    # plus the two per-sample dictionaries filled in stage 1
    between = [s for s in f.node.body if first.end_lineno < s.lineno < second.lineno]
    derived = set()
    for st in between:
        if isinstance(st, ast.Assign) and union[0] in list(ast.walk(st)):
            derived |= {m.id for t in st.targets for m in ast.walk(t) if isinstance(m, ast.Name)}
    changed = True
    while changed:
        changed = False
        for st in between:
            if isinstance(st, ast.Assign) and any(isinstance(m, ast.Name) and m.id in derived for m in ast.walk(st.value)):
                new_names = {m.id for t in st.targets for m in ast.walk(t) if isinstance(m, ast.Name)} - derived
                if new_names:
                    derived |= new_names; changed = True
    dicts = {n.targets[0].id for n in f.node.body if isinstance(n, ast.Assign) and isinstance(n.targets[0], ast.Name) and ast.unparse(n.value) == 'dict()' and n.lineno < first.lineno}
    shared = derived | dicts
    names_before = assigned_names([s for s in f.node.body if s.lineno < second.lineno]) - assigned_names(first.body)
    used = {m.id for m in ast.walk(second) if isinstance(m, ast.Name) and isinstance(m.ctx, ast.Load)}
    loopvars = {m.id for m in ast.walk(second.target) if isinstance(m, ast.Name)} | {m.id for m in ast.walk(first.target) if isinstance(m, ast.Name)}
    cross = (used & names_before) - shared - {'data', 'self'} - loopvars
    ctx.check(not cross, 'R10.3/only-labels-shared', f.construct('stage 2'), "second stage reads population-level data only through haplotypes/haplotype_labels",
              f"second stage reads other population-level values: {sorted(cross)}", f.where(second))


def run(ctx):
    from .c08 import rule_reseed
    # per-sample independence of the two sampling programs relies on every fit starting from the seeded generator state
    rule_reseed(ctx, rule='R10.1/per-fit-reseed', fits=['mchap.assemble.mcmc.DenovoMCMC.fit', 'mchap.calling.classes.CallingMCMC.fit'])
    rule_loop_carried(ctx)
    rule_pool(ctx)
    rule_assemble_stages(ctx)
