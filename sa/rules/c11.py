"""C11 (structural clauses): no float-valued binomial sizes or indexes anything (scipy.special.comb
must be exact); the binomial tables are read only under a strict bound check against the shape of
the very table that is read, and the fall-back is the function that filled the table; the index <->
genotype functions and all enumerators use the same multiset coefficient with the 1-based position.
Not decided: bijectivity / VCF order of the combinatorial number system (arithmetic)."""
from __future__ import annotations
import ast
from ..terms import mkcmp, atoms, path, walk, show
from ..kernels import kwargs
from .c03 import lockstep

J = 'mchap.jitutils.'


def rule_exact(ctx):
    n = 0
    for fq, f in sorted(ctx.prog.funcs.items()):
        for node in ast.walk(f.node):
            if isinstance(node, ast.Call) and ctx.prog.resolve_call(f, node) == 'scipy.special.comb':
                n += 1
                ctx.functions.add(fq)
                exact = [k for k in node.keywords if k.arg == 'exact']
                ok = bool(exact) and isinstance(exact[0].value, ast.Constant) and exact[0].value.value is True
                ctx.check(ok, 'R11.1/exact-binomial', f.construct('scipy.special.comb'), "exact=True",
                          f"`{ast.unparse(node)}` is evaluated in floating point and truncated: counts above 2^47 or so lose their last digits "
                          f"although they are far below 2^53", f.where(node))
    ctx.minimum('R11.1', n, 1)


def rule_tables(ctx, rule='R11.2'):
    mod = ctx.prog.modules.get('mchap.jitutils')
    ctx.need(mod is not None, "anchor vanished: mchap.jitutils")
    for fn, table, slow in (('comb', '_COMB_CACHE', '_comb'), ('comb_with_replacement', '_COMB_WITH_REPLACEMENT_CACHE', '_comb_with_replacement')):
        f = ctx.func(J + fn)
        r = ctx.recon(J + fn)
        rets = [ev for ev in r.events if ev.kind == 'return']
        T = ('name', J + table)
        n_, k_ = ('param', 'n'), ('param', 'k')
        fast = [ev for ev in rets if ev.data[0] == ('idx', T, ('tuple', (n_, k_)))]
        slowr = [ev for ev in rets if ev.data[0][0] == 'call' and ev.data[0][1] == J + slow and ev.data[0][2] == (n_, k_)]
        ok = len(fast) == 1 and len(slowr) == 1 and len(rets) == 2
        cond_ok = False
        if ok:
            shape = ('attr', T, 'shape')
            want = {(mkcmp('Lt', n_, ('proj', 0, shape)), True), (mkcmp('Lt', k_, ('proj', 1, shape)), True)}
            # n and k index the table, so they are integers: `not n >= s` is `n < s`
            neg = {'GtE': 'Lt', 'LtE': 'Gt', 'Gt': 'LtE', 'Lt': 'GtE'}
            got = {(mkcmp(neg[c[1]], c[2], c[3]), True) if (not pol and c[0] == 'cmp' and c[1] in neg) else (c, pol) for c, pol in atoms(path(fast[0]))}
            cond_ok = got == want
        ctx.check(ok and cond_ok, rule + '/table-guard', f.construct(table), f"{table}[n, k] read only if n < shape[0] and k < shape[1]; otherwise {slow}(n, k)",
                  f"table read is not guarded by a strict bound check against {table}.shape, or the fall-back is not {slow}(n, k)", f.where())
        # fill loop at module level
        filled = False
        for node in mod.tree.body:
            if isinstance(node, ast.For) and ast.unparse(node.iter) == f"range({table}.shape[0])":
                for inner in node.body:
                    if isinstance(inner, ast.For) and ast.unparse(inner.iter) == f"range({table}.shape[1])":
                        for st in inner.body:
                            if isinstance(st, ast.Assign) and ast.unparse(st.targets[0]) == f"{table}[{ast.unparse(node.target)}, {ast.unparse(inner.target)}]" \
                                    and ast.unparse(st.value) == f"{slow}({ast.unparse(node.target)}, {ast.unparse(inner.target)})":
                                filled = True
        ctx.check(filled, rule + '/table-fill', f.construct(table + ' fill'), f"table filled over its whole shape with {slow}",
                  f"{table} is not filled over its full shape by {slow} (the fall-back used beyond the table)", f.where())


def rule_family(ctx):
    f = ctx.func(J + 'genotype_alleles_as_index')
    r = ctx.recon(f.qname)
    cs = [c for c, _, _ in r.calls if c[1] == J + 'comb_with_replacement']
    ok = len(cs) == 1 and cs[0][2][0][0] == 'idx' and cs[0][2][0][1] == ('param', 'alleles') and cs[0][2][1][0] == 'bin' and cs[0][2][1][1] == 'Add' \
        and cs[0][2][1][2] == cs[0][2][0][2] and cs[0][2][1][3] == ('const', 1)
    ctx.check(ok, 'R11.3/coefficient', f.construct('comb_with_replacement'), "index += C((a_i, i+1)) with the 1-based position of the allele",
              f"index term is {show(cs[0])[:100] if cs else None}", f.where())
    f = ctx.func(J + 'index_as_genotype_alleles')
    r = ctx.recon(f.qname)
    cs = [c for c, _, _ in r.calls if c[1] == J + 'comb_with_replacement']
    st = [ev for ev in r.events if ev.kind == 'store' and ev.data[1][0] == 'bin' and any(isinstance(c[0], tuple) and c[0][0] == 'inloop' for c in ev.conds)]
    ok = len(cs) == 1 and len(st) == 1
    if ok:
        p = cs[0][2][1]
        ok = p[0] == 'bin' and p[1] == 'Sub' and p[2] == ('param', 'ploidy') and st[0].data[1] == ('bin', 'Sub', p, ('const', 1))
    ctx.check(ok, 'R11.3/coefficient', f.construct('comb_with_replacement'), "allele at 0-based position p-1 found with C((n, p)), p = ploidy - step",
              "inverse mapping does not use the same coefficient/position convention", f.where())


def rule_symmetry(ctx):
    """_comb multiplies over min(k, n - k) factors: after step d the running product is C(n, d), so with d <= n/2 it never exceeds
    the result and the intermediate product is below result * k < 2**63 whenever the result is below 2**53.  Without the reduction
    C(63, 44) (6.1e15 < 2**53) overflows on the way through C(63, 31) (defect I)."""
    f = ctx.func(J + '_comb')
    r = ctx.recon(J + '_comb')
    loops = [ev for ev in r.events if ev.kind == 'loop_enter']
    ctx.need(len(loops) == 1, f"{f.qname}: one multiplicative loop expected")
    it = loops[0].data[0]
    n_, k_ = ('param', 'n'), ('param', 'k')
    bound = it[2][-1] if it[0] == 'call' and it[1] == 'range' and it[2] else None
    # the loop bound is (reduced k) + 1
    reduced = None
    if bound is not None and bound[0] == 'bin' and bound[1] == 'Add' and ('const', 1) in (bound[2], bound[3]):
        reduced = bound[2] if bound[3] == ('const', 1) else bound[3]
    def is_min(t):
        if t is None or t[0] != 'call' or t[1] not in ('min', 'numpy.minimum') or len(t[2]) != 2:
            return False
        a, b = t[2]
        diff = ('bin', 'Sub', n_, k_)
        return {a, b} == {k_, diff}
    ok = is_min(reduced)
    # and the reduction is only reached with k <= n
    guard = mkcmp('Gt', k_, n_)
    after_guard = any((guard, False) in atoms(path(ev) or []) for ev in loops)
    ctx.check(ok and after_guard, 'R11.4/symmetric-product', f.construct('loop bound'), "the product runs over min(k, n - k) factors, reached only with k <= n",
              f"_comb multiplies over {show(reduced) if reduced else show(it)} factors: the running product passes through the central coefficients "
              f"and overflows int64 for k > n/2 although the result is below 2**53", f.where())


def run(ctx):
    rule_symmetry(ctx)
    rule_exact(ctx)
    rule_tables(ctx)
    rule_family(ctx)
    lockstep(ctx, rule='R11.3')
