"""C12 (structural clauses): the renderer (Locus.format_haplotypes) and the encoder
(LocusPrior.encode_haplotypes) use the same allele table and the same column set (positions - start)
with REF as row 0; SNVs are the columns where some row differs from row 0 and alleles are numbered by
first appearance; the calling programs pass REF/ALT/POS of the input record through (ALT after the
allele filter); a GT with missing alleles is only stored on a path that appended NOA or AF0.
Not decided: round-trip equality for arbitrary strings."""
from __future__ import annotations
import ast
from ..terms import walk, show, simplify
from ..kernels import kwargs
from .c16 import rule_from_record
from ..pat import has, find, find_all

L = 'mchap.io.loci.'


def stmts(fn_node):
    """set of the unparsed simple statements of a function (whole statements, not substrings)"""
    return {ast.unparse(n) for n in ast.walk(fn_node) if isinstance(n, (ast.Assign, ast.AugAssign, ast.Expr, ast.Return))}


def rule_tables(ctx):
    fmt = ctx.func(L + 'Locus.format_haplotypes')
    enc = ctx.func(L + 'LocusPrior.encode_haplotypes')
    tpl = ctx.func(L + 'Locus._template_sequence')
    ok = has(fmt.node, "integer.as_characters(array, gap=gap, alleles=self.alleles)") and has(enc.node, "character.as_allelic(_chars[:, _idx], self.alleles)")
    ctx.check(ok, 'R12.1/same-allele-table', fmt.construct('alleles'), "renderer and encoder both use self.alleles", "renderer and encoder no longer share the allele table", fmt.where())
    n1, b1 = find(enc.node, "_idx = np.array(self.positions) - self.start")
    n2, b2 = find(tpl.node, "for _pos in self.positions:\n    _BODY")
    ok = n1 is not None and n1.__class__ is ast.Assign
    loops = [n for n in ast.walk(tpl.node) if isinstance(n, ast.For) and ast.unparse(n.iter) == 'self.positions' and isinstance(n.target, ast.Name)]
    ok = ok and len(loops) == 1 and has(loops[0], f"_i = {loops[0].target.id} - self.start")
    ok = ok and has(enc.node, f"character.as_allelic(_chars[:, {b1['_idx']}], self.alleles)") if ok else False
    ctx.check(bool(ok), 'R12.1/same-columns', enc.construct('columns'), "both address column position - start", "renderer and encoder address different columns", enc.where())
    ok = has(enc.node, "_strings = (self.sequence,) + self.alts")
    ctx.check(ok, 'R12.1/ref-row-0', enc.construct('rows'), "row 0 is the reference sequence", "reference is no longer row 0 of the encoded haplotypes", enc.where())
    f = ctx.func(L + 'LocusPrior.from_variant_record')
    ok = has(f.node, "_positions = np.where((_h != _h[0:1]).any(axis=0))[0]")
    ctx.check(ok, 'R12.2/snv-discovery', f.construct('positions'), "SNVs = columns where any row differs from the reference row", "SNV discovery changed", f.where())
    n1, b = find(f.node, "_u, _idx = np.unique(_alleles, return_index=True)")
    ok = n1 is not None and has(f.node, f"{b['_idx']}.sort()") and has(f.node, f"{b['_alleles']} = tuple({b['_alleles']}[{b['_idx']}])")
    ctx.check(bool(ok), 'R12.2/first-appearance', f.construct('alleles'), "alleles numbered by first appearance (REF = 0)", "alleles are no longer numbered by first appearance", f.where())
    ok = has(f.node, "_pos = _offset + record.start") and has(f.node, "start=record.start") is not None
    rets = [n for n in ast.walk(f.node) if isinstance(n, ast.Return) and isinstance(n.value, ast.Call)]
    kw = {k.arg: ast.unparse(k.value) for k in rets[-1].value.keywords} if rets else {}
    ok = ok and kw.get('start') == 'record.start' and kw.get('stop') == 'record.stop' and kw.get('contig') == 'record.chrom'
    ctx.check(ok, 'R12.2/coordinates', f.construct('coordinates'), "SNV positions = offset + record.start", "coordinates changed", f.where())


def rule_passthrough(ctx):
    for prog in ('call', 'call_exact', 'call_pedigree'):
        fq = f'mchap.application.{prog}.program.call_sample_genotypes'
        f = ctx.func(fq)
        ok = has(f.node, "data.columndata[COLUMN.REF] = data.locus.sequence") and has(f.node, "data.columndata[COLUMN.ALT] = data.locus.alts")
        ctx.check(ok, 'R12.3/ref-alt-passthrough', f.construct('REF/ALT'), "REF = locus.sequence, ALT = locus.alts", "REF/ALT are not passed through from the input record", f.where())
        # missing GT only under NOA/AF0
        miss = find_all(f.node, "data.sampledata[FORMAT.GT][_s] = np.full(_p, -1, dtype=np.int64)")
        ok = len(miss) == 1
        if ok:
            guard = [n for n in ast.walk(f.node) if isinstance(n, ast.If) and isinstance(n.test, ast.Name) and miss[0][0] in list(ast.walk(n))]
            ok = len(guard) == 1
            flag = guard[0].test.id if ok else None
            # the flag is set to True only in arms that append a filter
            for n in ast.walk(f.node):
                if isinstance(n, ast.If) and ok:
                    for arm in (n.body, n.orelse):
                        sets = [s_ for s_ in arm if isinstance(s_, ast.Assign) and ast.unparse(s_) == f'{flag} = True']
                        if sets and not any(has(s_, "data.columndata[COLUMN.FILTER].append(_F)") for s_ in arm):
                            ok = False
        ctx.check(ok, 'R12.4/missing-only-with-filter', f.construct('missing GT'), "missing GT only when NOA/AF0 was appended",
                  "a missing genotype can be written without the NOA/AF0 filter", f.where())
    f = ctx.func('mchap.application.baseclass.program.sumarise_vcf_record')
    ok = has(f.node, "data.columndata[COLUMN.POS] = data.locus.start + 1")
    ctx.check(ok, 'R12.3/pos', f.construct('POS'), "POS = locus.start + 1 = record.pos", "POS is not the input record's position", f.where())


def rule_labels(ctx):
    """`mchap call` and `call-pedigree` sample over the un-masked subset of the input alleles and map the result back to the allele
    numbers of the record; a label vector that is not the plain vector of kept positions (narrowed by a cast, say) turns called
    alleles into negative numbers, which the writer renders as '.' in a record without NOA/AF0"""
    from .c14 import relabel_vector
    relabel_vector(ctx, 'R12.4/labels', "called alleles are mapped back through the plain vector of kept positions",
                   "the vector mapping sampled alleles back to allele numbers of the record is not the plain vector of kept positions: "
                   "allele numbers can wrap or go missing and the genotype is written with '.' alleles")


def run(ctx):
    rule_labels(ctx)
    rule_tables(ctx)
    rule_passthrough(ctx)
    rule_from_record(ctx)
