"""C13 (structural clauses): a haplotype is listed iff its posterior *occurrence* probability is >= the
threshold in some sample (operator and operand checked, threshold threaded from the CLI); ordering
weights are posterior dosages accumulated over the samples where it passed; the reference is the
all-zero row, forced first, REFMASKED = not called and its label is dropped exactly then (NOA when
nothing else is listed), removed from both dictionaries before the called haplotypes are copied row by row; a GT shows '.'
exactly for unlabeled haplotypes.
Not decided: the iff over arbitrary posteriors, ties."""
from __future__ import annotations
import ast
from ..terms import walk, show, simplify
from ..kernels import kwargs
from ..pat import has, find, find_all

HC = 'mchap.assemble.haplotype_calling.call_posterior_haplotypes'
AP = 'mchap.application.assemble.program.call_sample_genotypes'


def rule_threshold(ctx):
    from .c14 import exact_threshold_on_sum
    exact_threshold_on_sum(ctx, 'mchap.assemble.haplotype_calling.call_posterior_haplotypes', 'R13.5/exact-threshold-on-sum',
                           "the occurrence probability is compared with the threshold with a tolerance or from counts")


def run(ctx):
    rule_threshold(ctx)
    f = ctx.func(HC)
    r = ctx.recon(HC)
    # haps, weights, probs = post.allele_frequencies(dosage=True); idx = probs >= threshold
    af = [c for c, _, _ in r.calls if c[1].endswith('allele_frequencies')]
    ctx.need(len(af) == 1, f"{HC}: one allele_frequencies call expected")
    ok = kwargs(af[0]).get('dosage') == ('const', True)
    ctx.check(ok, 'R13.2/dosage-weights', f.construct('weights'), "ordering weights are posterior dosages (dosage=True)",
              "ordering weights are not posterior dosages", f.where())
    n1, b = find(f.node, "_haps, _weights, _probs = _post.allele_frequencies(dosage=_D)")
    ctx.need(n1 is not None, f"{HC}: unpacking of allele_frequencies not found")
    tests = find_all(f.node, f"_idx = {b['_probs']} >= threshold")
    anycmp = [n for n in ast.walk(f.node) if isinstance(n, ast.Assign) and isinstance(n.value, ast.Compare)
              and ('threshold' in ast.unparse(n.value))]
    ctx.need(len(anycmp) == 1, f"{HC}: inclusion test not found")
    ctx.check(len(tests) == 1, 'R13.1/inclusion', f.construct('idx'), "included iff occurrence probability >= threshold",
              f"inclusion test is `{ast.unparse(anycmp[0].value)}` where (haps, weights, occurrence) = ({b['_haps']}, {b['_weights']}, {b['_probs']}); "
              f"documented rule: occurrence probability >= threshold", f.where(anycmp[0]))
    ix = tests[0][1]['_idx'] if tests else ast.unparse(anycmp[0].targets[0])
    ok = has(f.node, f"{b['_haps']} = {b['_haps']}[{ix}]") and has(f.node, f"{b['_weights']} = {b['_weights']}[{ix}]") \
        and has(f.node, f"for _h, _w in zip({b['_haps']}, {b['_weights']}):\n    _BODY") is not None
    loop = [n for n in ast.walk(f.node) if isinstance(n, ast.For) and ast.unparse(n.iter) == f"zip({b['_haps']}, {b['_weights']})"]
    ok = ok and len(loop) == 1 and isinstance(loop[0].target, ast.Tuple) and has(loop[0], f"_vals[_b] += {loop[0].target.elts[1].id}")
    ctx.check(bool(ok), 'R13.2/accumulate-passed-only', f.construct('values'), "weights accumulated only for haplotypes that passed in that sample",
              "weights are accumulated for haplotypes that did not pass the threshold in that sample", f.where())
    n2, b2 = find(f.node, "_order = np.flip(np.argsort(_values))")
    ok = n2 is not None and has(f.node, f"{b2['_values']}[-1] = {b2['_values']}.max() + 1") and has(f.node, "_haps[-1][:] = 0") \
        and has(f.node, f"return (_haps[{b2['_order']}], _ref)") and has(f.node, "if np.all(_h == 0):\n    _BODY")
    ctx.check(bool(ok), 'R13.3/ref-first', f.construct('order'), "reference = all-zero row, given the largest weight, descending order", "reference is no longer forced to be allele 0", f.where())
    rets = [n for n in ast.walk(f.node) if isinstance(n, ast.Return)]
    refv = ast.unparse(rets[-1].value.elts[1]) if rets and isinstance(rets[-1].value, ast.Tuple) and len(rets[-1].value.elts) == 2 else None
    from ..pat import count
    # the flag is "a reference row was found among the included haplotypes", written as a pair of assignments or as the comparison itself
    r_ = ctx.recon(f.qname)
    rv = [simplify(ev.data[0]) for ev in r_.events if ev.kind == 'return']
    flag = rv[-1][1][1] if rv and rv[-1][0] == 'tuple' and len(rv[-1][1]) == 2 else None
    flag_ok = flag is not None and flag[0] == 'cmp' and flag[1] == 'IsNot' and ('const', None) in (flag[2], flag[3])
    ok = refv is not None and flag_ok and len({id(n_) for n_, _ in find_all(f.node, "_arrays.pop(_refbytes)") if isinstance(n_, ast.Call)}) == 2 \
        and has(f.node, "for _i, (_b, _h) in enumerate(_arrays.items()):\n    _BODY") and has(f.node, "_haps[_i] = _h") and has(f.node, "_vals[_i] = _p")
    ctx.check(bool(ok), 'R13.3/ref-observed', f.construct('ref_observed'), "ref_observed iff the all-zero haplotype passed", "ref_observed no longer reflects whether the reference passed", f.where())
    # application side
    a = ctx.func(AP)
    ra = ctx.recon(AP)
    call = [c for c, _, _ in ra.calls if c[1] == HC]
    ok = len(call) == 1 and kwargs(call[0]).get('threshold') == ('attr', ('param', 'self'), 'haplotype_posterior_threshold')
    ctx.check(ok, 'R13.1/threading', a.construct('threshold'), "threshold <- self.haplotype_posterior_threshold", "the CLI threshold does not reach call_posterior_haplotypes", a.where())
    g = ctx.func('mchap.application.arguments.collect_assemble_mcmc_program_arguments')
    ctx.check('haplotype_posterior_threshold=arguments.haplotype_posterior_threshold[0]' in ast.unparse(g.node), 'R13.1/threading', g.construct('threshold'),
              "program field <- --haplotype-posterior-threshold", "--haplotype-posterior-threshold does not reach the program", g.where())
    n1, b = find(a.node, "_haps, _ref = call_posterior_haplotypes(_A, threshold=_B)")
    ok = n1 is not None and has(a.node, f"data.infodata[INFO.REFMASKED] = not {b['_ref']}")
    pops = [n for n in ast.walk(a.node) if isinstance(n, ast.If) and n1 is not None and ast.unparse(n.test) == f"not {b['_ref']}"]
    ok = ok and len(pops) == 1 and has(pops[0], f"_labels.pop({b['_haps']}[0].tobytes())") \
        and has(pops[0], f"if len({b['_haps']}) == 1:\n    data.columndata[COLUMN.FILTER].append(vcf.filters.NOA.id)")
    ctx.check(bool(ok), 'R13.3/refmasked', a.construct('REFMASKED'), "REFMASKED = not ref_called; label dropped exactly then; NOA if nothing else listed",
              "REFMASKED / reference label / NOA handling changed", a.where())
    h = ctx.func('mchap.application.assemble._genotype_as_alleles')
    ok = has(h.node, "_al = np.sort([labels.get(_h.tobytes(), -1) for _h in genotype])") and has(h.node, "_al = np.append(_al[_al >= 0], _al[_al < 0])")
    ctx.check(ok, 'R13.4/unknown-allele', h.construct('GT'), "unlabeled haplotypes become -1 ('.'), sorted with '.' last", "GT no longer shows '.' exactly for unlabeled haplotypes", h.where())
