"""C14 (structural clauses): burn() of every trace class slices the step axis from exactly n on every
stored array; every MCMC program burns with --mcmc-burn before any summary; posterior() is relative
frequency of unique_counts over the chain x step flattening; genotypes are canonically sorted before
they are recorded/counted (assemble: __post_init__; call: compound_step; pedigree: end of sampler;
relabel with an increasing label vector); posterior_frequencies divides by the number of retained
observations and by ploidy. Not decided: equality with an independently computed distribution."""
from __future__ import annotations
import ast
from ..terms import mkbin, walk, show, simplify
from ..kernels import kwargs
from ..pat import has, find, find_all

TRACES = {
    'mchap.assemble.classes.GenotypeMultiTrace': ['genotypes', 'llks'],
    'mchap.calling.classes.GenotypeAllelesMultiTrace': ['genotypes', 'llks'],
    'mchap.pedigree.classes.PedigreeAllelesMultiTrace': ['genotypes'],
}


def rule_burn(ctx):
    for cq, arrays in TRACES.items():
        f = ctx.func(cq + '.burn')
        found = {}
        for n in ast.walk(f.node):
            if isinstance(n, ast.Subscript) and isinstance(n.value, ast.Attribute) and isinstance(n.value.value, ast.Name) and n.value.value.id == 'self' \
                    and n.value.attr in arrays:
                found[n.value.attr] = n.slice
        bad = []
        for a in arrays:
            sl = found.get(a)
            ok = isinstance(sl, ast.Tuple) and len(sl.elts) == 2 and isinstance(sl.elts[0], ast.Slice) and sl.elts[0].lower is None and sl.elts[0].upper is None \
                and isinstance(sl.elts[1], ast.Slice) and isinstance(sl.elts[1].lower, ast.Name) and sl.elts[1].lower.id == 'n' and sl.elts[1].upper is None and sl.elts[1].step is None
            if not ok:
                bad.append(f"self.{a}[{ast.unparse(sl) if sl is not None else 'not sliced'}]")
        ctx.check(not bad, 'R14.1/burn-slice', f.construct('slice'), f"{', '.join(arrays)} sliced [:, n:]",
                  f"burn(n) must drop exactly the first n steps of every chain: {bad}", f.where())
    # programs burn with mcmc_burn before any summary
    for prog, fit in (('assemble', 'mchap.assemble.mcmc.DenovoMCMC.fit'), ('call', 'mchap.calling.classes.CallingMCMC.fit'), ('call_pedigree', 'mchap.pedigree.classes.PedigreeCallingMCMC.fit')):
        fq = f'mchap.application.{prog}.program.call_sample_genotypes'
        f = ctx.func(fq)
        r = ctx.recon(fq)
        fits = [c for c, _, _ in r.calls if c[1] == fit]
        ctx.need(len(fits) == 1, f"{fq}: one fit call expected")
        summaries = [c for c, _, _ in r.calls if c[1].split('.')[-1] in ('posterior', 'posterior_frequencies', 'replicate_incongruence', 'individual', 'incongruence')
                     and c[1].startswith('mchap.')]
        bad = []
        for s in summaries:
            recv = s[2][0]
            # walk down the receiver chain: must meet burn(self.mcmc_burn) before the fit
            t = recv
            burnt = False
            while t[0] in ('call', 'phi'):
                if t[0] == 'phi':
                    t = t[2]
                    continue
                if t[1].endswith('.burn'):
                    arg = t[2][1] if len(t[2]) > 1 else kwargs(t).get('n')
                    burnt = arg == ('attr', ('param', 'self'), 'mcmc_burn')
                    break
                if t == fits[0] or not t[2]:
                    break
                t = t[2][0]
            if not burnt:
                bad.append(s[1].split('.')[-1])
        ctx.check(not bad and len(summaries) >= 2, 'R14.1/burn-before-summary', f.construct('trace'), f"{len(summaries)} summaries, all on .burn(self.mcmc_burn)",
                  f"summaries computed on a trace that was not burnt with --mcmc-burn: {bad}", f.where())


def rule_posterior(ctx):
    for cq in ('mchap.assemble.classes.GenotypeMultiTrace', 'mchap.calling.classes.GenotypeAllelesMultiTrace'):
        f = ctx.func(cq + '.posterior')
        n1, b = find(f.node, "_states, _counts = mset.unique_counts(_g)")
        ok = n1 is not None and has(f.node, f"_probs = {b['_counts']} / np.sum({b['_counts']})")
        # the counted array is the chain x step flattening of self.genotypes
        ok = ok and (has(f.node, f"{b['_g']} = self.genotypes.reshape(_nc * _ns, _A, _B)") or has(f.node, f"{b['_g']} = self.genotypes.reshape((_nc * _ns,) + _E)"))
        ctx.check(bool(ok), 'R14.2/relative-frequency', f.construct('probs'), "probabilities = counts / sum(counts) over all retained chain x step states",
                  "posterior is no longer the relative frequency over the flattened chains x steps", f.where())
    fq = 'mchap.calling.classes._posterior_frequencies'
    f = ctx.func(fq)
    r = ctx.recon(fq)
    rets = [ev.data[0] for ev in r.events if ev.kind == 'return']
    shp = lambda k: ('proj', k, ('attr', ('param', 'genotypes'), 'shape'))
    n_obs = mkbin('Mult', shp(0), shp(1))
    ok = len(rets) == 1 and rets[0][0] == 'tuple' and len(rets[0][1]) == 3
    if ok:
        e0, e1, e2 = rets[0][1]
        per_obs = lambda e: e[0] == 'bin' and e[1] == 'Div' and e[3] == n_obs and any(x[0] == 'carried' for x in walk(e[2]))
        ok = per_obs(e1) and per_obs(e2) and e1[2] != e2[2] and e0 == ('bin', 'Div', e1, shp(2))
    ctx.check(bool(ok), 'R14.4/frequencies', f.construct('normalisation'), "counts / n_obs; frequency = counts / ploidy", "allele counts are not normalised by retained observations and ploidy", f.where())


def rule_sorted(ctx):
    f = ctx.func('mchap.assemble.classes.GenotypeMultiTrace.__post_init__')
    ok = has(f.node, "self.genotypes[_c, _i] = integer.sort(self.genotypes[_c, _i])")
    ctx.check(ok, 'R14.3/canonical', f.construct('sort'), "every recorded genotype sorted on construction", "assemble traces are no longer canonically sorted", f.where())
    f = ctx.func('mchap.calling.mcmc.compound_step')
    r = ctx.recon(f.qname)
    fin = r.env.get('genotype_alleles')
    ctx.check(fin is not None and fin[0] == 'out' and fin[1] == '.sort', 'R14.3/canonical', f.construct('sort'), "genotype sorted at the end of each compound step",
              "call sampler records unsorted genotypes", f.where())
    f = ctx.func('mchap.pedigree.mcmc.mcmc_sampler')
    ok = has(f.node, "_trace[_i, _j] = np.sort(_trace[_i, _j])")
    ctx.check(ok, 'R14.3/canonical', f.construct('sort'), "pedigree trace sorted per sample", "pedigree trace is no longer sorted", f.where())
    relabel_vector(ctx, 'R14.3/monotone-relabel', "relabel vector is increasing (positions of the kept alleles), so sorted genotypes stay sorted",
                   "relabel vector is no longer the increasing vector of kept positions (np.where(~mask)[0] or an equivalent)")


def _kept_positions(lb):
    """the term is the vector of positions where a mask holds, in increasing order and at index width: np.where(m)[0],
    np.nonzero(m)[0], m.nonzero()[0], np.flatnonzero(m) - with nothing applied on top (a cast narrows allele numbers)"""
    if lb[0] == 'idx' and lb[2] == ('const', 0) and lb[1][0] == 'call' and lb[1][1] in ('numpy.where', 'numpy.nonzero', '.nonzero') and len(lb[1][2]) == 1:
        return True
    if lb[0] == 'call' and lb[1] == 'numpy.flatnonzero' and len(lb[2]) == 1:
        return True
    return False


def relabel_vector(ctx, rule, good, bad):
    for prog in ('call', 'call_pedigree'):
        f = ctx.func(f'mchap.application.{prog}.program.call_sample_genotypes')
        r = ctx.recon(f.qname)
        rl = [c for c, _, _ in r.calls if c[1].endswith('.relabel')]
        ok = len(rl) == 1
        if ok:
            lb = rl[0][2][1]
            while lb[0] == 'phi':
                lb = lb[2]
            ok = _kept_positions(lb)
        ctx.check(ok, rule, f.construct('labels'), good, bad, f.where())


def exact_threshold_on_sum(ctx, fq, rule, what):
    """A user threshold compared exactly (`>=`) with a floating point sum of relative frequencies: the sum of probabilities that add up
    to the threshold in exact arithmetic (0.7 + 0.2 + 0.1, 0.1 + 0.7) can fall one unit in the last place short of it, and the item the
    statement includes is excluded (finding N).  Reported where the compared value carries no tolerance and is not computed from counts."""
    f = ctx.func(fq)
    r = ctx.recon(fq)
    places = [d for ev in r.events for d in ev.data if isinstance(d, tuple)] + [c for ev in r.events for c, _ in ev.conds if isinstance(c, tuple)] \
        + [c for c, _, _ in r.calls]
    cmps = []
    seen = set()
    for d in places:
        for x in walk(d):
            if x[0] == 'cmp' and x[1] in ('GtE', 'LtE', 'Gt', 'Lt') and ('param', 'threshold') in (x[2], x[3]) and id(x) not in seen:
                seen.add(id(x))
                cmps.append(x)
    ctx.need(cmps, f"{fq}: comparison with the threshold not found")
    bare = []
    for x in cmps:
        other = x[3] if x[2] == ('param', 'threshold') else x[2]
        tolerant = any(y[0] == 'call' and y[1] in ('numpy.isclose', 'math.isclose', 'numpy.round', 'round', 'numpy.around') for y in walk(x)) \
            or (other[0] == 'bin' and other[1] in ('Add', 'Sub') and any(z[0] == 'const' for z in (other[2], other[3])))
        if not tolerant:
            bare.append(x)
    ctx.check(not bare, rule, f.construct('threshold'), what,
              "the threshold is compared exactly with a floating point sum of relative frequencies: a sum that equals the threshold in exact "
              "arithmetic can fall short of it by rounding, and what the statement includes is excluded", f.where())


def rule_threshold(ctx):
    for fq in ('mchap.assemble.classes.GenotypeMultiTrace.replicate_incongruence', 'mchap.calling.classes.GenotypeAllelesMultiTrace.replicate_incongruence'):
        exact_threshold_on_sum(ctx, fq, 'R14.6/exact-threshold-on-sum', "the support probability is compared with the threshold with a tolerance or from counts")


def rule_incongruence_ploidy(ctx):
    """flag 2 of replicate_incongruence means "the chains' mode supports together hold more alleles than the ploidy": the number it is
    compared with must be the ploidy of the trace.  The assemble version takes `len(alleles[0])`, the number of *distinct* haplotypes
    in the first qualifying chain's support (known finding M: two constant tetraploid chains AAAB and ABCD give 2 in one order and
    1 in the other; AAAB and AAAC - three alleles in a tetraploid - give 2)."""
    for fq, what in (('mchap.assemble.classes.GenotypeMultiTrace.replicate_incongruence', 'assemble'),
                     ('mchap.calling.classes.GenotypeAllelesMultiTrace.replicate_incongruence', 'call')):
        f = ctx.func(fq)
        r = ctx.recon(fq)
        # the comparison may sit in the returned value (accumulator form) or in the path conditions (early-return form)
        places = [d for ev in r.events for d in ev.data if isinstance(d, tuple)] + [c for ev in r.events for c, _ in ev.conds if isinstance(c, tuple)]
        cmps = [x for d in places for x in walk(d) if x[0] == 'cmp' and x[1] in ('Gt', 'Lt', 'GtE', 'LtE')
                and any(y[0] == 'call' and y[1] == 'len' for y in walk(x))]
        cands = []
        for x in cmps:
            for side in (x[2], x[3]):
                if side[0] == 'call' and side[1] == 'len' and side[2] and side[2][0][0] == 'idx' and side[2][0][2] == ('const', 0):
                    cands.append(side[2][0][1])        # the list whose first element is measured
        ctx.need(cmps, f"{fq}: comparison of the allele count with the ploidy not found")
        # the measured object must be a genotype (length ploidy), not a set of distinct alleles
        bad = [c for c in cands if any(y[0] == 'call' and (y[1].endswith('.alleles') or y[1].endswith('mset.unique')) for y in walk(c))]
        ctx.check(not bad, 'R14.5/incongruence-ploidy', f.construct('ploidy'), "the allele count of the chains is compared with the ploidy of the trace",
                  "the allele count of the chains is compared with the number of distinct alleles in the first chain's mode support, not with the ploidy: "
                  "the flag depends on the order of the chains and reports copy-number variation for fewer alleles than the ploidy", f.where())


def run(ctx):
    rule_threshold(ctx)
    rule_incongruence_ploidy(ctx)
    rule_burn(ctx)
    rule_posterior(ctx)
    rule_sorted(ctx)
