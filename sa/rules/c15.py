"""C15 (structural clauses): the mutation sweep table enumerates the full (haplotype, site) product in
row-major order, is permuted and visited completely, and each visit mutates the (h, j) of its row
with the allele count of the same j; every loop index stored into an array fits the array's element
type for any locus size (dtype lattice); sites are fixed with `>=` against the CLI threshold; the
mask that removes fixed sites from reads and allele counts is the mask that scatters the trace back.
Break points are drawn `breaks` times without replacement from the interior positions and breaks + 1 adjacent intervals are
allocated and filled. Not decided: the distribution of the break points."""
from __future__ import annotations
import ast
from ..terms import mkbin, walk, show, simplify
from ..kernels import collapse, kwargs, storage_root
from ..pat import has, find, find_all

NARROW = {'int8': 8, 'int16': 16, 'int32': 32, 'uint8': 8, 'uint16': 16, 'inherited': 8}
# dimension classes by the repo's naming convention (docstrings: "shape (ploidy, n_base)")
BOUNDED_DIMS = {'ploidy', 'max_ploidy', 'n_parents', 'k'}
UNBOUNDED_DIMS = {'n_base', 'n_pos', 'n_positions', 'n_reads', 'n_read', 'u_reads', 'n_haplotypes', 'n_samples',
                  'steps', 'n_steps', 'n_genotypes', 'u_gens', 'n_seq', 'n_obs', 'n_het_base', 'n_intervals', 'length'}


def narrow_dtype(call: ast.Call):
    """np.empty(shape, dtype=np.int8) / np.zeros(shape, np.int8) -> 'int8'"""
    cands = [k.value for k in call.keywords if k.arg == 'dtype'] + list(call.args[1:3])
    for c in cands:
        s = ast.unparse(c)
        for nm in NARROW:
            if s in (f'np.{nm}', f'numpy.{nm}', f"'{nm}'", f'"{nm}"'):
                return nm
        if s.endswith('.dtype'):
            # element type taken over from another array: genotypes, haplotypes and allele arrays are int8 throughout the package,
            # so the array is as narrow as the narrowest of them
            return 'inherited'
    return None


def loop_bounds(fn_node):
    """loop variable -> ast of the range() upper bound, for `for v in range(...)` loops"""
    out = {}
    for n in ast.walk(fn_node):
        if isinstance(n, ast.For) and isinstance(n.target, ast.Name) and isinstance(n.iter, ast.Call) \
                and ast.unparse(n.iter.func) == 'range' and n.iter.args:
            out[n.target.id] = n.iter.args[-1] if len(n.iter.args) <= 2 else n.iter.args[1]
    return out


NEED = {'bounded': 8, 'const': 8, 'allele': 8, 'haplotype': 16, 'unbounded': 32, 'unknown': 32}
ALLELE_NAMES = {'n_alleles', 'max_allele', 'max_alleles', 'n_nucl'}
HAPLOTYPE_NAMES = {'n_haplotypes', 'unique_haplotypes', 'n_allele'}


def doc_dims(fn_node):
    """parameter -> tuple of dimension names, parsed from the numpy-style docstring ("shape (ploidy, n_base)")"""
    import re
    doc = ast.get_docstring(fn_node) or ''
    out = {}
    for m in re.finditer(r"^\s*(\w+)\s*:\s*[^\n]*?shape\s*\(?\s*\(([^)]*)\)", doc, re.M):
        out[m.group(1)] = tuple(x.strip() for x in m.group(2).split(',') if x.strip())
    return out


def name_class(name):
    if name in BOUNDED_DIMS:
        return 'bounded'
    if name in ALLELE_NAMES:
        return 'allele'
    if name in HAPLOTYPE_NAMES:
        return 'haplotype'
    if name in UNBOUNDED_DIMS or name in ('n', 'breaks'):
        return 'unbounded'
    return 'unknown'


def term_class(t, dims):
    """value class of an integer-valued term built from parameters"""
    k = t[0]
    if k == 'const':
        return 'const'
    if k == 'param':
        return name_class(t[1])
    if k == 'proj' and t[2][0] == 'attr' and t[2][2] == 'shape' and t[2][1][0] == 'param':
        d = dims.get(t[2][1][1])
        if d and t[1] < len(d):
            return name_class(d[t[1]]) if not d[t[1]].isdigit() else 'const'
        # undocumented: genotype-like arrays are (ploidy, n_base)
        if t[2][1][1] in ('genotype', 'genotype_i', 'genotype_j') :
            return 'bounded' if t[1] == 0 else 'unbounded'
        return 'unknown'
    if k == 'call' and t[1] == 'len' and t[2] and t[2][0][0] == 'param':
        nm = t[2][0][1]
        d = dims.get(nm)
        if nm == 'haplotypes':
            return 'haplotype'
        if d:
            return name_class(d[0]) if not d[0].isdigit() else 'const'
        if nm in ('genotype', 'genotype_alleles', 'labels', 'dosage', 'alleles'):
            return 'bounded'
        return 'unknown'
    if k == 'idx' and t[1][0] == 'param' and t[1][1] in ALLELE_NAMES:
        return 'allele'
    if k == 'call' and t[1].endswith(('.comb', '.comb_with_replacement')):
        cs = [term_class(a, dims) for a in t[2]]
        return 'bounded' if all(c in ('bounded', 'const') for c in cs) else 'unknown'
    if k in ('bin',):
        cs = [term_class(t[2], dims), term_class(t[3], dims)]
        order = ['const', 'bounded', 'allele', 'haplotype', 'unbounded', 'unknown']
        return max(cs, key=order.index)
    if k == 'call' and t[1] in ('numpy.sum', 'numpy.max', 'max', 'min') and t[2]:
        return 'unknown'
    if k in ('after', 'carried'):
        return term_class(t[2], dims)
    return 'unknown'


def index_leaves(t):
    """loop variables that make up the stored value itself (v, v + 1, a * n + v), not ones nested in calls or subscripts"""
    if t[0] == 'loopvar':
        return [t]
    if t[0] == 'bin':
        return index_leaves(t[2]) + index_leaves(t[3])
    if t[0] == 'un':
        return index_leaves(t[2])
    return []


def rule_dtype_width(ctx):
    n_alloc = 0
    for fq, f in sorted(ctx.prog.funcs.items()):
        allocs = {}
        for node in ast.walk(f.node):
            if isinstance(node, ast.Assign) and isinstance(node.value, ast.Call) and len(node.targets) == 1 and isinstance(node.targets[0], ast.Name):
                callee = ast.unparse(node.value.func)
                if callee.split('.')[-1] in ('empty', 'zeros', 'ones', 'full', 'array', 'empty_like', 'zeros_like'):
                    dt = narrow_dtype(node.value)
                    if dt:
                        allocs[node.targets[0].id] = (dt, node)
        if not allocs:
            continue
        r = ctx.recon(fq)
        dims = doc_dims(f.node)
        ordinal = {}
        for name, (dt, anode) in sorted(allocs.items(), key=lambda kv: kv[1][1].lineno):
            n_alloc += 1
            ordinal[dt] = ordinal.get(dt, 0) + 1
            bad = []
            stored_classes = set()
            for ev in r.events:
                if ev.kind != 'store' or ev.data[0] != name:
                    continue
                for x in index_leaves(ev.data[2]):
                    if x[0] == 'loopvar' and x[2][0] == 'call' and x[2][1] == 'range' and x[2][2]:
                        bound = x[2][2][-1] if len(x[2][2]) <= 2 else x[2][2][1]
                        cls = term_class(bound, dims)
                        stored_classes.add(cls)
                        if NEED[cls] > NARROW[dt]:
                            bad.append(f"line {ev.lineno}: stores a loop index ranging over {show(bound)[:60]} "
                                       f"({cls if cls != 'unknown' else 'not a recognised bounded dimension'}: needs >= int{NEED[cls]}) into {dt}")
            con = f.construct(f"{dt} array #{ordinal[dt]}")
            ctx.check(not bad, 'R15.2/index-width', con,
                      f"no unbounded loop index stored ({', '.join(sorted(stored_classes)) or 'no loop index stored'})",
                      "; ".join(bad), f.where(anode))
    ctx.minimum('R15.2', n_alloc, 25)


def rule_sweep(ctx):
    fq = 'mchap.assemble.mutation.compound_step'
    f = ctx.func(fq)
    r = ctx.recon(fq)
    shuf0 = [c for c, _, _ in r.calls if c[1] == 'numpy.random.shuffle']
    ctx.need(len(shuf0) == 1, f"{fq}: one shuffle expected")
    table_root = storage_root(ctx.prog, shuf0[0][2][0])
    st = [ev for ev in r.events if ev.kind == 'store' and storage_root(ctx.prog, ev.data[3]) == table_root]
    good = len(st) == 2
    detail = ""
    if good:
        rows = {ev.data[1][1][0] for ev in st if ev.data[1][0] == 'tuple'}
        cols = {ev.data[1][1][1]: ev.data[2] for ev in st if ev.data[1][0] == 'tuple'}
        good = len(rows) == 1 and set(cols) == {('const', 0), ('const', 1)}
        if good:
            row = next(iter(rows))
            h, j = cols[('const', 0)], cols[('const', 1)]
            n_base = ('proj', 1, ('attr', ('param', 'genotype'), 'shape'))
            ploidy = ('proj', 0, ('attr', ('param', 'genotype'), 'shape'))
            rng = lambda n: ('call', 'range', (n,), (), None)
            good = h[0] == 'loopvar' and j[0] == 'loopvar' and h == ('loopvar', h[1], rng(ploidy)) and j == ('loopvar', j[1], rng(n_base)) \
                and row == ('bin', 'Add', ('bin', 'Mult', h, n_base), j)
            detail = f"row={show(row)} h={show(h)}∈{show(h[2])} j={show(j)}∈{show(j[2])}"
    ctx.check(good, 'R15.1/table', f.construct('substeps'), "row h*n_base + j holds (h, j) for the full product of ranges",
              f"sweep table is not the row-major product of (haplotype, site): {detail}", f.where())
    # table allocated with ploidy * n_base rows and visited completely
    loops = [ev for ev in r.events if ev.kind == 'loop_enter']
    n_base = ('proj', 1, ('attr', ('param', 'genotype'), 'shape'))
    ploidy = ('proj', 0, ('attr', ('param', 'genotype'), 'shape'))
    total = ('bin', 'Mult', ploidy, n_base)
    visit = [ev for ev in loops if ev.data[0] == ('call', 'range', (total,), (), None)]
    alloc_ok = any(c[1] in ('numpy.empty', 'numpy.zeros') and c[2] and c[2][0] == ('tuple', (total, ('const', 2))) for c, _, _ in r.calls)
    ctx.check(len(visit) == 1 and alloc_ok, 'R15.1/complete', f.construct('visit'), "ploidy*n_base rows allocated and all visited",
              "the sweep does not visit every row of the table", f.where())
    shuf = [c for c, _, _ in r.calls if c[1] == 'numpy.random.shuffle']
    ctx.check(len(shuf) == 1 and storage_root(ctx.prog, shuf[0][2][0]) is not None, 'R15.1/permutation', f.construct('shuffle'),
              "rows are permuted, not resampled", "sweep order is not a permutation of the table", f.where())
    bs = [(c, n) for c, _, n in r.calls if c[1] == 'mchap.assemble.mutation.base_step']
    ctx.need(len(bs) == 1, f"{fq}: one base_step call expected")
    kw = kwargs(bs[0][0])
    hh, jj, na = kw.get('h'), kw.get('j'), kw.get('n_alleles')
    def column(t, k):
        # element k of the visited row: row[k] of `row = substeps[i]` / unpacking, or substeps[i, k]
        if t is None:
            return None
        if t[0] == 'proj' and t[1] == k and t[2][0] == 'idx' and t[2][2][0] == 'loopvar':
            return t[2]
        if t[0] == 'idx' and t[2][0] == 'tuple' and len(t[2][1]) == 2 and t[2][1][0][0] == 'loopvar' and t[2][1][1] == ('const', k):
            return ('idx', t[1], t[2][1][0])
        return None
    good = column(hh, 0) is not None and column(hh, 0) == column(jj, 1) and na == ('idx', ('param', 'n_alleles'), jj)
    ctx.check(good, 'R15.1/visit-args', f.construct('base_step'), "base_step(h, j) of the visited row with n_alleles[j] of the same j",
              f"base_step receives h={show(hh)[:50]} j={show(jj)[:50]} n_alleles={show(na)[:60]}", f.where(bs[0][1]))


def rule_fixing(ctx):
    fq = 'mchap.assemble.mcmc.DenovoMCMC._mcmc'
    f = ctx.func(fq)
    r = ctx.recon(fq)
    # the boolean "fixed" matrix: the comparison of the homozygosity probabilities with self.fix_homozygous
    cands = [n for n in ast.walk(f.node) if isinstance(n, ast.Assign) and isinstance(n.value, ast.Compare) and 'self.fix_homozygous' in ast.unparse(n.value)]
    ctx.need(len(cands) == 1, f"{fq}: comparison with fix_homozygous not found")
    fixed = cands[0]
    v = fixed.value
    hp = find_all(f.node, "_hp = _homozygosity_probabilities(_A, _B, self.ploidy, inbreeding=self.inbreeding, read_counts=read_counts)")
    hpn = hp[0][1]['_hp'] if hp else None
    ok = hpn is not None and len(v.ops) == 1 and (
        (isinstance(v.ops[0], ast.GtE) and ast.unparse(v.left) == hpn and ast.unparse(v.comparators[0]) == 'self.fix_homozygous')
        or (isinstance(v.ops[0], ast.LtE) and ast.unparse(v.comparators[0]) == hpn and ast.unparse(v.left) == 'self.fix_homozygous'))
    ctx.check(ok, 'R15.3/threshold', f.construct('fixed'), "fixed = hom_probs >= fix_homozygous",
              f"fixing test is `{ast.unparse(v)}`; the documented rule is probability >= threshold", f.where(fixed))
    # threading from the CLI
    a = ctx.func('mchap.application.assemble.program.call_sample_genotypes')
    ra = ctx.recon(a.qname)
    ctor = [c for c, _, _ in ra.calls if c[1] == 'mchap.assemble.mcmc.DenovoMCMC']
    ok = len(ctor) == 1 and kwargs(ctor[0]).get('fix_homozygous') == ('attr', ('param', 'self'), 'mcmc_fix_homozygous')
    ctx.check(ok, 'R15.3/threading', a.construct('DenovoMCMC(fix_homozygous=)'), "fix_homozygous <- self.mcmc_fix_homozygous",
              "the --mcmc-fix-homozygous value does not reach the sampler", a.where())
    # mask agreement: gather and scatter
    # reads_het = reads[:, heterozygous]; n_alleles = n_alleles[heterozygous]; template[:, :, heterozygous] = genotypes
    den = [c for c, _, _ in r.calls if c[1] == 'mchap.assemble.mcmc._denovo_assembler']
    ctx.need(len(den) == 1, f"{fq}: one _denovo_assembler call expected")
    kw = kwargs(den[0])
    reads, nal = kw.get('reads'), kw.get('n_alleles')
    m1 = reads[2][1][1] if reads and reads[0] == 'idx' and reads[2][0] == 'tuple' and len(reads[2][1]) == 2 else None
    m2 = nal[2] if nal and nal[0] == 'idx' else None
    sc = [ev for ev in r.events if ev.kind == 'store' and ev.data[1][0] == 'tuple' and len(ev.data[1][1]) == 3
          and ev.data[1][1][0] == ('slice', None, None, None) and ev.data[1][1][1] == ('slice', None, None, None)]
    m3 = sc[0].data[1][1][2] if len(sc) == 1 else None
    good = m1 is not None and m1 == m2 == m3 and m1[0] == 'un' and m1[1] == 'Invert'
    ctx.check(good, 'R15.4/mask-agreement', f.construct('heterozygous'), "reads, n_alleles and the scatter use the same ~homozygous mask",
              f"gather/scatter masks differ: reads[{show(m1)[:40] if m1 else None}] n_alleles[{show(m2)[:40] if m2 else None}] template[{show(m3)[:40] if m3 else None}]", f.where())
    tname = sc[0].data[0] if len(sc) == 1 else None
    fill = [ev for ev in r.events if ev.kind == 'store' and ev.data[0] == tname and ev.data[1][0] != 'tuple']
    ok = bool(fill) and all(ev.data[1][0] == 'proj' and ev.data[1][1] == 0 and ev.data[2][0] == 'proj' and ev.data[2][1] == 1 and ev.data[1][2] == ev.data[2][2]
                            and ev.data[1][2][0] == 'call' and ev.data[1][2][1] == 'numpy.where' for ev in fill)
    ctx.check(ok, 'R15.4/fixed-columns', f.construct('template'), "fixed columns filled with (column, allele) pairs of np.where(fixed)",
              "fixed sites are not restored from np.where(fixed)", f.where())


def rule_single_allele(ctx):
    """a fixed SNV reappears with *the* allele it is homozygous for: the (column, allele) pairs that fill the template come from
    np.where(mask), so the mask may hold at most one allele per SNV.  The bare threshold test marks every allele whose homozygote
    reaches the threshold - several at thresholds <= 0.5, and the zero padding of SNVs with fewer alleles at threshold 0 - and the
    last pair written wins (defect T).  The mask has to be restricted to the most probable homozygote of each SNV."""
    fq = 'mchap.assemble.mcmc.DenovoMCMC._mcmc'
    f = ctx.func(fq)
    r = ctx.recon(fq)
    wh = [c for c, _, _ in r.calls if c[1] == 'numpy.where' and len(c[2]) == 1]
    ctx.need(wh, f"{fq}: np.where(fixed) not found")
    for k, c in enumerate(wh):
        m = c[2][0]
        has_thr = any(x[0] == 'cmp' and x[1] in ('GtE', 'LtE') and ('attr', ('param', 'self'), 'fix_homozygous') in (x[2], x[3]) for x in walk(m))
        has_max = any(x[0] == 'call' and x[1] in ('numpy.argmax', '.argmax', 'numpy.max', '.max', 'numpy.amax', 'numpy.nanargmax') for x in walk(m))
        ctx.check(has_thr and has_max, 'R15.6/single-fixed-allele', f.construct(f'np.where(fixed)#{k + 1}'),
                  "the mask of fixed (SNV, allele) pairs is the threshold test restricted to the most probable homozygote of each SNV",
                  "every allele whose homozygote reaches the threshold is marked, not only the most probable one: with thresholds <= 0.5 "
                  "(ties) or 0 (zero padding of SNVs with fewer alleles) a fixed SNV is restored with the last marked allele, which can "
                  "be an allele the SNV does not have" if has_thr else "the mask of fixed alleles no longer derives from the threshold test", f.where())


def rule_breaks(ctx):
    fq = 'mchap.assemble.structural.random_breaks'
    f = ctx.func(fq)
    r = ctx.recon(fq)
    ret = [ev.data[0] for ev in r.events if ev.kind == 'return']
    iroot = storage_root(ctx.prog, ret[0]) if ret else None
    st = [ev for ev in r.events if ev.kind == 'store' and ev.data[1][0] == 'tuple' and storage_root(ctx.prog, ev.data[3]) == iroot]
    good = len(st) == 2
    if good:
        lo = [ev for ev in st if ev.data[1][1][1] == ('const', 0)]
        hi = [ev for ev in st if ev.data[1][1][1] == ('const', 1)]
        good = len(lo) == 1 and len(hi) == 1
        if good:
            i = lo[0].data[1][1][0]
            a, b = lo[0].data[2], hi[0].data[2]
            good = a[0] == 'idx' and b[0] == 'idx' and a[1] == b[1] and a[2] == i and b[2] == ('bin', 'Add', i, ('const', 1))
    ctx.check(good, 'R15.5/adjacent-pairs', f.construct('intervals'), "interval i = (points[i], points[i+1]) of one sorted cut vector",
              "intervals are not consecutive pairs of a single cut vector", f.where())
    n1, b = find(f.node, "_ind = np.ones(n + 1, np.bool_)")
    ok = n1 is not None and has(f.node, f"{b['_ind']}[0] = False") and has(f.node, f"{b['_ind']}[-1] = False")
    ctx.check(bool(ok), 'R15.5/end-points', f.construct('end points'),
              "0 and n are never candidates and always cut points", "end points may be drawn as break points", f.where())


def rule_breaks_draws(ctx):
    """break points are drawn without replacement from the still-available interior positions; one interval per break + 1"""
    fq = 'mchap.assemble.structural.random_breaks'
    f = ctx.func(fq)
    r = ctx.recon(fq)
    B = ('param', 'breaks')
    n_iv = mkbin('Add', B, ('const', 1))
    rng = lambda a: ('call', 'range', (a,), (), None)
    draws = [c for c, _, _ in r.calls if c[1] == 'numpy.random.choice']
    ctx.need(len(draws) == 1, f"{fq}: one np.random.choice expected")
    d = collapse(draws[0], {})
    # candidates = np.where(indicator)[0]
    cand = d[2][0]
    ok = cand[0] == 'idx' and cand[2] == ('const', 0) and cand[1][0] == 'call' and cand[1][1] == 'numpy.where' and len(cand[1][2]) == 1
    ind_root = storage_root(ctx.prog, cand[1][2][0]) if ok else None
    marks = [ev for ev in r.events if ev.kind == 'store' and ind_root is not None and storage_root(ctx.prog, ev.data[3]) == ind_root
             and collapse(ev.data[1], {}) == d and ev.data[2] == ('const', False)]
    loops = [ev for ev in r.events if ev.kind == 'loop_enter']
    ok = ok and len(marks) == 1 and any(ev.data[0] == rng(B) for ev in loops)
    ctx.check(ok, 'R15.5/without-replacement', f.construct('draws'), "`breaks` draws, each drawn position removed from the candidates",
              "break points are not drawn without replacement from the remaining candidates", f.where())
    ret = [ev.data[0] for ev in r.events if ev.kind == 'return']
    iroot = storage_root(ctx.prog, ret[0]) if ret else None
    ok = iroot is not None and iroot[0] == 'call' and iroot[1] in ('numpy.zeros', 'numpy.empty') and iroot[2][0] == ('tuple', (n_iv, ('const', 2))) \
        and any(ev.data[0] == rng(n_iv) for ev in loops)
    ctx.check(ok, 'R15.5/interval-count', f.construct('count'), "breaks + 1 intervals allocated and filled", "the number of intervals is not breaks + 1", f.where())


def run(ctx):
    rule_breaks_draws(ctx)
    rule_sweep(ctx)
    rule_dtype_width(ctx)
    rule_fixing(ctx)
    rule_single_allele(ctx)
    rule_breaks(ctx)
