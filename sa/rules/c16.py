"""C16 (structural clauses): every operator accepted by the allele-filter grammar maps to the numpy
comparison of the same meaning or is rejected; in LocusPrior.from_variant_record the reference is
masked instead of removed, sequences and frequencies are filtered by the same mask and the
frequencies are normalised after masking and filtering (all-zero -> NaN); the samplers receive
haplotypes, frequencies and labels subset by one mask that contains the reference mask and the
zero-prior alleles; a record without usable alleles is emitted with NOA/AF0 and missing calls
(no raise); AFPRIOR is the vector given to the sampler. Not decided: -inf arithmetic in call-exact."""
from __future__ import annotations
import ast
import re
from ..terms import walk, show, simplify, mkbin, mkcmp, path, atoms
from ..kernels import kwargs, collapse
from ..pat import has, find, find_all

FA = 'mchap.io.filter_alleles.'
FROM = 'mchap.io.loci.LocusPrior.from_variant_record'
SEMANTICS = {'=': 'equal', '==': 'equal', '>': 'greater', '>=': 'greater_equal', '<': 'less', '<=': 'less_equal', '!=': 'not_equal', '<>': 'not_equal'}


def rule_operators(ctx):
    m = ctx.prog.modules.get('mchap.io.filter_alleles')
    ctx.need(m is not None and '_COMPARATOR' in m.consts, "anchor vanished: filter_alleles._COMPARATOR")
    table = {}
    d = m.consts['_COMPARATOR']
    ctx.need(isinstance(d, ast.Dict), "_COMPARATOR is not a dict literal")
    for k, v in zip(d.keys, d.values):
        table[k.value] = ast.unparse(v)
    for op, fn in sorted(table.items()):
        want = SEMANTICS.get(op)
        ok = want is not None and fn in (f'np.{want}', f'numpy.{want}', f'operator.{ {"equal": "eq", "greater": "gt", "greater_equal": "ge", "less": "lt", "less_equal": "le", "not_equal": "ne"}.get(want) }')
        ctx.check(ok, 'R16.1/operator-table', f"mchap/io/filter_alleles.py::_COMPARATOR[{op}]", f"'{op}' -> {fn}", f"operator '{op}' is mapped to {fn}; its meaning is {want}")
    f = ctx.func(FA + 'parse_allele_filter')
    pat = None
    for n in ast.walk(f.node):
        if isinstance(n, ast.Assign) and isinstance(n.value, ast.Constant) and isinstance(n.value.value, str) and n.value.value.startswith('^('):
            pat = n.value.value
    ctx.need(pat is not None, f"{f.qname}: filter pattern not found")
    mm = re.search(r"\)\(([^)]*)\)\(", pat)
    ctx.need(mm is not None, f"{f.qname}: cannot find the operator group in pattern {pat!r}")
    ops = set(mm.group(1).split('|'))
    r = ctx.recon(FA + 'parse_allele_filter')
    rejects = any(ev.kind == 'raise' and any(c[0] == 'cmp' and c[1] == 'In' and c[3] == ('name', 'mchap.io.filter_alleles._COMPARATOR') and pol is False for c, pol in path(ev))
                  for ev in r.events)
    unknown = sorted(o for o in ops if o not in table)
    ctx.check(all(o in SEMANTICS for o in ops) and (not unknown or rejects), 'R16.1/grammar', f.construct('pattern'),
              f"grammar accepts {sorted(ops)}; {unknown} rejected with an error", f"grammar accepts operators without a comparator and without rejection: {unknown}", f.where())


def rule_from_record(ctx):
    """decided on the terms handed to the LocusPrior constructor, i.e. on the data flow and not on statement order"""
    f = ctx.func(FROM)
    r = ctx.recon(FROM)
    rets = [ev.data[0] for ev in r.events if ev.kind == 'return' and ev.data[0][0] == 'call']
    ctx.need(len(rets) == 1, f"{FROM}: constructor call not found")
    kw = {k: simplify(v) for k, v in kwargs(rets[0]).items()}
    ctx.need({'frequencies', 'alts', 'sequence', 'mask_reference_allele'} <= set(kw), f"{FROM}: constructor keywords not found")
    nofilter = ('cmp', 'Is', ('param', 'allele_filter'), ('const', None))
    ON, OFF = {show(nofilter): False}, {show(nofilter): True}
    FR = kw['frequencies']
    # normalisation is the outermost operation: phi(sum(X) > 0, X / sum(X), X{:} := nan)
    ok = FR[0] == 'phi' and FR[1][0] == 'cmp' and FR[1][1] == 'Gt' and FR[1][3] == ('const', 0) and FR[1][2][0] == 'call' and FR[1][2][1] == '.sum'
    X = FR[1][2][2][0] if ok else None
    ok = ok and FR[2] == ('bin', 'Div', X, FR[1][2]) and FR[3][0] == 'upd' and FR[3][1] == X and FR[3][2][0] == 'slice' and FR[3][3] == ('name', 'numpy.nan')
    ctx.check(ok, 'R16.2/order', f.construct('frequencies'), "normalisation (all-zero -> NaN) is applied last, to the masked and filtered vector",
              f"frequencies handed to LocusPrior are not normalised last over the retained alleles: {show(FR)[:160]}", f.where())
    Xon, Xoff = (collapse(X, ON), collapse(X, OFF)) if X is not None else (None, None)
    # with a filter: X = F2[KEEP]; without: X = F2;  F2 = phi(MASK, F1{0:=0}, F1)
    ok = Xon is not None and Xon[0] == 'idx'
    F2, KEEP = (Xon[1], Xon[2]) if ok else (None, None)
    MASK, MASK_OFF = collapse(kw['mask_reference_allele'], ON), collapse(kw['mask_reference_allele'], OFF)
    ok2 = ok and F2[0] == 'phi' and F2[1] == MASK and F2[2] == ('upd', F2[3], ('const', 0), ('const', 0)) and Xoff == ('phi', MASK_OFF, F2[2], F2[3])
    ctx.check(bool(ok2), 'R16.2/order', f.construct('zero-then-subset'), "the masked reference is zeroed before the vector is subset by the filter",
              "the masked reference is not zeroed before filtering / normalisation", f.where())
    F1 = F2[3] if ok2 else None
    # a reference failing the filter is kept but masked
    good = KEEP is not None and KEEP[0] == 'phi' and KEEP[1][0] == 'idx' and KEEP[1][2] == ('const', 0) and KEEP[2] == KEEP[1][1] \
        and KEEP[3] == ('upd', KEEP[1][1], ('const', 0), ('const', True)) \
        and MASK[0] == 'phi' and MASK[1] == KEEP[1] and MASK[3] == ('const', True) and MASK[2] == collapse(kw['mask_reference_allele'], OFF)
    ctx.check(bool(good), 'R16.2/ref-masked-not-removed', f.construct('keep[0]'), "a failing reference is kept but masked", "a reference allele failing the filter is removed instead of masked", f.where())
    # sequences and frequencies filtered by the same mask
    alts_on = collapse(kw['alts'], ON)
    zips = list({x for x in walk(alts_on) if isinstance(x, tuple) and x and x[0] == 'call' and x[1] == 'zip'})
    ok = KEEP is not None and len(zips) == 1 and len(zips[0][2]) == 2 and zips[0][2][1] == KEEP
    SEQ = zips[0][2][0] if ok else None
    ok = ok and alts_on[0] == 'idx' and alts_on[2] == ('slice', ('const', 1), None, None) and collapse(kw['alts'], OFF) == ('idx', SEQ, ('slice', ('const', 1), None, None))
    ctx.check(bool(ok), 'R16.2/same-mask', f.construct('keep'), "sequences and frequencies filtered by the same keep mask (len(frequencies) == 1 + len(alts))",
              "sequences and frequencies are no longer filtered by the same mask", f.where())
    ref = ('attr', ('param', 'record'), 'ref')
    ok = SEQ is not None and SEQ[0] == 'bin' and SEQ[1] == 'Add' and SEQ[2] == ('tuple', (ref,)) and kw['sequence'] == ref
    ALTS0 = SEQ[3] if ok else None
    # variants = one SNP(chrom, start + offset, start + offset + 1, '.', alleles) per variable column
    var = collapse(kw.get('variants', ('const', None)), {})
    snp = [x for x in walk(var) if isinstance(x, tuple) and x and x[0] == 'call' and x[1].endswith('.SNP')]
    pos = mkbin('Add', ('attr', ('param', 'record'), 'start'), snp[0][2][1][2] if snp and len(snp[0][2]) >= 3 and snp[0][2][1][0] == 'bin' else ('const', None)) if snp else None
    ok = bool(ok) and len(set(snp)) == 1 and any(x[0] == 'call' and x[1] == '.append' for x in walk(var)) and snp[0][2][0] == ('attr', ('param', 'record'), 'chrom') \
        and snp[0][2][1][0] == 'bin' and snp[0][2][1][1] == 'Add' and ('attr', ('param', 'record'), 'start') in snp[0][2][1][2:4] \
        and snp[0][2][2] == mkbin('Add', snp[0][2][1], ('const', 1))
    ctx.check(bool(ok), 'R16.2/constructor', f.construct('LocusPrior(...)'), "sequence = record.ref, alts = ((ref,) + alts)[keep][1:], frequencies and mask flag from the same derivation", "LocusPrior is built from other values", f.where())
    # prior length tied to the allele count
    n = mkbin('Add', ('call', 'len', (ALTS0,), (), None), ('const', 1)) if ALTS0 is not None else None
    ok = F1 is not None and F1[0] == 'phi' and F1[1] == ('param', 'frequency_tag') and n is not None \
        and F1[3] == ('bin', 'Div', ('call', 'numpy.ones', (n,), (), F1[3][2][4] if F1[3][0] == 'bin' and F1[3][2][0] == 'call' and len(F1[3][2]) > 4 else None), n)
    tagged = F1[2] if ok else None
    ok = ok and tagged[0] == 'call' and tagged[1] == 'numpy.array'
    if ok:
        raw = tagged[2][0]
        guard = mkcmp('Eq', ('call', 'len', (raw,), (), None), n)
        ok = any(ev.kind == 'raise' and (guard, False) in path(ev) and (('param', 'frequency_tag'), True) in path(ev) for ev in r.events)
    ctx.check(bool(ok), 'R16.2/prior-length', f.construct('n_alleles'), "prior has one entry per allele (checked for the INFO tag, flat otherwise)", "prior length is no longer tied to the allele count", f.where())


def rule_masks(ctx):
    for prog in ('call', 'call_pedigree'):
        fq = f'mchap.application.{prog}.program.call_sample_genotypes'
        f = ctx.func(fq)
        r = ctx.recon(fq)
        n1, b = find(f.node, "_mask[0] = _mref")
        ok = n1 is not None and has(f.node, f"{b['_mref']} = data.locus.mask_reference_allele") and has(f.node, f"{b['_mask']} |= _pf == 0") \
            and has(f.node, "_pf = data.locus.frequencies")
        ctx.check(bool(ok), 'R16.3/mask-content', f.construct('mask'), "mask = masked reference | zero prior", "sampler mask no longer contains the masked reference and the zero-prior alleles", f.where())
        # the three subsets, located through the sampler construction
        ctor = [c for c, _, _ in r.calls if c[1] in ('mchap.calling.classes.CallingMCMC', 'mchap.pedigree.classes.PedigreeCallingMCMC')]
        ctx.need(len(ctor) == 1, f"{fq}: sampler construction not found")
        hs, fr = kwargs(ctor[0]).get('haplotypes'), kwargs(ctor[0]).get('frequencies')
        rl = [c for c, _, _ in r.calls if c[1].endswith('.relabel')]
        lb = rl[0][2][1] if rl else None
        good = all(x is not None and x[0] == 'phi' for x in (hs, fr, lb)) and hs[1] == fr[1] == lb[1]
        if good:
            m1 = hs[2][2] if hs[2][0] == 'idx' else None
            m2 = fr[2][2] if fr[2][0] == 'idx' else None
            m3 = lb[2][1][2][0] if lb[2][0] == 'idx' and lb[2][1][0] == 'call' and lb[2][1][1] == 'numpy.where' else None
            good = m1 is not None and m1 == m2 == m3 and m1[0] == 'un' and m1[1] == 'Invert' and lb[3] == ('const', None)
        ctx.check(good, 'R16.3/same-mask', f.construct('subset'), "haplotypes, frequencies and labels are all [~mask] of one mask",
                  "haplotypes, prior frequencies and relabel vector are not subset by the same mask", f.where())
    for prog in ('call', 'call_exact', 'call_pedigree'):
        fq = f'mchap.application.{prog}.program.call_sample_genotypes'
        f = ctx.func(fq)
        arm = [n for n in ast.walk(f.node) if isinstance(n, ast.If) and isinstance(n.test, ast.Name) and isinstance(n.body[-1], ast.Return)
               and has(n, "data.sampledata[FORMAT.GT][_s] = np.full(_p, -1, dtype=np.int64)")]
        ok = len(arm) == 1 and not any(isinstance(x, ast.Raise) for x in ast.walk(arm[0]))
        ok = ok and has(f.node, "data.columndata[COLUMN.FILTER].append(vcf.filters.NOA.id)") and has(f.node, "data.columndata[COLUMN.FILTER].append(vcf.filters.AF0.id)")
        ctx.check(ok, 'R16.4/invalid-scenario', f.construct('invalid_scenario'), "NOA/AF0 appended, missing calls stored, returns (no raise)",
                  "a record without usable alleles is no longer emitted with NOA/AF0 and missing calls", f.where())
        n1, b = find(f.node, "data.infodata[INFO.AFPRIOR] = _pf")
        ok = n1 is not None and has(f.node, f"{b['_pf']} = data.locus.frequencies")
        ctx.check(bool(ok), 'R16.5/afprior', f.construct('AFPRIOR'), "AFPRIOR = locus.frequencies", "AFPRIOR is not the prior handed to the sampler", f.where())


def rule_missing_info(ctx):
    """an INFO value written as '.' is (None,) in pysam: the filter may only measure or compare the observations where `None in
    observations` is excluded (defect K: `AC>2` on a record without alternate alleles, AC=., aborted on the length assertion);
    the prior frequencies are converted to a float array before they are normalised in place (defect L: an Integer field)"""
    f = ctx.func(FA + 'apply_allele_filter')
    r = ctx.recon(f.qname)
    obs = None
    for c, _, _ in r.calls:
        if c[1] == '.get' and len(c[2]) == 2 and c[2][0][0] == 'attr' and c[2][0][2] == 'info':
            obs = c
    ctx.need(obs is not None, f"{f.qname}: record.info.get(field) not found")
    uses = [ev for ev in r.events if ev.kind in ('assert', 'assign', 'store') and any(x == obs for d in ev.data if isinstance(d, tuple) for x in walk(d))
            and not (ev.kind == 'assign' and ev.data[1] == obs)]
    ctx.need(len(uses) >= 4, f"{f.qname}: the two length assertions and the two comparisons of the observations were not found")
    def excluded(ev):
        # `None in X` is false (or `None not in X` true) on the path, X being the observations or a conversion of them
        for c, pol in atoms([(c, pol) for c, pol in ev.conds]):
            if c[0] == 'cmp' and c[1] in ('In', 'NotIn') and c[2] == ('const', None) and (c[1] == 'NotIn') == bool(pol) and any(x == obs for x in walk(c[3])):
                return True
        return False
    bad = [ev for ev in uses if not excluded(ev)]
    ctx.check(not bad, 'R16.6/missing-info-value', f.construct('observations'), f"{len(uses)} uses of the observations, all where `None in observations` is excluded",
              f"the observations are measured / compared at line(s) {sorted({ev.lineno for ev in bad})} on a path where they may be (None,) - the value pysam returns for '.'", f.where())
    g = ctx.func(FROM)
    rg = ctx.recon(FROM)
    arrays = [c for c, _, _ in rg.calls if c[1] == 'numpy.array' and c[2] and any(x[0] == 'call' and x[1] == '.get' and x[2][0][0] == 'attr' and x[2][0][2] == 'info' for x in walk(c[2][0]))]
    ctx.need(len(arrays) == 1, f"{FROM}: conversion of the prior frequency field to an array not found")
    dt = dict(arrays[0][3]).get('dtype') or (arrays[0][2][1] if len(arrays[0][2]) > 1 else None)
    ok = dt is not None and show(dt) in ('float', 'numpy.float64', "'float'", 'numpy.float_')
    ctx.check(ok, 'R16.7/float-frequencies', g.construct('frequencies'), "prior frequencies are a float array before the in-place normalisation",
              "the prior frequency field is converted without dtype=float: an Integer INFO field gives an integer array, and `frequencies /= denom` raises", g.where())


def rule_filter_precision(ctx):
    """pysam hands the values of a Float INFO field over at single precision (0.3 arrives as 0.30000001192...), the filter value is
    parsed from text as a Python float.  Compared as they are, a value written in the record exactly as the filter value is unequal
    to it: `AFP=0.3` keeps nothing, `AFP<=0.3` drops the alleles at 0.3 (defect W).  Both operands of the comparison have to be
    brought to the precision the values are stored at."""
    fq = 'mchap.io.filter_alleles.apply_allele_filter'
    f = ctx.func(fq)
    r = ctx.recon(fq)
    cmps = [c for c, _, _ in r.calls if c[1] == 'func' and len(c[2]) == 2]
    ctx.need(len(cmps) >= 2, f"{fq}: the comparisons func(observations, value) of the R and A branches were not found")

    def single(t):
        for x in walk(t):
            if x[0] == 'call' and x[1] in ('numpy.float32', 'numpy.single'):
                return True
            if x[0] == 'call' and (x[1] in ('numpy.array', 'numpy.asarray', 'numpy.fromiter') or x[1].endswith('.astype')):
                if any(y == ('name', 'numpy.float32') or y == ('const', 'float32') or y == ('const', 'f4') for a in list(x[2]) + [v for _, v in x[3]] for y in walk(a)):
                    return True
        return False
    for k, c in enumerate(cmps):
        obs, val = c[2]
        approx = False
        ctx.check((single(obs) and single(val)) or approx, 'R16.8/filter-precision', f.construct(f'comparison#{k + 1}'),
                  "values of Float fields and the filter value are compared at the single precision the values are stored at",
                  "the INFO values (single precision, as pysam hands them over) are compared with the filter value at double precision: a "
                  "value written in the record exactly as the filter value is not equal to it (AFP=0.3 keeps no allele with AFP 0.3; "
                  "AFP<=0.3 drops them)", f.where())


def run(ctx):
    rule_filter_precision(ctx)
    rule_missing_info(ctx)
    rule_operators(ctx)
    rule_from_record(ctx)
    rule_masks(ctx)
