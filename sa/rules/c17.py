"""C17 (structural clauses): in the trio pmf every mixture component pairs a gamete probability
with the 'correct' weight of the same parent and an unknown-origin probability with the 'error'
weight of the same parent, all four components are accumulated; every call of the trio pmf and of
the validity tests takes the *_p arguments from pedigree column 0 and *_q from column 1 of the
same row as the progeny, scratch arrays under their own names; the constraint prologue is the same in the pmf and in the
validity test; the gamete enumeration (initial dosage, increment, complementary gamete = dosage - enumerated gamete) uses the
arrays of one parent throughout, under the same validity flags and with the same mixture weights in trio_log_pmf and
trio_allele_log_pmf, and with inferred roles in trio_valid / duo_valid, whose rejection tests are checked.
Not decided: that the pmf sums to one; the iff with validity over all inputs."""
from __future__ import annotations
import ast
from ..terms import walk, show, simplify, alpha, path, positive, mkcall, mkcmp, mkphi, mkbin
from ..kernels import kwargs, storage_root, collapse

PRI = 'mchap.pedigree.prior.'
TRIO = PRI + 'trio_log_pmf'
TRIO_A = PRI + 'trio_allele_log_pmf'


def col(arr, row, k):
    return ('idx', ('param', arr), ('tuple', (row, ('const', k))))


def bound(ctx, callee_q, c):
    callee = ctx.func(callee_q)
    b = dict(zip(callee.params, c[2]))
    b.update(kwargs(c))
    return b


def pq_consistent(ctx, f, c, n, callee_q, rule):
    """returns list of problems for one call site"""
    b = bound(ctx, callee_q, c)
    prog = b.get('progeny')
    probs = []
    if not (prog and prog[0] == 'idx' and storage_root(ctx.prog, prog[1]) == ('param', 'sample_genotypes')):
        return [f"progeny is {show(prog)[:80]}"]
    I = prog[2]
    for side, k in (('p', 0), ('q', 1)):
        P = ('idx', ('param', 'sample_parents'), ('tuple', (I, ('const', k))))
        par = b.get('parent_' + side)
        if not (par and par[0] == 'idx' and storage_root(ctx.prog, par[1]) == ('param', 'sample_genotypes') and par[2] == P):
            probs.append(f"parent_{side} is {show(par)[:100]}, expected sample_genotypes[sample_parents[row, {k}]]")
        for nm, arr in (('tau_', 'gamete_tau'), ('lambda_', 'gamete_lambda')):
            got = b.get(nm + side)
            if got != col(arr, I, k):
                probs.append(f"{nm}{side} is {show(got)[:80]}, expected {arr}[row, {k}]")
        known = ('cmp', 'GtE', P, ('const', 0))
        err = b.get('error_' + side)
        if err != ('phi', known, col('gamete_error', I, k), ('const', 1.0)):
            probs.append(f"error_{side} is {show(err)[:120]}")
        pl = b.get('ploidy_' + side)
        if pl != ('phi', known, ('idx', ('param', 'sample_ploidy'), P), ('const', 0)):
            probs.append(f"ploidy_{side} is {show(pl)[:120]}")
    # scratch arrays: each keyword is handed the caller's own scratch array of the same role, so no two of them alias
    for k in ('dosage', 'dosage_p', 'dosage_q', 'gamete_p', 'gamete_q', 'constraint_p', 'constraint_q', 'dosage_log_frequencies', 'log_frequencies'):
        if k in b and ('param', k) in [('param', x) for x in f.params] and storage_root(ctx.prog, b[k]) != ('param', k):
            probs.append(f"scratch/frequency argument {k} receives {show(b[k])[:60]}")
    return probs


def rule_pq(ctx):
    sites = []
    for fq in (PRI + 'markov_blanket_log_probability', PRI + 'generic_markov_blanket_log_probability',
               PRI + 'markov_blanket_log_allele_probability'):
        f = ctx.func(fq)
        r = ctx.recon(fq)
        for c, _, n in r.calls:
            if c[1] in (TRIO, TRIO_A):
                sites.append((f, c, n))
    ctx.minimum('R17.2', len(sites), 4)
    for f, c, n in sites:
        probs = pq_consistent(ctx, f, c, n, c[1], 'R17.2')
        ctx.check(not probs, 'R17.2/pq-columns', f.construct(ctx.ordinal(f.qname + '/pq', c[1].split('.')[-1])),
                  "p <- column 0, q <- column 1 of the progeny's own row", "; ".join(probs), f.where(n))
    # validity calls in classes._trace_incongruence
    fq = 'mchap.pedigree.classes._trace_incongruence'
    f = ctx.func(fq)
    r = ctx.recon(fq)
    vs = [(c, n) for c, _, n in r.calls if c[1] in ('mchap.pedigree.validation.duo_valid', 'mchap.pedigree.validation.trio_valid')]
    ctx.minimum('R17.2', len(vs), 3)
    for c, n in vs:
        kw = kwargs(c)
        probs = []
        prog = kw.get('progeny')
        # trace[o, i][0:sample_ploidy[i]] (nested or as one index tuple)
        def row_slice(t):
            if t and t[0] == 'idx' and t[1][0] == 'idx' and t[1][2][0] == 'tuple' and len(t[1][2][1]) == 2:
                return t[1][2][1][1], t[2]
            if t and t[0] == 'idx' and t[2][0] == 'tuple' and len(t[2][1]) == 3:
                return t[2][1][1], t[2][1][2]
            return None, None
        I = row_slice(prog)[0]
        if I is None:
            probs.append(f"progeny is {show(prog)[:80]}")
        else:
            def parent_idx(t):
                return row_slice(t)[0]
            pairs = []
            if c[1].endswith('trio_valid'):
                pairs = [('parent_p', 'tau_p', 'lambda_p', 0), ('parent_q', 'tau_q', 'lambda_q', 1)]
            else:
                # duo: which column is decided by which parent is known
                par = parent_idx(kw.get('parent'))
                k = None
                for kk in (0, 1):
                    if par == ('idx', ('param', 'sample_parents'), ('tuple', (I, ('const', kk)))):
                        k = kk
                if k is None:
                    probs.append(f"duo parent is {show(kw.get('parent'))[:80]}")
                else:
                    pairs = [('parent', 'tau', 'lambda_', k)]
            for pn, tn, ln, k in pairs:
                P = ('idx', ('param', 'sample_parents'), ('tuple', (I, ('const', k))))
                if parent_idx(kw.get(pn)) != P:
                    probs.append(f"{pn} is not the column-{k} parent")
                # slice bound must be that parent's ploidy
                par = kw.get(pn)
                if par and par[0] == 'idx' and row_slice(par)[1] != ('slice', ('const', 0), ('idx', ('param', 'sample_ploidy'), P), None):
                    probs.append(f"{pn} is sliced with {show(row_slice(par)[1])[:60]}")
                if kw.get(tn) != col('gamete_tau', I, k):
                    probs.append(f"{tn} is {show(kw.get(tn))[:60]}, expected gamete_tau[i, {k}]")
                if kw.get(ln) != col('gamete_lambda', I, k):
                    probs.append(f"{ln} is {show(kw.get(ln))[:60]}, expected gamete_lambda[i, {k}]")
        ctx.check(not probs, 'R17.2/pq-columns', f.construct(ctx.ordinal(f.qname + '/pq', c[1].split('.')[-1])),
                  "validity test receives parent/tau/lambda of the same pedigree column", "; ".join(probs), f.where(n))


# ------------------------------------------------------------------------------------------ mixture pairing
def rule_mixture(ctx):
    f = ctx.func(TRIO)
    r = ctx.recon(TRIO)
    # every accumulation lprob = add_log_prob(lprob, lprob_pq)
    accs = [(c, conds, n) for c, conds, n in r.calls if c[1] == 'mchap.jitutils.add_log_prob' and len(c[2]) == 2]
    comps = {}
    for c, conds, n in accs:
        comp = c[2][1]
        parts = _flatten_sum(comp)
        kinds = []
        bad = []
        for side in ('p', 'q'):
            g = [t for t in parts if _is_gamete_pmf(t, side)]
            u = [t for t in parts if _is_unknown(t, side)]
            wc = [t for t in parts if _is_weight(t, 'lcorrect', side)]
            we = [t for t in parts if _is_weight(t, 'lerror', side)]
            if len(g) == 1 and len(wc) == 1 and not u and not we:
                kinds.append('C')
            elif len(u) == 1 and len(we) == 1 and not g and not wc:
                kinds.append('E')
            elif not g and not u and len(we) == 1:
                kinds.append('e')       # error weight only (both-unknown component uses the whole dosage)
            else:
                bad.append(f"side {side}: gamete={len(g)} unknown={len(u)} correct={len(wc)} error={len(we)}")
        # both-invalid component: unknown prior of the whole dosage + lerror_p + lerror_q
        whole = [t for t in parts if t[0] == 'call' and t[1] == PRI + 'log_unknown_dosage_prior' and _root_is(t[2][0], 'dosage') and len(t[2]) == 2
                 and _root_is(t[2][1], 'dosage_log_frequencies')]
        if whole and kinds == ['e', 'e'] and not bad:
            key = 'EE'
        else:
            key = "".join(kinds) if not bad and 'e' not in kinds else None
        con = f.construct(ctx.ordinal(f.qname, "component"))
        ctx.check(key is not None, 'R17.1/pairing', con, f"component {key}: gamete pmf with lcorrect / unknown-origin with lerror of the same parent",
                  f"mixture component mispaired: {bad or show(comp)[:200]}", f.where(n))
        if key:
            comps.setdefault(key, []).append(n.lineno)
    ctx.check(set(comps) >= {'CC', 'CE', 'EC', 'EE'}, 'R17.1/all-components', f.construct('components'),
              f"components accumulated: { {k: len(v) for k, v in sorted(comps.items())} }",
              f"components accumulated: {sorted(comps)}; all of CC, CE, EC, EE are required", f.where())


def _flatten_sum(t):
    if t[0] == 'bin' and t[1] == 'Add':
        return _flatten_sum(t[2]) + _flatten_sum(t[3])
    return [t]


PROG = None


def _root_is(t, name):
    return storage_root(PROG, t) == ('param', name)


def _is_gamete_pmf(t, side):
    if not (t[0] == 'call' and t[1] == PRI + 'gamete_log_pmf'):
        return False
    kw = kwargs(t)
    return _root_is(kw.get('gamete_dose', ('?',)), 'gamete_' + side) and kw.get('gamete_ploidy') == ('param', 'tau_' + side) \
        and _root_is(kw.get('parent_dose', ('?',)), 'dosage_' + side) and kw.get('parent_ploidy') == ('param', 'ploidy_' + side) \
        and kw.get('gamete_lambda') == ('param', 'lambda_' + side)


def _is_unknown(t, side):
    return t[0] == 'call' and t[1] == PRI + 'log_unknown_dosage_prior' and _root_is(t[2][0], 'gamete_' + side) and len(t[2]) == 2 \
        and _root_is(t[2][1], 'dosage_log_frequencies')


def _is_weight(t, kind, side):
    """lcorrect_X = log(1 - error_X) (if error<1 else -inf) ; lerror_X = log(error_X)"""
    calls = [x for x in walk(t) if x[0] == 'call' and x[1] == 'numpy.log']
    if not calls:
        return False
    arg = calls[0][2][0]
    mentions = lambda x, nm: any(y == ('param', nm) for y in walk(x))
    if kind == 'lerror':
        return t[0] == 'call' and not (arg[0] == 'bin' and arg[1] == 'Sub') and mentions(arg, 'error_' + side) and not mentions(arg, 'error_' + ('q' if side == 'p' else 'p'))
    return (arg[0] == 'bin' and arg[1] == 'Sub' and arg[2] == ('const', 1) and mentions(arg[3], 'error_' + side)
            and not mentions(arg, 'error_' + ('q' if side == 'p' else 'p')))


def _gamete_kw_ok(t, side, names):
    """keywords of a gamete_*_pmf call all belong to parent `side`"""
    kw = kwargs(t)
    for k, (kind, base) in names.items():
        v = kw.get(k)
        if v is None:
            return False
        if kind == 'root' and not _root_is(v, base + side):
            return False
        if kind == 'param' and v != ('param', base + side):
            return False
        if kind == 'cell' and not (v[0] == 'idx' and _root_is(v[1], base + side) and _root_is(v[2], 'allele_index')):
            return False
    return True


def _allele_sources(parts, side):
    """classify the three factors that parent `side` contributes to an allele-level component:
    whole-gamete factor G, held-constant factor K, target-allele factor A; each 'C' (from the parent) or 'E' (unknown origin)"""
    G, K, A = [], [], []
    dlf = 'dosage_log_frequencies'
    for t in parts:
        if t[0] == 'call' and t[1] == PRI + 'gamete_log_pmf' and _root_is(kwargs(t).get('gamete_dose', ('?',)), 'gamete_' + side):
            G.append('C' if _is_gamete_pmf(t, side) else '?')
        elif t[0] == 'call' and t[1] == PRI + 'log_unknown_dosage_prior' and _root_is(t[2][0], 'gamete_' + side):
            G.append('E' if len(t[2]) == 2 and _root_is(t[2][1], dlf) else '?')
        elif t[0] == 'call' and t[1] == PRI + 'gamete_const_log_pmf' and _root_is(kwargs(t).get('gamete_dose', ('?',)), 'gamete_' + side):
            ok = _gamete_kw_ok(t, side, {'gamete_dose': ('root', 'gamete_'), 'gamete_ploidy': ('param', 'tau_'), 'parent_dose': ('root', 'dosage_'), 'parent_ploidy': ('param', 'ploidy_')}) \
                and _root_is(kwargs(t).get('allele_index', ('?',)), 'allele_index')
            K.append('C' if ok else '?')
        elif t[0] == 'call' and t[1] == PRI + 'log_unknown_const_prior' and _root_is(t[2][0], 'gamete_' + side):
            K.append('E' if len(t[2]) == 3 and _root_is(t[2][1], 'allele_index') and _root_is(t[2][2], dlf) else '?')
        elif t[0] == 'call' and t[1] == PRI + 'gamete_allele_log_pmf':
            kw = kwargs(t)
            gc = kw.get('gamete_count', ('?',))
            if gc[0] == 'idx' and _root_is(gc[1], 'gamete_' + side):
                ok = _gamete_kw_ok(t, side, {'gamete_count': ('cell', 'gamete_'), 'gamete_ploidy': ('param', 'tau_'), 'parent_count': ('cell', 'dosage_'),
                                             'parent_ploidy': ('param', 'ploidy_'), 'gamete_lambda': ('param', 'lambda_')})
                A.append('C' if ok else '?')
    return G, K, A


def _origin_weight(side):
    tau = ('param', 'tau_' + side)
    ratio = mkbin('Div', mkbin('Mult', ('const', 2), tau), mkbin('Add', ('param', 'tau_p'), ('param', 'tau_q')))
    return mkphi(mkcmp('Gt', tau, ('const', 0)), ('call', 'numpy.log', (ratio,), (), None), ('un', 'USub', ('name', 'numpy.inf')))


def rule_allele_mixture(ctx, rule='R18.6'):
    """trio_allele_log_pmf: each accumulated component is add_log_prob(G_q + K_p + A_p, G_p + K_q + A_q) + W_p + W_q where the
    three factors of a parent come from that parent's gamete pmfs (weight lcorrect) or from the unknown-origin prior (weight lerror)"""
    global PROG
    PROG = ctx.prog
    f = ctx.func(TRIO_A)
    r = ctx.recon(TRIO_A)
    accs = [(c, n) for c, conds, n in r.calls if c[1] == 'mchap.jitutils.add_log_prob' and len(c[2]) == 2
            and not any(x[0] == 'call' and x[1] == 'mchap.jitutils.add_log_prob' for x in walk(c[2][1]) if x is not c[2][1] and False)]
    # outer accumulations: second argument is a sum that contains the inner add_log_prob or the both-unknown term
    comps = {}
    dlf_cell = lambda t: t[0] == 'idx' and _root_is(t[1], 'dosage_log_frequencies') and _root_is(t[2], 'allele_index')
    for c, n in accs:
        comp = c[2][1]
        parts = _flatten_sum(comp)
        inner = [t for t in parts if t[0] == 'call' and t[1] == 'mchap.jitutils.add_log_prob']
        weights = {side: [k for k in ('lcorrect', 'lerror') for t in parts if _is_weight(t, k, side)] for side in ('p', 'q')}
        if not any(weights.values()):
            continue            # the inner add_log_prob(lprob_p, lprob_q) itself
        con = f.construct(ctx.ordinal(f.qname, "component"))
        key, bad = None, []
        if len(inner) == 1 and len(inner[0][2]) == 2:
            A_, B_ = (_flatten_sum(x) for x in inner[0][2])
            kinds = {}
            for side, other, own, cross in (('p', 'q', A_, B_), ('q', 'p', B_, A_)):
                # own sum holds K_side and A_side, the cross sum holds G_side
                Gc, Kc, Ac = _allele_sources(cross, side)
                Go, Ko, Ao = _allele_sources(own, side)
                dl_own = [t for t in own if dlf_cell(t)]
                A_kind = Ao + (['E'] if dl_own and not Ao else [])
                if Go or Kc or Ac:
                    bad.append(f"factors of parent {side} on the wrong side of add_log_prob")
                if len(Gc) != 1 or len(Ko) != 1 or len(A_kind) != 1 or len({Gc[0], Ko[0], A_kind[0]}) != 1 or Gc[0] == '?':
                    bad.append(f"parent {side}: whole-gamete {Gc}, held-constant {Ko}, target-allele {A_kind} do not come from one source")
                    continue
                kinds[side] = Gc[0]
                want = 'lcorrect' if Gc[0] == 'C' else 'lerror'
                if weights[side] != [want]:
                    bad.append(f"parent {side}: source {'gamete pmf' if Gc[0] == 'C' else 'unknown origin'} but weight {weights[side]}")
            # origin weight: the resampled copy lies in the gamete of parent s with probability tau_s / (tau_p + tau_q); the sum for
            # that origin carries log(2 tau_s / (tau_p + tau_q)) (zero for balanced gametes, -inf when that gamete is empty) and
            # nothing of the other parent's weight.  Without it the Gibbs conditional is wrong for unbalanced gametes (defect G).
            for side, own in (('p', A_), ('q', B_)):
                other = 'q' if side == 'p' else 'p'
                if _origin_weight(side) not in own or _origin_weight(other) in own:
                    bad.append(f"the sum for origin {side} does not carry exactly the weight log(2*tau_{side}/(tau_p + tau_q)) of that origin")
            if not bad:
                key = kinds['p'] + kinds['q']
        elif not inner:
            # both unknown: const prior of the whole dosage + log(2 f_a) + lerror_p + lerror_q
            whole = [t for t in parts if t[0] == 'call' and t[1] == PRI + 'log_unknown_const_prior' and _root_is(t[2][0], 'dosage') and _root_is(t[2][1], 'allele_index')]
            cell = [t for t in parts if any(dlf_cell(x) for x in walk(t)) and t not in whole]
            if len(whole) == 1 and len(cell) == 1 and weights['p'] == ['lerror'] and weights['q'] == ['lerror']:
                key = 'EE'
            else:
                bad.append(f"both-unknown component malformed: {show(comp)[:160]}")
        else:
            bad.append("more than one inner add_log_prob")
        ctx.check(key is not None, rule + '/allele-pairing', con, f"component {key}: three factors per parent from one source, weighted by that parent's lcorrect/lerror",
                  f"allele-level mixture component mispaired: {'; '.join(bad)}", f.where(n))
        if key:
            comps.setdefault(key, []).append(n.lineno)
    ctx.check(set(comps) >= {'CC', 'CE', 'EC', 'EE'}, rule + '/allele-components', f.construct('components'),
              f"components accumulated: { {k: len(v) for k, v in sorted(comps.items())} }",
              f"components accumulated: {sorted(comps)}; all of CC, CE, EC, EE are required", f.where())


ENUM_HELPERS = {'set_initial_dosage': ('tau_', 'constraint_', 'gamete_'), 'increment_dosage': ('gamete_', 'constraint_'),
                'set_parental_copies': ('parent_', None, 'dosage_')}
FIXED_HELPERS = {'set_allelic_dosage': ('progeny', 'dosage'), 'set_dosage_frequencies': ('progeny', 'log_frequencies', 'dosage_log_frequencies')}


def _flat_atoms(c, pol):
    """a validity flag built with &, and, &= is the set of its conjuncts"""
    out = set()
    todo = [(c, pol)]
    while todo:
        c, pol = todo.pop()
        if pol and c[0] in ('bin', 'bool') and c[1] in ('BitAnd', 'And'):
            todo += [(c[2], True), (c[3], True)]
        else:
            out.add((show(alpha(collapse(c, {}))), pol))
    return frozenset(out)


def _skeleton(ctx, fq, rule):
    """the gamete enumeration of a trio pmf: helper calls with the parent each argument belongs to and the flags they run under"""
    f = ctx.func(fq)
    r = ctx.recon(fq)
    sk = []
    for c, conds, n in r.calls:
        name = c[1].split('.')[-1]
        if not c[1].startswith(PRI) or not (name in ENUM_HELPERS or name in FIXED_HELPERS or name == 'set_complimentary_gamete'):
            continue
        roots = [storage_root(ctx.prog, a) or a for a in c[2]]
        names = [x[1] if x[0] == 'param' else show(x)[:30] for x in roots]
        con = f.construct(ctx.ordinal(f.qname, name))
        if name in FIXED_HELPERS:
            ok = tuple(names) == FIXED_HELPERS[name]
            side = 'the progeny'
        elif name == 'set_complimentary_gamete':
            ok = len(names) == 3 and names[0] == 'dosage' and {names[1], names[2]} == {'gamete_p', 'gamete_q'}
            side = names[1][-1] if ok else '?'
        else:
            want = ENUM_HELPERS[name]
            sides = {nm[len(w):] for nm, w in zip(names, want) if w is not None and nm.startswith(w)}
            ok = len(names) == len(want) and all(w is None or nm.startswith(w) for nm, w in zip(names, want)) and len(sides) == 1 and sides <= {'p', 'q'}
            side = next(iter(sides)) if ok else '?'
        ctx.check(ok, rule + '/enumeration-side', con, f"{name}({', '.join(names)}): all arguments belong to parent {side}",
                  f"{name}({', '.join(names)}) mixes the arrays of the two parents (or the complementary gamete is written over the enumerated one)", f.where(n))
        flags = frozenset().union(*[_flat_atoms(cc, pol) for cc, pol in conds if isinstance(cc, tuple) and cc and cc[0] not in ('inloop', 'inwhile', 'handler')]) if conds else frozenset()
        sk.append((name, tuple(names), flags))
    # the complementary gamete is recomputed cell by cell after every increment: other[i] = dosage[i] - enumerated[i]
    for ev in r.events:
        if ev.kind != 'store':
            continue
        root = storage_root(ctx.prog, ev.data[3])
        if not (root and root[0] == 'param' and root[1] in ('gamete_p', 'gamete_q')):
            continue
        other = 'gamete_q' if root[1] == 'gamete_p' else 'gamete_p'
        i, v = ev.data[1], ev.data[2]
        ok = v[0] == 'bin' and v[1] == 'Sub' and v[2][0] == 'idx' and v[3][0] == 'idx' and v[2][2] == i and v[3][2] == i \
            and storage_root(ctx.prog, v[2][1]) == ('param', 'dosage') and storage_root(ctx.prog, v[3][1]) == ('param', other)
        con = f.construct(ctx.ordinal(f.qname, f"{root[1]}[i]"))
        ctx.check(ok, rule + '/enumeration-side', con, f"{root[1]}[i] = dosage[i] - {other}[i]",
                  f"complementary gamete is not dosage - enumerated gamete: {root[1]}[{show(i)}] = {show(v)[:80]}", f.where(ev.node))
        sk.append(('store', (root[1],), frozenset()))
    return f, sk


def rule_enumeration(ctx, rule='R17.4'):
    f1, s1 = _skeleton(ctx, TRIO, rule)
    f2, s2 = _skeleton(ctx, TRIO_A, rule)
    ctx.need(len(s1) >= 9, f"{TRIO}: gamete enumeration not found")
    from collections import Counter
    a, b = Counter(s1), Counter(s2)
    diff = [k for k in (a | b) if a[k] != b[k]]
    # the four mixture weights are defined identically in both pmfs
    def weights(fq):
        out = {}
        for c, conds, n in ctx.recon(fq).calls:
            if c[1] == 'mchap.jitutils.add_log_prob' and len(c[2]) == 2:
                for t in _flatten_sum(c[2][1]):
                    for side in ('p', 'q'):
                        for kind in ('lcorrect', 'lerror'):
                            if _is_weight(t, kind, side):
                                out.setdefault((kind, side), set()).add(show(alpha(collapse(t, {}))))
        return out
    w1, w2 = weights(TRIO), weights(TRIO_A)
    ctx.check(w1 == w2 and len(w1) == 4 and all(len(v) == 1 for v in w1.values()), rule + '/weight-siblings', f2.construct('weights'),
              "lcorrect/lerror of each parent are the same terms in trio_log_pmf and trio_allele_log_pmf",
              "mixture weights differ between the two pmfs: " + "; ".join(f"{k}: {sorted(w1.get(k, []))} vs {sorted(w2.get(k, []))}" for k in sorted(set(w1) | set(w2)) if w1.get(k) != w2.get(k))[:400], f2.where())
    ctx.check(not diff, rule + '/enumeration-siblings', f2.construct('enumeration'),
              f"{len(s2)} enumeration calls under the same validity flags as in trio_log_pmf",
              "the allele-level pmf does not enumerate the same gametes under the same validity flags as trio_log_pmf: " +
              "; ".join(f"{k[0]}({', '.join(k[1])}) x{a[k]} vs x{b[k]}" for k in diff[:3]), f2.where())


def rule_validity_enumeration(ctx, rule='R17.4'):
    """trio_valid / duo_valid keep their arrays in locals: roles are inferred from the helper that fills each array, then the same
    side-consistency as in the pmfs is required"""
    VAL = 'mchap.pedigree.validation.'
    for fn in ('duo_valid', 'trio_valid'):
        fq = VAL + fn
        f = ctx.func(fq)
        r = ctx.recon(fq)
        role, bad = {}, []
        R = lambda t: storage_root(ctx.prog, t)

        def side_of(name, prefix):
            # 'parent_p' -> 'p'; duo_valid uses bare names (parent, tau): side ''
            return name[len(prefix):].lstrip('_') if name.startswith(prefix) else None
        for c, conds, n in r.calls:
            name = c[1].split('.')[-1]
            if not c[1].startswith(PRI):
                continue
            a = c[2]
            if name == 'set_allelic_dosage':
                if len(a) == 2 and a[0] == ('param', 'progeny') and R(a[1]) is not None:
                    role[R(a[1])] = 'dosage'
                else:
                    bad.append(f"set_allelic_dosage({', '.join(show(x)[:20] for x in a)})")
            elif name == 'set_parental_copies':
                sd = side_of(a[0][1], 'parent') if len(a) == 3 and a[0][0] == 'param' else None
                if sd is not None and a[1] == ('param', 'progeny') and R(a[2]) is not None and R(a[2]) not in role:
                    role[R(a[2])] = 'dosage_' + sd
                else:
                    bad.append(f"set_parental_copies({', '.join(show(x)[:20] for x in a)})")
        # constraint arrays: np.minimum(dosage, dosage_s)
        for t in set(x for ev in r.events for d in ev.data if isinstance(d, tuple) for x in walk(d)
                     if isinstance(x, tuple) and x and x[0] == 'call' and x[1] == 'numpy.minimum' and len(x[2]) == 2):
            rs = sorted(role.get(R(y), '?') for y in t[2])
            if rs[0] == 'dosage' and rs[1].startswith('dosage_'):
                role[t] = 'constraint_' + rs[1][len('dosage_'):]
        for c, conds, n in r.calls:
            name = c[1].split('.')[-1]
            a = c[2]
            if c[1] == PRI + 'set_initial_dosage':
                sd = side_of(a[0][1], 'tau') if a[0][0] == 'param' else None
                if sd is not None and role.get(R(a[1])) == 'constraint_' + sd and R(a[2]) is not None:
                    role[R(a[2])] = 'gamete_' + sd
                else:
                    bad.append(f"set_initial_dosage: tau of parent {sd}, constraint is {role.get(R(a[1]))}")
            elif c[1] == PRI + 'increment_dosage':
                g, cst = role.get(R(a[0]), '?'), role.get(R(a[1]), '?')
                if not (g.startswith('gamete_') and cst == 'constraint_' + g[len('gamete_'):]):
                    bad.append(f"increment_dosage({g}, {cst})")
        n_calls = sum(1 for c, _, _ in r.calls if c[1].startswith(PRI))
        if fn == 'trio_valid':
            # complementary gamete = dosage - enumerated gamete, whole array and cell by cell
            comp = [ev for ev in r.events if ev.kind == 'store' and R(ev.data[3]) is not None and R(ev.data[3]) not in role
                    and R(ev.data[3])[0] == 'call' and R(ev.data[3])[1] == 'numpy.zeros']
            for ev in comp:
                v = collapse(ev.data[2], {})
                strip = lambda y: y[1] if y[0] == 'idx' else y
                okv = v[0] == 'bin' and v[1] == 'Sub' and role.get(R(strip(v[2]))) == 'dosage' and str(role.get(R(strip(v[3])))).startswith('gamete_')
                if not okv:
                    bad.append(f"complementary gamete is {show(v)[:60]}")
            if len(comp) < 2:
                bad.append("complementary gamete is not recomputed after each increment")
            want_roles = {'dosage', 'dosage_p', 'dosage_q', 'constraint_p', 'constraint_q', 'gamete_p'}
            # a gamete pair is rejected iff the complementary gamete exceeds the other parent's constraint or the pair does not add up
            comp_roots = {R(ev.data[3]) for ev in comp}
            rej0 = [positive(*path(ev)[-1]) for ev in r.events if ev.kind == 'assign' and ev.data[1] == ('const', False) and path(ev)]
            # `if a: reject` followed by `if b: reject`, or `if a or b: reject`: the disjuncts are the tests
            rej, todo = [], list(rej0)
            while todo:
                c_, pol_ = todo.pop(0)
                if isinstance(c_, tuple) and c_ and c_[0] == 'bool' and c_[1] == 'Or' and pol_:
                    todo[:0] = [positive(c_[2], True), positive(c_[3], True)]
                else:
                    rej.append((c_, pol_))
            kinds = set()
            for c, pol in rej:
                c = collapse(c, {})
                if c[0] != 'cmp':
                    continue
                rl = lambda y: 'comp' if (y[0] == 'idx' and R(y[1]) in comp_roots) else role.get(R(y[1]) if y[0] == 'idx' else None, '?')
                if c[1] in ('Gt', 'Lt') and pol and {rl(c[2]), rl(c[3])} == {'comp', 'constraint_q'} and rl(c[2] if c[1] == 'Gt' else c[3]) == 'comp':
                    kinds.add('exceeds')
                if c[1] == 'Eq' and not pol:
                    sides = [c[2], c[3]]
                    summ = [y for y in sides if y[0] == 'bin' and y[1] == 'Add']
                    tot = [y for y in sides if y[0] == 'idx' and rl(y) == 'dosage']
                    if len(summ) == 1 and len(tot) == 1 and {rl(summ[0][2]), rl(summ[0][3])} == {'comp', 'gamete_p'}:
                        kinds.add('adds-up')
            if kinds != {'exceeds', 'adds-up'} or len(rej) != 2:
                bad.append(f"rejection tests of a gamete pair are {sorted(kinds)} over {len(rej)} tests; expected: complementary gamete > constraint of the other parent, and gamete_p + gamete_q != dosage")
        else:
            want_roles = {'dosage', 'dosage_', 'constraint_'}
        missing = want_roles - set(role.values())
        if missing:
            bad.append(f"arrays without a recognised role: {sorted(missing)}")
        ctx.check(not bad, rule + '/validity-enumeration', f.construct('enumeration'), f"{n_calls} helper calls side-consistent; roles {sorted(set(role.values()))}",
                  "; ".join(bad)[:400], f.where())


def rule_gamete_pmf(ctx, rule='R17.5'):
    """gamete_log_pmf = log( perms(gamete, parent)/C(ploidy, tau) * (1 - lambda) [+ double-reduction perms / ploidy * lambda if lambda > 0] ),
    -inf when that probability is 0; a positive lambda requires tau == 2"""
    from ..norm import Normaliser
    fq = PRI + 'gamete_log_pmf'
    f = ctx.func(fq)
    r = ctx.recon(fq)
    rets = [simplify(collapse(ev.data[0], {})) for ev in r.events if ev.kind == 'return']
    P = lambda n: ('param', n)
    lam = P('gamete_lambda')
    dp = mkcall(PRI + 'dosage_permutations', P('gamete_dose'), P('parent_dose'))
    dr = mkcall(PRI + 'double_reduction_permutations', P('gamete_dose'), P('parent_dose'))
    combs = [c for c, _, _ in r.calls if c[1].endswith('.comb') and len(c[2]) >= 2 and c[2][0] == P('parent_ploidy') and c[2][1] == P('gamete_ploidy')]
    ok = len(combs) == 1
    why = "C(parent_ploidy, gamete_ploidy) not found"
    if ok:
        A = ('bin', 'Mult', ('bin', 'Div', dp, combs[0]), ('bin', 'Sub', ('const', 1), lam))
        B = ('bin', 'Mult', ('bin', 'Div', dr, P('parent_ploidy')), lam)
        nz = Normaliser(scalars=['gamete_lambda'])
        logs = {x for t in rets for x in walk(t) if x[0] == 'call' and x[1] == 'numpy.log'}
        ok = len(logs) == 1
        why = "the returned value is not the log of one probability"
        if ok:
            prob = next(iter(logs))[2][0]
            guard = mkcmp('Gt', lam, ('const', 0.0))
            on, off = collapse(prob, {show(guard): True}), collapse(prob, {show(guard): False})
            ok = nz.N(on) == nz.N(('bin', 'Add', A, B)) and nz.N(off) == nz.N(A)
            why = f"probability is {show(prob)[:160]}"
            if ok:
                zero = mkcmp('Eq', prob, ('const', 0.0))
                ok = any(t == mkphi(zero, ('un', 'USub', ('name', 'numpy.inf')), ('call', 'numpy.log', (prob,), (), None)) for t in rets) or \
                    {(zero, True), (zero, False)} <= {cp for ev in r.events if ev.kind == 'return' for cp in path(ev)}
                why = "a zero probability is not mapped to -inf"
            if ok:
                ok = any(ev.kind == 'raise' and (guard, True) in path(ev) and (mkcmp('Eq', P('gamete_ploidy'), ('const', 2)), False) in path(ev) for ev in r.events)
                why = "a positive lambda with a gamete ploidy other than 2 is not rejected"
    ctx.check(ok, rule + '/gamete-pmf', f.construct('pmf'), "log(perms/C(ploidy, tau) (1 - lambda) + DR perms/ploidy lambda), -inf at 0, lambda > 0 only for tau = 2",
              f"gamete pmf malformed: {why}", f.where())


# ------------------------------------------------------------------------------------------ prologue siblings
def _all_terms(r):
    for ev in r.events:
        for x in ev.data:
            if isinstance(x, tuple):
                yield x
        for c, pol in ev.conds:
            if isinstance(c, tuple):
                yield c
    for v in (r.env or {}).values():
        if isinstance(v, tuple):
            yield v


def _prologue_facts(ctx, fq):
    """structural facts of the constraint prologue, from reconstructed terms (independent of local names)"""
    r = ctx.recon(fq)
    facts = set()

    def is_lambda(t):
        return t[0] == 'param' and t[1].startswith('lambda')

    def is_tau(t):
        return t[0] == 'param' and t[1].startswith('tau')
    for ev in r.events:
        conds = [(c, pol) for c, pol in ev.conds if isinstance(c, tuple) and c and c[0] not in ('inloop', 'inwhile', 'handler')]
        lam = [c for c, pol in conds if c[0] == 'cmp' and is_lambda(c[2]) and pol]
        if ev.kind == 'store' and ev.data[2] == ('const', 2) and lam:
            facts.add(('lambda-guard', lam[0][1], lam[0][3]))
            for c, pol in conds:
                if c[0] == 'bool' and c[1] == 'And' and pol:
                    a, b = c[2], c[3]
                    if a[0] == 'cmp' and b[0] == 'cmp' and a[2][0] == 'idx' and b[2][0] == 'idx':
                        # second test is on the very array that is being lifted
                        same = storage_root(ctx.prog, b[2][1]) == storage_root(ctx.prog, ev.data[3])
                        facts.add(('lift', a[1], a[3], b[1], b[3], 'same-array' if same else 'other-array', ev.data[2]))
        if ev.kind == 'raise' and lam:
            if any(c[0] == 'cmp' and ((c[1] == 'NotEq' and pol) or (c[1] == 'Eq' and not pol)) and is_tau(c[2]) and c[3] == ('const', 2) for c, pol in conds):
                facts.add(('tau-must-be-2',))
    for t in _all_terms(r):
        for x in walk(t):
            if x[0] == 'call' and x[1] in ('min', 'numpy.minimum') and len(x[2]) == 2:
                facts.add(('min-constraint',))
            if x[0] == 'cmp' and x[2][0] == 'call' and x[2][1] == '.sum' and is_tau(x[3]):
                root = storage_root(ctx.prog, x[2][2][0])
                is_constraint = root is not None and ((root[0] == 'param' and root[1].startswith('constraint')) or (root[0] == 'call' and root[1] == 'numpy.minimum'))
                if is_constraint:
                    facts.add(('threshold', x[1]))
    # `sum < tau -> invalid` is the same threshold as `sum >= tau -> valid`
    facts = {('threshold', 'GtE') if f == ('threshold', 'Lt') else f for f in facts}
    return facts


def rule_prologue(ctx):
    fns = [TRIO, TRIO_A, 'mchap.pedigree.validation.trio_valid', 'mchap.pedigree.validation.duo_valid']
    facts = {fq: _prologue_facts(ctx, fq) for fq in fns}
    ref = facts[TRIO]
    kinds = {f[0] for f in ref}
    ctx.need(kinds >= {'lambda-guard', 'lift', 'tau-must-be-2', 'min-constraint', 'threshold'}, f"{TRIO}: constraint prologue not recognised ({sorted(ref)})")
    for fq in fns[1:]:
        f = ctx.func(fq)
        ctx.check(facts[fq] == ref, 'R17.3/prologue', f.construct('constraint prologue'),
                  "same constraint rule as trio_log_pmf (min, lambda>0 => tau==2, double-reduction lift, sum >= tau)",
                  f"constraint prologue differs from trio_log_pmf: only here {sorted(facts[fq] - ref)}, only there {sorted(ref - facts[fq])}", f.where())


def run(ctx):
    global PROG
    PROG = ctx.prog
    rule_pq(ctx)
    rule_mixture(ctx)
    rule_prologue(ctx)
    rule_enumeration(ctx)
    rule_validity_enumeration(ctx)
    rule_gamete_pmf(ctx)
