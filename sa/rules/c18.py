"""C18 (structural clauses): the pedigree allele move has Metropolis-Hastings form over the state
`sample_genotypes{(target, allele):=i}` with the Markov-blanket probability as prior and the
copy-count proposal ratio, the Gibbs move weights every allele by likelihood x allele-level blanket
probability of the same cell, the parental swap has MH form with the pair's blanket before/after the
two stores and undoes both stores on rejection; cached likelihoods are fed with the reads of the
sample in the cache key; the swap proposal ratio is exactly log((1+c(p,a_q))(1+c(q,a_p))) - log(c(p,a_p) c(q,a_q)); each blanket
function returns init + the sum of +1 * trio_log_pmf over its entries up to the padding; the allele-level pmf pairs the three
factors of a parent with that parent's weight in all four components; the sampler chain passes its data arrays through
unchanged and never aliases two scratch arrays. Not decided: equality of the Gibbs vector with the normalised joint."""
from __future__ import annotations
from ..terms import walk, show, simplify, mkphi, mkcmp, path
from ..norm import Normaliser, p_const, p_show
from ..kernels import current_option_arms, proposes, collapse, selection_tail, clip_inner, atom_call, log_atom_inner, kwargs, describe, storage_root
from .c09 import rule_pedigree_samples, PED_LIK
from .c17 import rule_pq, rule_allele_mixture

M = 'mchap.pedigree.mcmc.'
PRI = 'mchap.pedigree.prior.'
COUNT = 'mchap.calling.utils.count_allele'
SG = ('param', 'sample_genotypes')
CELL = ('tuple', (('param', 'target_index'), ('param', 'allele_index')))
ONE, MINUS = p_const(1), p_const(-1)


def is_prop(t):
    return t[0] == 'upd' and t[1] == SG and t[2] == CELL and t[3][0] == 'loopvar'


def state_of_lik(c):
    g = kwargs(c).get('genotype_alleles')
    if g and g[0] == 'call' and g[1] == 'numpy.sort' and g[2][0][0] == 'idx':
        return g[2][0][1]
    return None


def restored(ctx, r, f, rule):
    st = r.env.get('sample_genotypes')
    st = simplify(st) if st is not None else None
    good = st is not None and st[0] == 'upd' and st[2] == CELL and st[3] == ('idx', SG, CELL)
    ctx.check(good, rule, f.construct('state'), "state restored after evaluating the options",
              f"state after the kernel is {show(st)[:100] if st else None}", f.where())


def rule_mh(ctx):
    fq = M + 'metropolis_hastings_probabilities'
    f = ctx.func(fq)
    r = ctx.recon(fq)
    nz = Normaliser()
    acc = []
    for ev in r.events:
        if ev.kind == 'store' and ev.data[0] != 'sample_genotypes' and ev.data[1][0] == 'loopvar':
            inner = clip_inner(nz.N(simplify(ev.data[2])))
            if inner is not None:
                acc.append((ev, inner))
    ctx.need(len(acc) == 1, f"{fq}: expected one clip0 acceptance store")
    ev, inner = acc[0]
    con = f.construct('acceptance')
    where = f.where(ev.node)
    liks, pris, logs, others = [], [], [], []
    for a, p in inner.items():
        c, _ = atom_call(a)
        if c is not None and c[1] == PED_LIK:
            liks.append((c, p))
        elif c is not None and c[1] == PRI + 'markov_blanket_log_probability':
            pris.append((c, p))
        elif log_atom_inner(a) is not None:
            logs.append((log_atom_inner(a), p))
        else:
            others.append((a, p))
    lp = [(c, p) for c, p in liks if state_of_lik(c) is not None and is_prop(state_of_lik(c))]
    lc = [(c, p) for c, p in liks if state_of_lik(c) == SG]
    ctx.check(len(lp) == 1 and len(lc) == 1 and lp[0][1] == ONE and lc[0][1] == MINUS, 'R18.1/likelihood', con,
              "L(S') - L(S)", f"likelihood ratio malformed: {describe(inner)}", where)
    pp = [(c, p) for c, p in pris if is_prop(kwargs(c).get('sample_genotypes', ('?',)))]
    pc = [(c, p) for c, p in pris if kwargs(c).get('sample_genotypes') == SG]
    same = len(pp) == 1 and len(pc) == 1 and {k: v for k, v in kwargs(pp[0][0]).items() if k != 'sample_genotypes' and not k.startswith(('dosage', 'gamete_p', 'gamete_q', 'constraint'))} \
        == {k: v for k, v in kwargs(pc[0][0]).items() if k != 'sample_genotypes' and not k.startswith(('dosage', 'gamete_p', 'gamete_q', 'constraint'))}
    ctx.check(same and pp[0][1] == ONE and pc[0][1] == MINUS and kwargs(pp[0][0]).get('target_index') == ('param', 'target_index'),
              'R18.1/prior', con, "blanket(S') - blanket(S) for the same target and pedigree arguments", f"prior ratio malformed: {describe(inner)}", where)
    good = False
    qs = [(q, p) for q, p in logs if isinstance(q, tuple) and q[0] == 'call' and q[1] == COUNT]
    if len(qs) == 2 and len(logs) == 2:
        prop = [(q, p) for q, p in qs if q[2][0][0] == 'idx' and is_prop(q[2][0][1])]
        cur = [(q, p) for q, p in qs if q[2][0] == ('idx', SG, ('param', 'target_index'))]
        if len(prop) == 1 and len(cur) == 1:
            good = prop[0][1] == ONE and cur[0][1] == MINUS and prop[0][0][2][1][0] == 'loopvar' and cur[0][0][2][1] == ('idx', SG, CELL) \
                and prop[0][0][2][0][2] == ('param', 'target_index')
    ctx.check(good, 'R18.1/proposal', con, "log count(S'[target], i) - log count(S[target], current)", f"proposal ratio malformed: {describe(inner)}", where)
    ctx.check(not others, 'R18.1/no-extra-terms', con, "no other term", f"unexpected: {[(show(a)[:60], p_show(p)) for a, p in others]}", where)
    # tail
    rets = [e for e in r.events if e.kind == 'return']
    pv = rets[0].data[0] if rets else None
    tail = selection_tail(pv) if pv is not None else None
    good = tail is not None and tail[0] == ('idx', SG, CELL) \
        and tail[2] == ('bin', 'Sub', ('call', 'len', (('param', 'haplotypes'),), (), None), ('const', 1)) \
        and storage_root(ctx.prog, tail[1]) == storage_root(ctx.prog, ev.data[3])
    ctx.check(good, 'R18.1/tail', f.construct('selection'), "others / (n_alleles - 1); current = 1 - sum(others)",
              "selection tail malformed", f.where())
    arms = current_option_arms(ctx.prog, r, 'sample_genotypes')
    good = arms is not None
    if good:
        D, same, diff, lv = arms
        good = bool(same) and bool(diff) and not any(proposes(ctx.prog, e.data[2], 'sample_genotypes', lv) for e in same) \
            and any(proposes(ctx.prog, e.data[2], 'sample_genotypes', lv) for e in diff)
    ctx.check(good, 'R18.1/current-option', f.construct('arms'), "the option equal to the current allele is the stay option; every other option is evaluated as a proposal",
              "the arm for the current allele and the arm for proposals are not selected by `option == current allele`", f.where())
    restored(ctx, r, f, 'R18.1/restore')


def rule_gibbs(ctx):
    fq = M + 'gibbs_probabilities'
    f = ctx.func(fq)
    r = ctx.recon(fq)
    nz = Normaliser()
    st = [ev for ev in r.events if ev.kind == 'store' and ev.data[0] != 'sample_genotypes' and ev.data[1][0] == 'loopvar'
          and any(x[0] == 'call' and x[1] == PED_LIK for x in walk(ev.data[2]))]
    ctx.need(len(st) == 1, f"{fq}: expected one per-option weight store")
    lin = nz.N(simplify(st[0].data[2]))
    con = f.construct('conditional')
    liks = [(atom_call(a)[0], p) for a, p in lin.items() if atom_call(a)[0] is not None and atom_call(a)[0][1] == PED_LIK]
    pris = [(atom_call(a)[0], p) for a, p in lin.items() if atom_call(a)[0] is not None and atom_call(a)[0][1] == PRI + 'markov_blanket_log_allele_probability']
    good = len(lin.d) == 2 and len(liks) == 1 and len(pris) == 1 and liks[0][1] == ONE and pris[0][1] == ONE
    if good:
        pk = kwargs(pris[0][0])
        good = is_prop(state_of_lik(liks[0][0]) or ('?',)) and is_prop(pk.get('sample_genotypes', ('?',))) \
            and pk.get('target_index') == ('param', 'target_index') and pk.get('allele_index') == ('param', 'allele_index')
    ctx.check(good, 'R18.2/full-conditional', con, "L(S_i) + allele-level blanket probability of the written cell",
              f"Gibbs weights malformed: {describe(lin)}", f.where(st[0].node))
    rets = [e for e in r.events if e.kind == 'return']
    ok = rets and rets[0].data[0][0] == 'call' and rets[0].data[0][1] == 'mchap.jitutils.normalise_log_probs'
    ctx.check(bool(ok), 'R18.2/normalised', con, "normalised in log space", "Gibbs weights are not normalised with normalise_log_probs", f.where())
    loops = [ev for ev in r.events if ev.kind == 'loop_enter']
    want = ('call', 'range', (('call', 'len', (('param', 'haplotypes'),), (), None),), (), None)
    ctx.check(len(loops) == 1 and loops[0].data[0] == want, 'R18.2/all-options', con, "loop covers range(len(haplotypes))", "option loop does not cover all alleles", f.where())
    restored(ctx, r, f, 'R18.2/restore')


def rule_allele_step(ctx):
    fq = M + 'allele_step'
    f = ctx.func(fq)
    r = ctx.recon(fq)
    st = [ev for ev in r.events if ev.kind == 'store' and ev.data[0] == 'sample_genotypes']
    good = len(st) == 1 and st[0].data[1] == CELL and st[0].data[2][0] == 'call' and st[0].data[2][1] == 'mchap.jitutils.random_choice'
    ctx.check(good, 'R18.1/write-cell', f.construct('store'), "the drawn allele is written to the evaluated cell",
              "allele_step writes a different cell than the one evaluated", f.where())
    for c, _, n in r.calls:
        if c[1] in (M + 'gibbs_probabilities', M + 'metropolis_hastings_probabilities'):
            kw = kwargs(c)
            ok = kw.get('target_index') == ('param', 'target_index') and kw.get('allele_index') == ('param', 'allele_index')
            ctx.check(ok, 'R18.1/write-cell', f.construct(c[1].split('.')[-1]), "kernel evaluated for (target_index, allele_index)",
                      "kernel evaluated for another cell", f.where(n))


def rule_swap(ctx):
    fq = M + 'pair_allele_swap_step'
    f = ctx.func(fq)
    r = ctx.recon(fq)
    nz = Normaliser()
    rets = [ev for ev in r.events if ev.kind == 'return' and ev.data[0][0] == 'tuple' and ev.data[0][1][0] != ('name', 'numpy.nan')]
    ctx.need(len(rets) == 1, f"{fq}: expected one decision return")
    prob = rets[0].data[0][1][0]
    ctx.need(prob[0] == 'call' and prob[1] == 'numpy.exp', f"{fq}: acceptance probability is not exp(.)")
    inner = clip_inner(nz.N(simplify(prob[2][0])))
    ctx.need(inner is not None, f"{fq}: acceptance is not exp(clip0(linear))")
    con = f.construct('acceptance')
    liks, pris, logs, others = [], [], [], []
    for a, p in inner.items():
        c, _ = atom_call(a)
        if c is not None and c[1] == PED_LIK:
            liks.append((c, p))
        elif c is not None and c[1] == PRI + 'generic_markov_blanket_log_probability':
            pris.append((c, p))
        elif log_atom_inner(a) is not None:
            logs.append((log_atom_inner(a), p))
        else:
            others.append((a, p))
    # states: current = SG, proposed = SG with two stores
    def n_upd(t):
        k = 0
        while t[0] == 'upd':
            k += 1
            t = t[1]
        return k if t == SG else -1
    cur = [(c, p) for c, p in liks if n_upd(state_of_lik(c)) == 0]
    prop = [(c, p) for c, p in liks if n_upd(state_of_lik(c)) == 2]
    samples = lambda xs: sorted(show(kwargs(c).get('sample')) for c, _ in xs)
    ctx.check(len(cur) == 2 and len(prop) == 2 and all(p == MINUS for _, p in cur) and all(p == ONE for _, p in prop)
              and samples(cur) == samples(prop) == ['p', 'q'], 'R18.3/likelihood', con,
              "L'(p) + L'(q) - L(p) - L(q)", f"likelihood ratio malformed: {describe(inner)}", f.where())
    pc = [(c, p) for c, p in pris if n_upd(c[2][1]) == 0]
    pp = [(c, p) for c, p in pris if n_upd(c[2][1]) == 2]
    good = len(pc) == 1 and len(pp) == 1 and pc[0][1] == MINUS and pp[0][1] == ONE and pc[0][0][2][0] == pp[0][0][2][0] == ('param', 'markov_blanket') \
        and pc[0][0][2][2:8] == pp[0][0][2][2:8]
    ctx.check(good, 'R18.3/prior', con, "blanket(S'') - blanket(S) on the pair's Markov blanket", f"prior ratio malformed: {describe(inner)}", f.where())
    # proposal: + log(1+count(S[p], a_q)) + log(1+count(S[q], a_p)) - log count(S[p], a_p) - log count(S[q], a_q)
    pos = [q for q, p in logs if p == ONE]
    neg = [q for q, p in logs if p == MINUS]
    ok = len(logs) == 4 and len(pos) == 2 and len(neg) == 2
    if ok:
        COUNT = 'mchap.calling.utils.count_allele'
        SGP = lambda who: ('idx', ('param', 'sample_genotypes'), ('param', who))

        def count_of(t):
            """(row owner, allele owner) of count_allele(S[row], S[owner, drawn index])"""
            if not (isinstance(t, tuple) and t[0] == 'call' and t[1] == COUNT and len(t[2]) == 2):
                return None
            row, al = t[2]
            if row[0] != 'idx' or row[1] != ('param', 'sample_genotypes') or row[2][0] != 'param':
                return None
            if not (al[0] == 'idx' and al[1] == ('param', 'sample_genotypes') and al[2][0] == 'tuple' and al[2][1][0][0] == 'param'):
                return None
            return row[2][1], al[2][1][0][1]
        got_neg = sorted(str(count_of(q)) for q in neg)
        got_pos = []
        for q in pos:
            # 1 + count(...)
            if hasattr(q, 'd') and len(q.d) == 2 and q.coeff(()) == p_const(1):
                (a,) = [a for a in q.d if a != ()]
                got_pos.append(str(count_of(a)) if q.coeff(a) == p_const(1) else 'None')
            else:
                got_pos.append('None')
        ok = got_neg == sorted([str(('p', 'p')), str(('q', 'q'))]) and sorted(got_pos) == sorted([str(('p', 'q')), str(('q', 'p'))])
    ctx.check(ok and not others, 'R18.3/proposal', con, "log(reversal) - log(proposal), four copy counts", f"proposal ratio malformed: {describe(inner)}", f.where())
    # undo on reject: two stores under 'not accept' putting back the entry alleles; the proposal stores are unconditional
    st = [ev for ev in r.events if ev.kind == 'store' and ev.data[0] == 'sample_genotypes']
    fin = simplify(r.env.get('sample_genotypes'))
    decision = fin[1] if fin[0] == 'phi' else None
    undo = [ev for ev in st if any(isinstance(c[0], tuple) and c[0] == decision for c in ev.conds)]
    good = len(st) == 4 and len(undo) == 2
    if good:
        # on the reject arm the final state equals the entry state
        arm = fin[2] if fin[0] == 'phi' else None
        good = fin[0] == 'phi' and (simplify(fin[2]) == SG or simplify(fin[3]) == SG)
    ctx.check(good, 'R18.3/undo', f.construct('reject'), "both stores undone on rejection (state returns to entry state)",
              f"rejected swap does not restore the entry state: {show(fin)[:160]}", f.where())


def rule_blanket(ctx):
    fq = PRI + 'markov_blanket_log_allele_probability'
    f = ctx.func(fq)
    r = ctx.recon(fq)
    ta = [c for c, _, _ in r.calls if c[1] == PRI + 'trio_allele_log_pmf']
    tf = [(c, conds) for c, conds, _ in r.calls if c[1] == PRI + 'trio_log_pmf']
    good = len(ta) == 1 and len(tf) == 1
    if good:
        kw = kwargs(ta[0])
        good = kw.get('allele_index') == ('param', 'allele_index') and kw.get('progeny') == ('idx', ('param', 'sample_genotypes'), ('param', 'target_index'))
        child = tf[0][0][2][0]
        good = good and child[0] == 'idx' and child[2] == ('idx', ('param', 'sample_children'), ('tuple', (('param', 'target_index'), child[2][2][1][1] if child[2][0] == 'idx' and child[2][2][0] == 'tuple' else None)))
    ctx.check(good, 'R18.4/blanket', f.construct('composition'), "allele-level pmf for the target trio + full pmf for each child row of the target",
              "Markov blanket is not target-trio (allele level) plus the target's children", f.where())


def rule_blanket_sum(ctx):
    """each blanket function returns  init + sum over its entries (until the -1 padding) of +1 * trio_log_pmf(entry ...)"""
    from ..reduce import reductions
    SG, TI = ('param', 'sample_genotypes'), ('param', 'target_index')
    for fn, init_kind in (('markov_blanket_log_probability', 'zero'), ('generic_markov_blanket_log_probability', 'zero'), ('markov_blanket_log_allele_probability', 'allele')):
        fq = PRI + fn
        f = ctx.func(fq)
        r = ctx.recon(fq)
        rets = [ev.data[0] for ev in r.events if ev.kind == 'return']
        ctx.need(len(rets) == 1, f"{fq}: one return expected")
        t = reductions(simplify(rets[0]))
        ok = t[0] == 'reduce' and t[1] == 'Add' and t[3] is None and t[4][0] == 'call' and t[4][1] == PRI + 'trio_log_pmf'
        why = f"returned value is {show(t)[:100]}"
        if ok:
            init = t[2]
            ok = init == ('const', 0.0) or init == ('const', 0) if init_kind == 'zero' else (init[0] == 'call' and init[1] == PRI + 'trio_allele_log_pmf')
            why = f"accumulation starts from {show(init)[:80]}"
        entry = None
        if ok:
            prog = t[4][2][0]
            ok = prog[0] == 'idx' and prog[1] == SG
            entry = prog[2] if ok else None
            why = "progeny row is not sample_genotypes[entry]"
        if ok:
            lvs = [x for x in walk(entry) if x[0] == 'loopvar']
            ok = len(set(lvs)) == 1
            lv = lvs[0] if ok else None
            shape1 = ('proj', 1, ('attr', ('param', 'sample_children'), 'shape'))
            rng = lambda *a: ('call', 'range', tuple(a), (), None)
            child = ('idx', ('param', 'sample_children'), ('tuple', (TI, lv)))
            if fn == 'markov_blanket_log_probability':
                ok = ok and lv[2] == rng(('un', 'USub', ('const', 1)), shape1) and entry == mkphi(mkcmp('Lt', lv, ('const', 0)), TI, child)
                padded = child
            elif fn == 'generic_markov_blanket_log_probability':
                ok = ok and lv[2] == rng(('call', 'len', (('param', 'markov_blanket'),), (), None)) and entry == ('idx', ('param', 'markov_blanket'), lv)
                padded = entry
            else:
                ok = ok and lv[2] == rng(shape1) and entry == child
                padded = child
            why = f"entries are not the target (where applicable) followed by every column of its row: entry = {show(entry)[:100]}"
        if ok:
            brk = [ev for ev in r.events if ev.kind == 'break']
            stop = mkcmp('Lt', padded, ('const', 0))
            ok = len(brk) == 1 and path(brk[0])[-1:] == [(stop, True)]
            why = f"the scan does not stop exactly at the first negative (padding) entry: {[show(c) + '=' + str(p) for ev in brk for c, p in path(ev)[-1:]]}"
        ctx.check(ok, 'R18.4/joint-sum', f.construct('log_joint'), "init + sum of trio_log_pmf over all entries up to the padding", f"blanket joint malformed: {why}", f.where())


SCRATCH = ('dosage', 'dosage_p', 'dosage_q', 'gamete_p', 'gamete_q', 'constraint_p', 'constraint_q', 'dosage_log_frequencies')


def passthrough_sites(ctx, rule, funcs, callee_prefix, scratch=(), minimum=1, min_shared=4):
    """Every call from one of `funcs` to a repo function under `callee_prefix`: a keyword whose name is also a parameter of
    the caller receives that parameter (possibly indexed, copied or loop-carried from it); scratch arrays are the caller's own
    scratch arrays, pairwise distinct."""
    n_sites = 0
    for fq in funcs:
        f = ctx.func(fq)
        r = ctx.recon(fq)
        for c, conds, n in r.calls:
            if not (c[1].startswith(callee_prefix) and c[1] in ctx.prog.funcs) or c[1] == fq:
                continue
            callee = ctx.prog.funcs[c[1]]
            b = dict(zip(callee.params, c[2])); b.update(kwargs(c))
            shared = [k for k in b if k in f.params and k in callee.params]
            if len(shared) < min_shared:
                continue
            n_sites += 1
            bad = []

            def origin(v):
                v = collapse(v, {})
                while True:
                    if v[0] == 'carried':
                        v = v[2]
                    elif v[0] == 'call' and v[1] in ('.copy', 'numpy.copy') and v[2]:
                        v = v[2][0]
                    elif v[0] == 'idx':
                        v = v[1]
                    else:
                        rt = storage_root(ctx.prog, v)
                        if rt is None or rt == v:
                            return v
                        v = rt
            for k in shared:
                o = origin(b[k])
                if k in scratch:
                    if not (o[0] == 'param' and o[1] in scratch):
                        bad.append(f"scratch argument {k}= receives {show(b[k])[:40]}")
                elif o != ('param', k):
                    bad.append(f"{k}= receives {show(b[k])[:50]}")
            sc = [(k, origin(b[k])) for k in b if k in scratch]
            roots = [rt for _, rt in sc]
            if len(set(roots)) != len(roots):
                bad.append("two scratch arrays of the callee are the same array: " + ", ".join(f"{k}={show(rt)[:20]}" for k, rt in sc))
            con = f.construct(ctx.ordinal(f.qname, c[1].split('.')[-1]))
            ctx.check(not bad, rule, con, f"{len(shared)} arguments passed through unchanged" + (", scratch arrays distinct" if sc else ""), "; ".join(bad)[:400], f.where(n))
    ctx.minimum(rule.split('/')[0], n_sites, minimum)


def rule_passthrough(ctx):
    """the pedigree sampler hands its data arrays down unchanged and never lets two scratch arrays of a callee alias"""
    M_ = 'mchap.pedigree.mcmc.'
    passthrough_sites(ctx, 'R18.7/pass-through', [M_ + fn for fn in ('allele_step', 'compound_step', 'mcmc_sampler', 'gibbs_probabilities',
                      'metropolis_hastings_probabilities', 'pair_allele_swap_step')], 'mchap.pedigree.', SCRATCH, minimum=8)


def rule_available_copies(ctx):
    """The Gibbs conditional enumerates every split of the progeny's alleles over the two gametes; splits in which a gamete already
    holds more copies of the allele than its parent has must weigh zero.  gamete_allele_log_pmf forms the number of copies still
    available in the parent as a difference of counts and takes the logarithm of a product with it: that difference must be cut off
    at zero (or the case returned early), otherwise gametes of three or more copies - hexaploids - give log(negative) = NaN and the
    update aborts (defect U)."""
    fq = PRI + 'gamete_allele_log_pmf'
    f = ctx.func(fq)
    r = ctx.recon(fq)
    n = 0
    for ev in r.events:
        if ev.kind != 'return':
            continue
        logs = [x for x in walk(ev.data[0]) if x[0] == 'call' and x[1] in ('numpy.log', 'math.log')]
        for lg in logs:
            n += 1
            arg = lg[2][0]
            clamped = {id(a) for x in walk(arg) if x[0] == 'call' and x[1] in ('max', 'numpy.maximum') and len(x[2]) == 2
                       and ('const', 0) in x[2] for a in x[2]}
            def counts(t):
                ps = {y[1] for y in walk(t) if y[0] == 'param'}
                return 'parent_count' in ps and 'gamete_count' in ps
            bare = [x for x in walk(arg) if x[0] == 'bin' and x[1] == 'Sub' and counts(x) and id(x) not in clamped
                    and not any(id(x) != id(y) and y[0] == 'bin' and y[1] == 'Sub' and counts(y) and any(z is x for z in walk(y)) and id(y) in clamped for y in walk(arg))]
            def plain(t):       # a comparison of the counts themselves (sums and differences of parameters), not of a derived probability
                return all(y[0] in ('cmp', 'param', 'const') or (y[0] == 'bin' and y[1] in ('Sub', 'Add')) for y in walk(t))
            guarded = any(c[0][0] == 'cmp' and counts(c[0]) and plain(c[0]) for c in ev.conds if isinstance(c[0], tuple))
            ctx.check(not bare or guarded, 'R18.8/available-copies', f.construct('available copies'),
                      "copies still available in the parent = max(parent copies - copies already in the gamete, 0)",
                      "the number of copies still available in the parent (parent_count - (gamete_count - 1)) enters the logarithm without "
                      "a lower bound of zero: a gamete holding two or more copies beyond the parent's gives log of a negative number (NaN) "
                      "instead of probability zero, and the Gibbs update of a hexaploid aborts", f.where())
    ctx.need(n >= 1, f"{fq}: no logarithm of the allele probability found")


def run(ctx):
    rule_available_copies(ctx)
    rule_mh(ctx)
    rule_gibbs(ctx)
    rule_allele_step(ctx)
    rule_swap(ctx)
    rule_blanket(ctx)
    rule_blanket_sum(ctx)
    rule_passthrough(ctx)
    rule_pq(ctx)
    rule_allele_mixture(ctx, 'R18.6')
    rule_pedigree_samples(ctx, rule='R18.5/sample-index')
    # (sample, genotype index) keys the likelihood every move reads: the index must tell genotypes apart
    from .c11 import rule_tables
    rule_tables(ctx, rule='R18.9')
