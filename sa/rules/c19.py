"""C19 (structural clauses): every keyword that reaches pysam's pileup() is one pysam accepts (read
from pysam's own .pyi stub) and each find-snvs read-filter option flows into a pileup keyword that
implements it; allele thresholds use >= as documented and at least two kept alleles are required;
REFMASKED is read before the reference is force-kept; each CLI option reaches its parameter.
Not decided: the pileup engine itself (overlaps, base-quality floor, orphans)."""
from __future__ import annotations
import ast
import pathlib
from ..terms import walk, show
from ..kernels import kwargs
from ..model import AnalysisError
from ..pat import has, find, find_all

FS = 'mchap.application.find_snvs.'
STUB = pathlib.Path('/venv/lib/python3.12/site-packages/pysam/libcalignmentfile.pyi')
# frozen copy of the stub's pileup() keyword set (pysam 0.24.1); compared with the stub on every run
FROZEN_PILEUP = {'contig', 'start', 'stop', 'region', 'reference', 'end', 'truncate', 'max_depth', 'stepper', 'fastafile',
                 'ignore_overlaps', 'flag_filter', 'flag_require', 'ignore_orphans', 'min_base_quality',
                 'adjust_capq_threshold', 'min_mapping_quality', 'compute_baq', 'redo_baq'}
# read by IteratorColumn from **kwargs although missing from the stub/docstring (pysam/libcalignmentfile.pyx)
EXTRA_ACCEPTED = {'multiple_iterators'}
FLAG_OF = {'skip_duplicates': 'pysam.FDUP', 'skip_qcfail': 'pysam.FQCFAIL', 'skip_supplementary': 'pysam.FSUPPLEMENTARY'}
FLAG_VALUE = {'pysam.FDUP': 1024, 'pysam.FQCFAIL': 512, 'pysam.FSUPPLEMENTARY': 2048}


def stub_pileup_keywords():
    if not STUB.exists():
        return None
    tree = ast.parse(STUB.read_text())
    for n in ast.walk(tree):
        if isinstance(n, ast.ClassDef) and n.name == 'AlignmentFile':
            for m in n.body:
                if isinstance(m, ast.FunctionDef) and m.name == 'pileup':
                    return {a.arg for a in m.args.args + m.args.kwonlyargs if a.arg != 'self'}
    return None


def rule_kwargs(ctx):
    stub = stub_pileup_keywords()
    if stub is not None and stub != FROZEN_PILEUP:
        raise AnalysisError(f"pysam stub changed: pileup keywords {sorted(stub ^ FROZEN_PILEUP)} differ from the frozen copy")
    accepted = FROZEN_PILEUP | EXTRA_ACCEPTED
    fq = FS + 'bam_region_depths'
    f = ctx.func(fq)
    r = ctx.recon(fq)
    piles = [(c, n) for c, _, n in r.calls if c[1] == '.pileup']
    ctx.need(len(piles) == 1, f"{fq}: one pileup call expected, found {len(piles)}")
    c, node = piles[0]
    explicit = {k for k, _ in c[3] if k != '**'}
    star = [v for k, v in c[3] if k == '**']
    forwarded = set()
    if star:
        # keywords given by callers that are not formal parameters flow into **kwargs
        ctx.need(f.node.args.kwarg is not None, f"{fq}: ** argument that is not the function's **kwargs")
        formal = set(f.params)
        for cf, cn in ctx.prog.callers_of(fq):
            forwarded |= {k.arg for k in cn.keywords if k.arg and k.arg not in formal}
    bad = sorted((explicit | forwarded) - accepted)
    if not ctx.check(not bad, 'R19.1/accepted-keywords', f.construct('pileup(keywords)'),
                     f"pileup receives {sorted(explicit | forwarded)}",
                     f"pileup() is given keywords it does not accept (silently ignored by pysam): {bad}; "
                     f"the read-filter options therefore never reach the pileup engine", f.where(node)):
        return      # same root cause: do not report every option separately
    # each read-filter option must reach a keyword that implements it
    caller = ctx.func(FS + 'write_vcf_block')
    options = ['mapping_quality', 'skip_duplicates', 'skip_qcfail', 'skip_supplementary']
    rc = ctx.recon(caller.qname)
    calls = [cc for cc, _, _ in rc.calls if cc[1] == fq]
    ctx.need(len(calls) == 1, f"{caller.qname}: one call of bam_region_depths expected")
    passed = {k: v for k, v in calls[0][3]}
    # name of the bam_region_depths parameter (or forwarded keyword) each option is bound to
    bound = {}
    for opt in options:
        names = [k for k, v in passed.items() if v == ('param', opt)]
        bound[opt] = names[0] if names else None
    kw = kwargs(c)
    for opt in options:
        con = f.construct(f"pileup<-{opt}")
        pname = bound[opt]
        if pname is None:
            ctx.violation('R19.1/option-reaches-pileup', con, f"--{opt.replace('_', '-')} is not passed to bam_region_depths", caller.where())
            continue
        if opt == 'mapping_quality':
            v = kw.get('min_mapping_quality')
            ok = v == ('param', pname)
            ctx.check(ok, 'R19.1/option-reaches-pileup', con, f"min_mapping_quality <- {pname}",
                      f"the mapping-quality threshold ({pname}) does not reach pileup(min_mapping_quality=)", f.where(node))
        else:
            v = kw.get('flag_filter')
            flag = FLAG_OF[opt]
            ok = False
            if v is not None:
                for x in walk(v):
                    if x[0] == 'phi' and x[1] == ('param', pname):
                        in_a = any(y == ('name', flag) for y in walk(x[2]))
                        in_b = any(y == ('name', flag) for y in walk(x[3]))
                        ok = ok or (in_a and not in_b)
            ctx.check(ok, 'R19.1/option-reaches-pileup', con, f"flag_filter includes {flag} iff {pname}",
                      f"the {opt} option ({pname}) does not control bit {flag} of pileup(flag_filter=)", f.where(node))


def rule_thresholds(ctx):
    fq = FS + 'write_vcf_block'
    f = ctx.func(fq)
    want = {'ind_maf': 'allele_freq', 'ind_mad': 'allele_depth', 'min_ind': None, 'maf': 'allele_freq', 'mad': 'allele_depth'}
    found = {}
    for n in ast.walk(f.node):
        if isinstance(n, ast.Compare) and len(n.ops) == 1:
            l, rr = n.left, n.comparators[0]
            for name in want:
                if isinstance(rr, ast.Name) and rr.id == name and not isinstance(l, ast.Constant):
                    found.setdefault(name, []).append((type(n.ops[0]).__name__, ast.unparse(l), n))
                if isinstance(l, ast.Name) and l.id == name and not isinstance(rr, (ast.Constant,)):
                    flip = {'LtE': 'GtE', 'Lt': 'Gt', 'GtE': 'LtE', 'Gt': 'Lt'}.get(type(n.ops[0]).__name__, type(n.ops[0]).__name__)
                    found.setdefault(name, []).append((flip, ast.unparse(rr), n))
    for name, src in want.items():
        hits = found.get(name, [])
        ctx.need(len(hits) == 1, f"{fq}: expected one data comparison against {name}, found {len(hits)}")
        op, other, node = hits[0]
        ok = op == 'GtE'
        ctx.check(ok, 'R19.2/threshold', f.construct(f"threshold:{name}"), f"{other} >= {name}",
                  f"threshold on {name} is `{ast.unparse(node)}`; documented semantics is 'at least' (>=) on {src or 'the count of individuals'}", f.where(node))
    # at least two kept alleles
    two = find_all(f.node, "_k.sum(axis=-1) > 1") + find_all(f.node, "_k.sum(axis=-1) >= 2")     # also matches 1 < k.sum(...) / 2 <= k.sum(...)
    anycmp = [n for n in ast.walk(f.node) if isinstance(n, ast.Compare) and any(has(x, "_k.sum(axis=-1)") for x in (n.left, n.comparators[0]))]
    ok = len(two) == 1 and len(anycmp) == 1
    ctx.check(ok, 'R19.2/two-alleles', f.construct('segregating'), "position emitted iff more than one allele kept",
              "positions are not restricted to those with at least two kept alleles", f.where())


def rule_refmasked(ctx):
    fq = FS + 'write_vcf_block'
    f = ctx.func(fq)
    r = ctx.recon(fq)
    # the value written as REFMASKED: the array iterated to prefix "REFMASKED;"
    n1, b = find(f.node, "for _i, _b in enumerate(_rm):\n    _BODY")
    cands = [(n, bb) for n, bb in find_all(f.node, "for _i, _b in enumerate(_rm):\n    _BODY") if 'REFMASKED' in ast.unparse(n)]
    ctx.need(len(cands) == 1, f"{fq}: REFMASKED loop not found")
    rm = r.env.get(cands[0][1]['_rm'])
    ctx.need(rm is not None, f"{fq}: reference mask value not found")
    forced_before = any(x[0] == 'upd' and x[3] == ('const', True) for x in walk(rm))
    shape = rm[0] == 'un' and rm[1] == 'Invert' and rm[2][0] == 'idx' and rm[2][2] == ('tuple', (('slice', None, None, None), ('const', 0)))
    ctx.check(shape and not forced_before, 'R19.3/refmasked-order', f.construct('reference_masked'),
              "REFMASKED = ~keep[:, 0] read before the reference is force-kept",
              "REFMASKED is computed after keep[:, 0] was forced to True (or not from keep[:, 0])", f.where())
    keep_root = rm[2][1] if shape else None
    forced = [ev for ev in r.events if ev.kind == 'store' and ev.data[2] == ('const', True) and ev.data[1] == ('tuple', (('slice', None, None, None), ('const', 0)))]
    ctx.check(len(forced) == 1, 'R19.3/ref-kept', f.construct('keep[:, 0]'), "reference column always kept", "reference allele can be dropped from REF", f.where())


def rule_threading(ctx):
    fq = FS + 'main'
    f = ctx.func(fq)
    r = ctx.recon(fq)
    calls = [(c, n) for c, _, n in r.calls if c[1] == FS + 'write_vcf_block']
    ctx.need(len(calls) == 1, f"{fq}: one write_vcf_block call expected")
    kw = kwargs(calls[0][0])
    listed = ['maf', 'mad', 'ind_maf', 'ind_mad', 'min_ind', 'mapping_quality']
    flags = ['skip_duplicates', 'skip_qcfail', 'skip_supplementary']
    for nm in listed + flags:
        v = kw.get(nm)
        txt = show(v) if v is not None else None
        ok = v is not None and f"args.{nm}" in txt.replace('after', '') or (v is not None and f".{nm}" in txt)
        if nm in listed:
            ok = ok and v[0] == 'idx' and v[2] == ('const', 0)
        ctx.check(bool(ok), 'R19.4/threading', f.construct(f"write_vcf_block({nm}=)"), f"{nm} <- args.{nm}",
                  f"write_vcf_block receives {nm}={txt}", f.where(calls[0][1]))
    # the argument objects registered on the parser are the matching ones
    src = ast.unparse(f.node)
    for a in ('find_snvs_maf', 'find_snvs_mad', 'find_snvs_ind_maf', 'find_snvs_ind_mad', 'find_snvs_min_ind', 'mapping_quality',
              'skip_duplicates', 'skip_qcfail', 'skip_supplementary'):
        ctx.check(f"arguments.{a}" in src, 'R19.4/parser', f.construct(f"parser:{a}"), f"arguments.{a} registered", f"arguments.{a} is not registered on the find-snvs parser", f.where())


# what pysam's pileup() does to reads and base calls unless told otherwise (pysam 0.24.1, libcalignmentfile.pyx: `stepper` "samtools",
# min_base_quality 13, ignore_orphans True, ignore_overlaps True, max_depth 8000); none of them is a find-snvs option
IMPLICIT_PILEUP_FILTERS = {
    'min_base_quality': ("0", "base calls with quality below 13 are not counted"),
    'ignore_orphans': ("False", "paired reads without the proper-pair flag are not counted"),
    'ignore_overlaps': ("False", "of two overlapping mates only one is counted"),
    'max_depth': (None, "depth is capped at 8000"),
}


def rule_implicit_filters(ctx):
    """the depths are counts "among the reads that pass the configured read filters": every filter pileup() applies on its own
    must be switched off (or be an option of the program); otherwise the reported depth differs from the pileup of the reads
    the options select, and no option can change that"""
    fq = FS + 'bam_region_depths'
    f = ctx.func(fq)
    r = ctx.recon(fq)
    piles = [(c, n) for c, _, n in r.calls if c[1] == '.pileup']
    ctx.need(len(piles) == 1, f"{fq}: one pileup call expected, found {len(piles)}")
    c, node = piles[0]
    given = dict(c[3])
    for kw, (off, what) in sorted(IMPLICIT_PILEUP_FILTERS.items()):
        con = f.construct(f"pileup({kw})")
        v = given.get(kw)
        if v is None:
            ctx.violation('R19.5/implicit-pileup-filter', con, f"pileup() is called without {kw}=: {what}, whatever the read-filter options say", f.where(node))
        elif off is not None and show(v) != off and v[0] == 'const':
            ctx.violation('R19.5/implicit-pileup-filter', con, f"pileup({kw}={show(v)}): {what}", f.where(node))
        else:
            ctx.ok('R19.5/implicit-pileup-filter', con, f"{kw}={show(v)}")


def rule_population_mean(ctx):
    """the population frequency that is compared with --maf is the mean over the samples that have coverage (numpy.nanmean, as
    for the ordering of the alleles and ADMF): with numpy.mean one sample without reads makes it nan and the position is dropped
    (defect J)"""
    fq = FS + 'write_vcf_block'
    f = ctx.func(fq)
    means = [n for n in ast.walk(f.node) if isinstance(n, ast.Call) and ast.unparse(n.func) in ('np.mean', 'np.nanmean', 'numpy.mean', 'numpy.nanmean')
             and any(k.arg == 'axis' and ast.unparse(k.value) == '1' for k in n.keywords)]      # the means over the samples
    ctx.need(len(means) >= 2, f"{fq}: the mean allele frequencies (threshold and ordering) were not found")
    for k, n in enumerate(means, 1):
        ctx.check(ast.unparse(n.func).endswith('nanmean'), 'R19.2/population-mean', f.construct(f"mean frequency #{k}"), "mean over the samples with coverage",
                  f"`{ast.unparse(n)[:60]}` is nan as soon as one sample has no reads at the position", f.where(n))


def rule_row_is_position(ctx):
    """the pileup yields a column only for positions that have a read passing the filters, so the row of the depth table a column is
    counted into must be derived from the column's position (`column.pos - start`), never from how many columns came before it"""
    fq = 'mchap.application.find_snvs.bam_region_depths'
    f = ctx.func(fq)
    r = ctx.recon(fq)
    cnt = [c for c, _, _ in r.calls if c[1].endswith('find_snvs._count_alleles')]
    ctx.need(len(cnt) >= 1, f"{fq}: the call that counts the alleles of a pileup column was not found")
    for k, c in enumerate(cnt):
        cell = c[2][0]
        ok = False
        if cell[0] == 'idx' and cell[2][0] == 'tuple' and len(cell[2][1]) >= 1:
            row = cell[2][1][0]
            ok = row[0] == 'bin' and row[1] == 'Sub' and row[3] == ('param', 'start') and row[2][0] == 'attr' and row[2][2] in ('pos', 'reference_pos') \
                and row[2][1][0] == 'loopvar' and any(x[0] == 'call' and x[1] == '.pileup' for x in walk(row[2][1]))
        ctx.check(ok, 'R19.6/row-is-position', f.construct(f'row#{k + 1}'), "depth row = column.pos - start",
                  "the row of the depth table is not the pileup column's position minus the start of the target: positions without reads are not "
                  "yielded, so every later column of a sample with a gap is counted into the wrong position", f.where())


def run(ctx):
    rule_row_is_position(ctx)
    rule_implicit_filters(ctx)
    rule_population_mean(ctx)
    rule_kwargs(ctx)
    rule_thresholds(ctx)
    rule_refmasked(ctx)
    rule_threading(ctx)
