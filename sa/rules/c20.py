"""C20 (structural clauses): attributes that pysam types as Optional (VariantRecord.alts, .id) are only
dereferenced under a guard or with a default in atomize; an axis that may be empty (a site without
alternative alleles among the listed haplotypes) is never indexed with a constant, and such a site
gets ALT '.'; POS = POS + SNVPOS - 1 and PS = POS of the haplotype record; REF/ALT numbering and GT
numbering are both first-appearance. Not decided: numeric marginalisation of ACP/DS."""
from __future__ import annotations
import ast
import pathlib
from ..terms import mkcmp, path, walk, show, atoms
from ..model import AnalysisError
from ..pat import has, find, find_all

AT = 'mchap.application.atomize.'
STUB = pathlib.Path('/venv/lib/python3.12/site-packages/pysam/libcbcf.pyi')
FROZEN_OPTIONAL = {'qual', 'id', 'ref', 'alleles', 'alts'}
# of these, the ones that are None for a record *read from a file* (ALT, ID, QUAL given as '.');
# REF is a mandatory column, so `ref`/`alleles` are only None on freshly created records
NULLABLE_WHEN_PARSED = {'alts', 'id', 'qual'}
RECORD_NAMES = {'vcf_record', 'record', 'var'}
DEREF_CALLS = {'len', 'enumerate', 'list', 'tuple', 'sorted', 'zip', 'iter', 'set'}


def stub_optional_attrs():
    if not STUB.exists():
        return None
    tree = ast.parse(STUB.read_text())
    for n in ast.walk(tree):
        if isinstance(n, ast.ClassDef) and n.name == 'VariantRecord':
            out = set()
            for s in n.body:
                if isinstance(s, ast.AnnAssign) and isinstance(s.target, ast.Name) and 'Optional' in ast.unparse(s.annotation):
                    out.add(s.target.id)
            return out
    return None


def parents(tree):
    out = {}
    for n in ast.walk(tree):
        for c in ast.iter_child_nodes(n):
            out[c] = n
    return out


def is_guard_for(test, expr_txt):
    t = ast.unparse(test)
    return t == expr_txt or t == f"{expr_txt} is not None" or t == f"{expr_txt} != None"


def deref_uses(fn_node, optional_attrs, names=RECORD_NAMES):
    """(node, text, guarded?) for every use of record.<optional attr> in a context that needs non-None"""
    par = parents(fn_node)
    out = []
    for n in ast.walk(fn_node):
        if not (isinstance(n, ast.Attribute) and n.attr in optional_attrs and isinstance(n.value, ast.Name) and n.value.id in names):
            continue
        txt = ast.unparse(n)
        p = par.get(n)
        needs = False
        if isinstance(p, ast.Call) and n in p.args and ast.unparse(p.func) in DEREF_CALLS:
            needs = True
        if isinstance(p, (ast.For, ast.comprehension)) and p.iter is n:
            needs = True
        if isinstance(p, ast.Subscript) and p.value is n:
            needs = True
        if isinstance(p, ast.BinOp) and isinstance(p.op, ast.Add):
            needs = True
        if not needs:
            continue
        guarded = False
        # defaulted: (x.alts or ())
        q = n
        while q in par:
            pp = par[q]
            if isinstance(pp, ast.BoolOp) and isinstance(pp.op, ast.Or) and pp.values[0] is q:
                guarded = True
            if isinstance(pp, ast.If) and is_guard_for(pp.test, txt) and any(q is b or q in ast.walk(b) for b in pp.body):
                guarded = True
            if isinstance(pp, ast.IfExp) and is_guard_for(pp.test, txt) and (q is pp.body or q in ast.walk(pp.body)):
                guarded = True
            q = pp
        out.append((n, txt, guarded))
    return out


def rule_nullable(ctx):
    stub = stub_optional_attrs()
    if stub is not None and not FROZEN_OPTIONAL <= stub:
        raise AnalysisError(f"pysam stub changed: VariantRecord optional attributes are {sorted(stub)}")
    mod = ctx.prog.modules.get('mchap.application.atomize')
    ctx.need(mod is not None, "anchor vanished: mchap.application.atomize")
    n_uses = 0
    for name, f in sorted(mod.funcs.items()):
        uses = deref_uses(f.node, NULLABLE_WHEN_PARSED)
        per_attr = {}
        for node, txt, guarded in uses:
            n_uses += 1
            per_attr.setdefault(txt, []).append((node, guarded))
        for txt, lst in per_attr.items():
            bad = [node for node, g in lst if not g]
            ctx.check(not bad, 'R20.1/optional-deref', f.construct(txt), f"{txt} used under a guard/default ({len(lst)} uses)",
                      f"{txt} is Optional in pysam (None when the record has no ALT / no ID) but is dereferenced unguarded "
                      f"{len(bad)} time(s); mchap/io/loci.py and mchap/io/filter_alleles.py guard the same attribute", f.where(bad[0]) if bad else "")
    # alias form: alts = record.alts or ()
    if n_uses == 0:
        src = mod.source
        ctx.need('.alts' in src, "atomize no longer reads record.alts: rule needs re-confirmation")
        ctx.ok('R20.1/optional-deref', 'mchap/application/atomize.py::alts', "record.alts only read through a defaulted alias")
        for name, f in sorted(mod.funcs.items()):
            for n in ast.walk(f.node):
                if isinstance(n, ast.Assign) and isinstance(n.value, ast.Attribute) and n.value.attr in NULLABLE_WHEN_PARSED \
                        and isinstance(n.value.value, ast.Name) and n.value.value.id in RECORD_NAMES and n.value.attr == 'alts':
                    ctx.violation('R20.1/optional-deref', f.construct(ast.unparse(n.value)),
                                  f"{ast.unparse(n)}: Optional value bound to a local without a default", f.where(n))


def rule_empty_axis(ctx):
    fq = AT + 'format_allele_floats'
    f = ctx.func(fq)
    r = ctx.recon(fq)

    def narrowing(t):
        """LIM of the first  X[:, lo:LIM]  inside t"""
        for x in walk(t):
            if isinstance(x, tuple) and x and x[0] == 'idx' and x[2][0] == 'tuple' and len(x[2][1]) == 2 and x[2][1][1][0] == 'slice' and x[2][1][1][2] is not None:
                return x[2][1][1][2]
        return None
    # the first evaluation of a constant column of a narrowed array
    site = None
    n_narrow = 0
    for ev in r.events:
        for d in ev.data:
            if not isinstance(d, tuple):
                continue
            for x in walk(d):
                if isinstance(x, tuple) and x and x[0] == 'idx' and x[2][0] == 'tuple' and len(x[2][1]) == 2:
                    if x[2][1][1][0] == 'slice' and x[2][1][1][2] is not None:
                        n_narrow += 1
                    if x[2][1][1][0] == 'const' and isinstance(x[2][1][1][1], int) and narrowing(x[1]) is not None and site is None:
                        site = (ev, x, narrowing(x[1]))
    ctx.need(n_narrow >= 1, f"{fq}: narrowing of the allele axis (x[:, 0:limit]) not found")
    ok = True
    lim_txt = 'limit'
    if site is not None:
        ev, x, LIM = site
        lim_txt = show(LIM)
        k = x[2][1][1][1]
        need = k + 1 if k >= 0 else -k
        guards = {(mkcmp('Eq', LIM, ('const', 0)), False), (mkcmp('Gt', LIM, ('const', 0)), True), (mkcmp('GtE', LIM, ('const', 1)), True),
                  (mkcmp('Lt', LIM, ('const', 1)), False), (mkcmp('LtE', LIM, ('const', 0)), False), (LIM, True)}
        guarded = need == 1 and any(cp in guards for cp in path(ev))
        structural = LIM[0] == 'bin' and LIM[1] == 'Add' and LIM[3][0] == 'const' and isinstance(LIM[3][1], int) and LIM[3][1] >= need
        ok = guarded or structural
    ctx.check(ok, 'R20.2/empty-axis', f.construct("constant index on the allele axis"), f"constant column only where {lim_txt} >= 1",
              f"the allele axis is narrowed to 0:{lim_txt}, which is 0 for a site that is monomorphic among the listed haplotypes when length == 'A', "
              f"but a constant column is indexed with no lower bound on it on the path",
              f.where(site[0].node) if site else f.where())
    # ALT string of a site without alternatives must be '.'
    f2 = ctx.func(AT + 'format_vcf_snv_block')
    alt_assign = [n for n in ast.walk(f2.node) if isinstance(n, ast.Assign) and has(n.targets[0], "_bd[COLUMN.ALT]") and isinstance(n.targets[0], ast.Subscript)]
    ctx.need(len(alt_assign) == 1, f"{f2.qname}: ALT column assignment not found")
    rhs = alt_assign[0].value
    handled = any(isinstance(c, ast.Constant) and c.value == '.' for c in ast.walk(rhs))
    f3 = ctx.func(AT + 'format_snv_alleles')
    for n in ast.walk(f3.node):
        if isinstance(n, ast.Call) and isinstance(n.func, ast.Attribute) and n.func.attr == 'append' and n.args and 'join' in ast.unparse(n.args[0]):
            handled = handled or any(isinstance(c, ast.Constant) and c.value == '.' for c in ast.walk(n))
    ctx.check(handled, 'R20.2/empty-alt', f2.construct('ALT'), "a site without alternative alleles gets ALT '.'",
              "a site whose listed haplotypes all carry the reference base gets an empty ALT string (\",\".join of nothing)", f2.where(alt_assign[0]))


def rule_positions(ctx):
    fq = AT + 'format_vcf_snv_block'
    f = ctx.func(fq)
    r = ctx.recon(fq)
    n1, b1 = find(f.node, "_bd[COLUMN.POS] = _pos")
    ctx.need(n1 is not None, f"{fq}: POS column assignment not found")
    pos = r.env.get(b1['_pos'])
    rec = ('param', 'vcf_record')
    ok = False
    if pos is not None:
        from ..norm import Normaliser, p_const
        lin = Normaliser().N(pos)
        snv = [a for a in lin.d if a != () and a[0] == 'call' and a[1] == 'numpy.array' and 'infofields.SNVPOS' in show(a, short=False)] + \
              [a for a in lin.d if a != () and a[0] == 'idx' and 'infofields.SNVPOS' in show(a, short=False)]
        ok = len(lin.d) == 3 and len(snv) == 1 and lin.coeff(snv[0]) == p_const(1) and lin.coeff(('attr', rec, 'pos')) == p_const(1) and lin.coeff(()) == p_const(-1)
    ctx.check(ok, 'R20.3/pos', f.construct('POS'), "POS = SNVPOS - 1 + record.pos", f"POS column is {show(pos)[:120] if pos else None}", f.where())
    # the PS entry: the np.tile(...) of a "PS=<pos>" string
    ps = None
    for ev in r.events:
        if ev.kind == 'assign' and ev.data[1][0] == 'call' and ev.data[1][1] == 'numpy.tile' and 'infofields.PS' in show(ev.data[1], short=False):
            ps = ev.data[1]
    fm = [x for x in walk(ps)] if ps is not None else []
    fm = [x for x in fm if x[0] == 'call' and x[1] == '.format' and len(x[2]) == 3]
    ok = len(fm) == 1 and fm[0][2][2] == ('attr', rec, 'pos') and 'infofields.PS' in show(fm[0][2][1], short=False)
    ctx.check(ok, 'R20.3/ps', f.construct('PS'), "PS = record.pos", f"PS is {show(ps)[:120] if ps else None}", f.where())
    # numbering idioms: first appearance in both helpers
    f1 = ctx.func(AT + 'format_snv_alleles')
    n1, b = find(f1.node, "_u, _idx = np.unique(haplotype_snvs[:, _i], return_index=True)")
    ok1 = n1 is not None and has(f1.node, f"{b['_idx']}.sort()") and has(f1.node, f"assert {b['_idx']}[0] == 0") and has(f1.node, f"{b['_idx']} = {b['_idx']}[1:]")
    f2 = ctx.func(AT + 'get_haplotype_snv_indices')
    n2, b2 = find(f2.node, "_a = _d.get(_char)")
    ok2 = n2 is not None and has(f2.node, f"if {b2['_a']} is None:\n    {b2['_a']} = _next\n    {b2['_d']}[{b2['_char']}] = {b2['_a']}\n    _next += 1") \
        and has(f2.node, f"for _h in range(_n):\n    _BODY")
    if not ok2:
        # the same numbering written with a membership test: a base seen for the first time gets the next number
        n3, b3 = find(f2.node, "if _char not in _d:\n    _d[_char] = _next\n    _next += 1")
        ok2 = n3 is not None and has(f2.node, f"_out[_h, _i] = {b3['_d']}[{b3['_char']}]") and has(f2.node, "for _h in range(_n):\n    _BODY")
    ctx.check(bool(ok1 and ok2), 'R20.3/numbering', f1.construct('first-appearance'), "ALT order and GT numbering are both by first appearance, REF first",
              "ALT order and GT numbering are no longer both first-appearance", f1.where())


def _sample_field_values(t):
    """sub-terms that read one FORMAT field of one sample: record.samples[s].get(FIELD) / record.samples[s][FIELD]"""
    out = []
    for x in walk(t):
        if x[0] == 'call' and x[1] == '.get' and len(x[2]) >= 2:
            recv = x[2][0]
            if recv[0] == 'idx' and recv[1][0] == 'attr' and recv[1][2] == 'samples' and any(y[0] == 'name' and '.formatfields.' in y[1] for y in walk(x[2][1])):
                if len(x[2]) == 2:          # with a default the caller chose what a missing field looks like
                    out.append(x)
        if x[0] == 'idx' and x[1][0] == 'idx' and x[1][1][0] == 'attr' and x[1][1][2] == 'samples' and any(y[0] == 'name' and '.formatfields.' in y[1] for y in walk(x[2])):
            out.append(x)
    return out


def _numeric_uses(t, conds, found):
    """(value, conditions in force) for every numpy.array(V) of a per-sample field value V, following phi arms"""
    if not isinstance(t, tuple) or not t:
        return
    if t[0] == 'phi':
        _numeric_uses(t[1], conds, found)
        _numeric_uses(t[2], conds + [(t[1], True)], found)
        _numeric_uses(t[3], conds + [(t[1], False)], found)
        return
    if t[0] == 'call' and t[1] == 'numpy.array' and t[2]:
        for v in _sample_field_values(t[2][0]):
            if t[2][0] == v:
                found.append((v, list(conds)))
    for x in t:
        if isinstance(x, tuple):
            _numeric_uses(x, conds, found)


def rule_missing_values(ctx):
    """a FORMAT value written as '.' comes back from pysam as (None,): it must not reach arithmetic, and must not be printed as
    the text 'None' (defect H: records with the AF0 / NOA filter carry '.' for AFP, ACP and SQ)"""
    f = ctx.func(AT + 'get_sample_snv_ACP')
    r = ctx.recon(f.qname)
    found = []
    # the statement that converts the value is the one that must be guarded (a later use sees the converted array through a phi
    # whose other arm left the iteration with `continue`, which a conjunction of path conditions cannot express)
    for ev in r.events:
        if ev.kind == 'assign' and isinstance(ev.node, (ast.Assign, ast.AugAssign)) and any(
                isinstance(n, ast.Call) and ast.unparse(n.func) in ('np.array', 'numpy.array') for n in ast.walk(ev.node.value)):
            _numeric_uses(ev.data[1], [(c, pol) for c, pol in ev.conds if not (isinstance(c, tuple) and c and c[0] == 'inloop')], found)
    seen = {}
    for v, conds in found:
        at = atoms(conds)
        none_in = (('cmp', 'In', ('const', None), v), False)
        guarded = none_in in at
        key = show(v)[:120]
        seen[key] = seen.get(key, True) and guarded
    ctx.need(len(seen) >= 2, f"{f.qname}: per-sample ACP and AFP values converted with numpy.array expected, found {len(seen)}")
    for k, (key, ok) in enumerate(sorted(seen.items()), 1):
        ctx.check(ok, 'R20.4/missing-sample-value', f.construct(f"numeric field #{k}"), f"{key} reaches arithmetic only where `None in value` is excluded",
                  f"{key} is converted to an array and used in arithmetic on a path where it may be (None,) - the value pysam returns for '.'", f.where())
    g = ctx.func(AT + 'get_sample_snv_PQ')
    rg = ctx.recon(g.qname)
    texts = [c for c, _, _ in rg.calls if c[1] == '.astype' and len(c[2]) == 2 and c[2][1] == ('const', 'U') and any(y[0] == 'name' and y[1].endswith('formatfields.SQ.id') for y in walk(c[2][0]))]
    ctx.need(len(texts) == 1, f"{g.qname}: one conversion of SQ values to text expected")
    fixed = any(ev.kind == 'store' and ev.data[2] == ('const', '.') and ev.data[1][0] == 'cmp' and ev.data[1][1] == 'Eq' and ('const', 'None') in (ev.data[1][2], ev.data[1][3])
                for ev in rg.events)
    ctx.check(fixed, 'R20.4/missing-sample-value', g.construct('SQ as text'), "a missing SQ is written as '.'", "a missing SQ (None) is converted to text and printed as 'None'", g.where())


def run(ctx):
    rule_missing_values(ctx)
    rule_nullable(ctx)
    rule_empty_axis(ctx)
    rule_positions(ctx)
