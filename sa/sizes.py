"""Size terms: symbolic first-axis length of array-valued terms, with inlining of repo functions,
dataclass constructors and methods, under a guard mode (see kernels.collapse).

Size values (hashable tuples):
  ('len', <show of an atom term>)      length of an opaque array (parameter, attribute, call result)
  ('add', size, k)                     size + k
  ('G', size_alleles, text_ploidy)     number of genotypes C(n + p - 1, p)
  ('max+1', text)                      x.max() + 1  (data dependent)
  ('subset', size, text)               boolean-mask subset (<= size)
  ('const', k)
  ('scalar',)                          not an array
  ('join', s1, s2, ...)                differs between return paths
  ('?', text)                          unknown
"""
from __future__ import annotations
from .terms import walk, subst, simplify, show
from .kernels import collapse, truth, kwargs

ALLOC = {'numpy.zeros', 'numpy.empty', 'numpy.ones', 'numpy.full'}
COUNT_G = {'mchap.combinatorics.count_unique_genotypes', 'mchap.jitutils.comb_with_replacement'}
ELEMENTWISE = {'numpy.round', 'numpy.exp', 'numpy.log', 'numpy.log10', 'numpy.abs', 'numpy.isnan', 'numpy.sort', 'numpy.flip',
               'numpy.array', 'numpy.asarray', 'numpy.nan_to_num', 'numpy.cumsum', 'numpy.argsort', 'tuple', 'list', 'enumerate', 'dict', '.copy', '.round', '.astype', '.ravel', 'numpy.negative'}


class Obj:
    def __init__(self, cls, fields):
        self.cls, self.fields = cls, fields


import re
_PLAIN_NAME = re.compile(r'[A-Za-z_][\w.]*')


class SizeEval:
    def __init__(self, ctx, max_depth=60):
        self.ctx = ctx
        self.prog = ctx.prog
        self.max_depth = max_depth

    # ------------------------------------------------------------------ summaries
    def returns(self, fq):
        r = self.ctx.recon(fq)
        return [ev.data[0] for ev in r.events if ev.kind == 'return']

    def bind(self, fq, args, kws, skip_self=False):
        f = self.prog.funcs[fq]
        a = f.node.args
        names = [x.arg for x in a.posonlyargs + a.args]
        if skip_self and names and names[0] == 'self':
            names = names[1:]
        # drop placeholders of parameters that were not supplied, and the receiver, which is bound separately
        m = {k: v for k, v in zip(names, args) if v[:1] != ('default',)}
        m.update({k: v for k, v in dict(kws).items() if not (skip_self and k == 'self')})
        import ast as _ast
        defaults = a.defaults
        for n_, d in zip(names[len(names) - len(defaults):], defaults):
            if n_ not in m:
                m[n_] = ('const', d.value) if isinstance(d, _ast.Constant) else ('opaque', _ast.unparse(d))
        for arg, d in zip(a.kwonlyargs, a.kw_defaults):
            if arg.arg not in m and d is not None:
                m[arg.arg] = ('const', d.value) if isinstance(d, _ast.Constant) else ('opaque', _ast.unparse(d))
        return m

    @staticmethod
    def substitute(t, mapping, obj=None):
        def rule(x):
            if x and x[0] == 'param' and x[1] in mapping:
                return mapping[x[1]]
            if obj is not None and x and x[0] == 'attr' and x[1] == ('param', 'self') and x[2] in obj.fields:
                return obj.fields[x[2]]
            return None
        return subst(t, rule)

    # ------------------------------------------------------------------ objects
    def resolve_obj(self, t, mode, depth=0):
        if depth > self.max_depth:
            return None
        if t[0] != 'call':
            return None
        q = t[1]
        if q in self.prog.classes:
            c = self.prog.classes[q]
            fields = self.prog.all_fields(c)
            m = dict(zip(fields, t[2]))
            m.update(dict(t[3]))
            return Obj(q, m)
        if q in self.prog.funcs and self.prog.funcs[q].cls is not None and t[2]:
            recv = self.resolve_obj(t[2][0], mode, depth + 1)
            if recv is None:
                return None
            mapping = self.bind(q, t[2][1:], t[3], skip_self=True)
            outs = []
            for rt in self.returns(q):
                rt = collapse(self.substitute(rt, mapping, recv), mode)
                rt = self._retarget_type_self(rt, recv)
                o = self.resolve_obj(rt, mode, depth + 1)
                if o is not None:
                    outs.append(o)
            if not outs:
                return None
            o0 = outs[0]
            for o in outs[1:]:
                for k in list(o0.fields):
                    if k in o.fields and o.fields[k] != o0.fields[k]:
                        o0.fields[k] = ('join2', o0.fields[k], o.fields[k])
            return o0
        return None

    def _retarget_type_self(self, t, obj):
        return t

    # ------------------------------------------------------------------ sizes
    def join(self, outs):
        outs = [o for o in outs]
        if not outs:
            return ('?', 'no return')
        if all(o == outs[0] for o in outs):
            return outs[0]
        return ('join',) + tuple(sorted(set(outs), key=repr))

    def size(self, t, mode, depth=0):
        if depth > self.max_depth:
            return ('?', 'depth')
        if depth == 0:
            t = collapse(t, mode)
            self._memo = {}
        key = t
        try:
            if key in self._memo:
                return self._memo[key]
        except AttributeError:
            self._memo = {}
        r = self._size(t, mode, depth)
        if _has_unknown(r) and t[0] in ('call', 'proj'):
            # data-dependent size: name the array opaquely instead of expanding it
            r = ('len', show(t))
        self._memo[key] = r
        return r

    def _size(self, t, mode, depth):
        k = t[0]
        if k == 'call':
            q, args = t[1], t[2]
            if q in ALLOC and args:
                shape = args[0]
                if shape[0] == 'tuple':
                    return self.value(shape[1][0], mode, depth + 1)
                return self.value(shape, mode, depth + 1)
            if q == 'numpy.array' and args and args[0][0] == 'list':
                return ('const', len(args[0][1]))
            if q in ELEMENTWISE and args:
                return self.size(args[0], mode, depth + 1)
            if q == 'len':
                return ('scalar',)
            if q == 'numpy.where' and len(args) == 1:
                return ('subset', self.size(args[0], mode, depth + 1), 'where')
            if q in self.prog.funcs:
                f = self.prog.funcs[q]
                if f.cls is not None and args:
                    recv = self.resolve_obj(args[0], mode, depth + 1)
                    if recv is None:
                        return ('?', f"receiver of {f.name}")
                    mapping = self.bind(q, args[1:], t[3], skip_self=True)
                    return self.join([self.size(collapse(self.substitute(rt, mapping, recv), mode), mode, depth + 1) for rt in self.returns(q)])
                mapping = self.bind(q, args, t[3])
                return self.join([self.size(collapse(self.substitute(rt, mapping), mode), mode, depth + 1) for rt in self.returns(q)])
            return ('len', show(t)[:120])
        if k in ('proj', 'idx') and isinstance(t[2 if k == 'proj' else 1], tuple) and t[2 if k == 'proj' else 1][:1] == ('attr',) \
                and t[2 if k == 'proj' else 1][2] in ('shape',):
            return ('scalar',)          # one dimension of an array shape
        if k == 'attr' and t[2] in ('size', 'ndim'):
            return ('scalar',)
        if k == 'proj':
            items = self.as_tuple(t[2], mode, depth + 1)
            if items is not None and t[1] < len(items):
                return self.size(items[t[1]], mode, depth + 1)
            return ('?', 'proj of ' + show(t[2])[:60])
        if k == 'bin':
            # numpy broadcasting of two operands; the order of the operands must not matter.  An operand whose size is
            # only its own opaque name (an element taken out of a container: a ploidy, a count) yields to a known size.
            cands = []
            for x in (t[2], t[3]):
                s = self.size(x, mode, depth + 1)
                if s[0] != 'scalar':
                    cands.append((s, s[0] == '?' or s in self.__dict__.get('_opaque', ())))
            if not cands:
                return ('scalar',)
            strong = [s for s, weak in cands if not weak]
            if len(strong) == 1 or (len(strong) == 2 and strong[0] == strong[1]):
                return strong[0]
            if not strong:
                return cands[0][0]      # operands are in canonical (commutative ops) or source (/, -) order: both are stable
            return ('?', 'broadcast of ' + repr(strong[0])[:60] + ' and ' + repr(strong[1])[:60])
        if k == 'un':
            return self.size(t[2], mode, depth + 1)
        if k == 'idx':
            ix = t[2]
            # element of a structurally known tuple/list: results[-2], results[0:4] ...
            items = self.as_tuple(t[1], mode, depth + 1)
            if items is not None:
                if ix[0] == 'const' and isinstance(ix[1], int) and -len(items) <= ix[1] < len(items):
                    return self.size(items[ix[1]], mode, depth + 1)
                if ix[0] == 'un' and ix[1] == 'USub' and ix[2][0] == 'const' and ix[2][1] <= len(items):
                    return self.size(items[-ix[2][1]], mode, depth + 1)
            if ix[0] in ('name', 'param', 'loopvar') or (ix[0] == 'const' and isinstance(ix[1], str)):
                r = ('len', show(t))         # element of a container, named opaquely
                self.__dict__.setdefault('_opaque', set()).add(r)
                return r
            base = self.size(t[1], mode, depth + 1)
            if ix[0] == 'slice':
                lo, hi = ix[1], ix[2]
                if lo == ('const', 1) and hi is None:
                    return ('add', base, -1)
                if (lo is None or lo == ('const', 0)) and hi is None:
                    return base
                return ('?', 'slice ' + show(ix))
            if ix[0] == 'un' and ix[1] == 'Invert':
                return ('subset', base, show(ix)[:60])
            if ix[0] in ('cmp', 'bool'):
                return ('subset', base, show(ix)[:60])
            if ix[0] == 'tuple' and ix[1] and ix[1][0][0] == 'slice' and ix[1][0][1:] == (None, None, None):
                return base
            ixs = self.size(ix, mode, depth + 1)
            if ixs[0] not in ('scalar', '?', 'len'):
                return ixs           # fancy indexing by an index array
            return ('scalar',) if ixs[0] == 'scalar' else ('?', 'index ' + show(ix)[:60])
        if k in ('upd', 'havoc'):
            return self.size(t[1], mode, depth + 1)
        if k == 'carried':
            return self.size(t[2], mode, depth + 1)
        if k == 'out' and t[1] in ('.pop', '.append'):
            recv = t[3][2][0] if t[3][0] == 'call' and t[3][2] else None
            if recv is not None:
                return ('add', self.size(recv, mode, depth + 1), -1 if t[1] == '.pop' else 1)
        if k == 'out':
            # array after an in-place call keeps its size: find the argument bound to the mutated parameter
            from .kernels import storage_root
            r = storage_root(self.prog, t)
            return self.size(r, mode, depth + 1) if r is not None and r != t else ('?', show(t)[:60])
        if k == 'join2':
            return self.join([self.size(t[1], mode, depth + 1), self.size(t[2], mode, depth + 1)])
        if k == 'phi':
            return self.join([self.size(t[2], mode, depth + 1), self.size(t[3], mode, depth + 1)])
        if k == 'const':
            return ('scalar',)
        if k == 'list' or k == 'tuple':
            return ('const', len(t[1]))
        if k in ('param', 'name', 'attr'):
            return ('len', show(t))
        return ('?', show(t)[:80])

    def as_tuple(self, t, mode, depth=0):
        if t[0] in ('tuple', 'list'):
            return t[1]
        if t[0] == 'call' and t[1] in ('tuple', 'list') and t[2]:
            return self.as_tuple(t[2][0], mode, depth + 1)
        if t[0] == 'call' and t[1] in self.prog.funcs and depth <= self.max_depth:
            q, args = t[1], t[2]
            f = self.prog.funcs[q]
            if f.cls is not None and args:
                recv = self.resolve_obj(args[0], mode, depth + 1)
                if recv is None:
                    return None
                mapping = self.bind(q, args[1:], t[3], skip_self=True)
                rts = [collapse(self.substitute(rt, mapping, recv), mode) for rt in self.returns(q)]
            else:
                mapping = self.bind(q, args, t[3])
                rts = [collapse(self.substitute(rt, mapping), mode) for rt in self.returns(q)]
            tups = [self.as_tuple(rt, mode, depth + 1) for rt in rts]
            if tups and all(x is not None for x in tups) and len({len(x) for x in tups}) == 1:
                if len(tups) == 1:
                    return tups[0]
                return tuple(('join2', a, b) if a != b else a for a, b in zip(tups[0], tups[-1]))
        return None

    def value(self, t, mode, depth=0):
        """integer-valued term -> size value"""
        if depth > self.max_depth:
            return ('?', 'depth')
        if t[0] == 'const' and isinstance(t[1], int):
            return ('const', t[1])
        if t[0] == 'call':
            q = t[1]
            if q == 'len' and t[2]:
                return self.size(t[2][0], mode, depth + 1)
            if q == '.max':
                return ('max', show(t[2][0])[:80])
            if q == '.sum' and t[2]:
                return ('sum', show(t[2][0])[:80])
            if q in COUNT_G:
                return ('G', self.value(t[2][0], mode, depth + 1), show(t[2][1])[:60])
            if q == 'int' and t[2]:
                return self.value(t[2][0], mode, depth + 1)
            if q in self.prog.funcs:
                f = self.prog.funcs[q]
                if f.cls is None:
                    mapping = self.bind(q, t[2], t[3])
                    return self.join([self.value(collapse(self.substitute(rt, mapping), mode), mode, depth + 1) for rt in self.returns(q)])
        if t[0] == 'bin' and t[1] == 'Add':
            a, b = self.value(t[2], mode, depth + 1), self.value(t[3], mode, depth + 1)
            if b[0] == 'const':
                if a[0] == 'max' and b[1] == 1:
                    return ('max+1', a[1])
                return ('add', a, b[1]) if b[1] else a
            if a[0] == 'const':
                return ('add', b, a[1]) if a[1] else b
        if t[0] == 'join2':
            return self.join([self.value(t[1], mode, depth + 1), self.value(t[2], mode, depth + 1)])
        if t[0] == 'phi':
            return self.join([self.value(t[2], mode, depth + 1), self.value(t[3], mode, depth + 1)])
        if t[0] == 'proj':
            # shape unpacking: a, b = x.shape
            inner = t[2]
            if inner[0] == 'attr' and inner[2] == 'shape' and t[1] == 0:
                return self.size(inner[1], mode, depth + 1)
        if t[0] in ('param', 'name', 'attr'):
            return ('val', show(t))
        return ('?', show(t)[:80])


def _has_unknown(s):
    if not isinstance(s, tuple):
        return False
    if s and s[0] == '?':
        return True
    return any(_has_unknown(x) for x in s[1:] if isinstance(x, tuple))


def norm_size(s):
    """flatten ('add', ('add', x, a), b)"""
    if s[0] == 'add':
        inner = norm_size(s[1])
        if inner[0] == 'add':
            k = inner[2] + s[2]
            return ('add', inner[1], k) if k else inner[1]
        if inner[0] == 'const':
            return ('const', inner[1] + s[2])
        return ('add', inner, s[2]) if s[2] else inner
    if s[0] == 'G':
        return ('G', norm_size(s[1]), s[2])
    return s
