"""Reference implementations for mchap.application.arguments (parsed, never imported); compared with the code by sa/refspec.py."""


def parse_sample_pools(samples, sample_bams, sample_pool_argument):
    if sample_pool_argument is None:
        sample_bams = {k: [(k, v)] for k, v in sample_bams.items()}
        return (samples, sample_bams)
    if not os.path.isfile(sample_pool_argument):
        samples = [sample_pool_argument]
        sample_bams = {sample_pool_argument: [(k, v) for k, v in sample_bams.items()]}
        return (samples, sample_bams)
    else:
        with open(sample_pool_argument) as f:
            lines = [line.strip().split('\t') for line in f.readlines()]
        pools = list()
        pool_bams = dict()
        samples_in_pools = set()
        for sample, pool in lines:
            samples_in_pools.add(sample)
            bam = sample_bams[sample]
            if pool not in pools:
                pools.append(pool)
                pool_bams[pool] = [(sample, bam)]
            else:
                pool_bams[pool].append((sample, bam))
        sample_with_bams = set(samples)
        diff = sample_with_bams - samples_in_pools
        if diff:
            raise ValueError(f'The following samples have not been assigned to a pool: {diff}')
        diff = samples_in_pools - sample_with_bams
        if diff:
            raise ValueError(f'The following names in the sample-pool file do not match a known sample : {diff}')
        return (pools, pool_bams)


def parse_sample_bam_paths(bam_argument, sample_pool_argument, read_group_field, reference_path):
    """Combine arguments relating to sample bam file specification."""
    textfile = False
    if len(bam_argument) == 1:
        try:
            pysam.AlignmentFile(bam_argument[0], reference_filename=reference_path)
        except ValueError:
            textfile = True
        else:
            bams = bam_argument
    else:
        bams = bam_argument
    if not textfile:
        sample_bams = extract_sample_ids(bams, id=read_group_field, reference_path=reference_path)
        samples = list(sample_bams)
    if textfile:
        with open(bam_argument[0]) as f:
            lines = [line.strip().split('\t') for line in f.readlines()]
        n_fields = len(lines[0])
        for line in lines:
            if len(line) != n_fields:
                raise ValueError('Inconsistent number of fields')
        if n_fields == 1:
            bams = [line[0] for line in lines]
            sample_bams = extract_sample_ids(bams, id=read_group_field, reference_path=reference_path)
            samples = list(sample_bams)
        elif n_fields == 2:
            samples = [line[0] for line in lines]
            sample_bams = dict(lines)
        else:
            raise ValueError('Too many fields')
    samples, sample_bams = parse_sample_pools(samples, sample_bams, sample_pool_argument)
    return (samples, sample_bams)
