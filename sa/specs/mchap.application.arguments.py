"""Reference implementations for mchap.application.arguments (parsed, never imported); compared with the code by sa/refspec.py."""


def parse_sample_pools(samples, sample_bams, sample_pool_argument):
    if sample_pool_argument is None:
        sample_bams = {k: [(k, v)] for k, v in sample_bams.items()}
        return (samples, sample_bams)
    if not os.path.isfile(sample_pool_argument):
        samples = [sample_pool_argument]
        sample_bams = {sample_pool_argument: [(k, v) for k, v in sample_bams.items()]}
        return (samples, sample_bams)
    else:
        with open(sample_pool_argument) as f:
            lines = [line.strip().split('\t') for line in f.readlines()]
        pools = list()
        pool_bams = dict()
        samples_in_pools = set()
        for sample, pool in lines:
            samples_in_pools.add(sample)
            bam = sample_bams[sample]
            if pool not in pools:
                pools.append(pool)
                pool_bams[pool] = [(sample, bam)]
            else:
                pool_bams[pool].append((sample, bam))
        sample_with_bams = set(samples)
        diff = sample_with_bams - samples_in_pools
        if diff:
            raise ValueError(f'The following samples have not been assigned to a pool: {diff}')
        diff = samples_in_pools - sample_with_bams
        if diff:
            raise ValueError(f'The following names in the sample-pool file do not match a known sample : {diff}')
        return (pools, pool_bams)


def parse_sample_bam_paths(bam_argument, sample_pool_argument, read_group_field, reference_path):
    """Combine arguments relating to sample bam file specification."""
    textfile = False
    if len(bam_argument) == 1:
        try:
            pysam.AlignmentFile(bam_argument[0], reference_filename=reference_path)
        except ValueError:
            textfile = True
        else:
            bams = bam_argument
    else:
        bams = bam_argument
    if not textfile:
        sample_bams = extract_sample_ids(bams, id=read_group_field, reference_path=reference_path)
        samples = list(sample_bams)
    if textfile:
        with open(bam_argument[0]) as f:
            lines = [line.strip().split('\t') for line in f.readlines()]
        n_fields = len(lines[0])
        for line in lines:
            if len(line) != n_fields:
                raise ValueError('Inconsistent number of fields')
        if n_fields == 1:
            bams = [line[0] for line in lines]
            sample_bams = extract_sample_ids(bams, id=read_group_field, reference_path=reference_path)
            samples = list(sample_bams)
        elif n_fields == 2:
            samples = [line[0] for line in lines]
            sample_bams = dict(lines)
        else:
            raise ValueError('Too many fields')
    samples, sample_bams = parse_sample_pools(samples, sample_bams, sample_pool_argument)
    return (samples, sample_bams)


def parse_sample_value_map(argument, samples, type):
    """Combine arguments specified for a default value and sample-value map file."""
    if type is int and argument.isdigit():
        value = int(argument)
        return {s: value for s in samples}
    if type is float and argument.replace('.', '', 1).isdigit():
        value = float(argument)
        return {s: value for s in samples}
    data = dict()
    with open(argument) as f:
        for line in f.readlines():
            sample, value = line.strip().split('\t')
            data[sample] = type(value)
    for s in samples:
        if s not in data:
            raise ValueError("Sample '{}' not found in file '{}'".format(s, argument))
    return data


def parse_pedigree_arguments(samples, sample_bams, ploidy_argument, sample_parents_argument, gamete_ploidy_argument, gamete_ibd_argument, gamete_error_argument):
    """Parse arguments related to pedigree specification."""
    known_samples = set(samples)
    sample_parents = dict()
    with open(sample_parents_argument) as f:
        for line in f.readlines():
            sample, p, q = line.strip().split('\t')
            if sample not in known_samples:
                samples.append(sample)
                sample_bams[sample] = []
                known_samples.add(sample)
            p = None if p == '.' else p
            q = None if q == '.' else q
            sample_parents[sample] = (p, q)
    sample_ploidy = parse_sample_value_map(ploidy_argument, samples, type=int)
    sample_inbreeding = {s: 0.0 for s in samples}
    gamete_ploidy = dict()
    if gamete_ploidy_argument is None:
        for sample in samples:
            ploidy = sample_ploidy[sample]
            if ploidy % 2:
                raise ValueError('Gamete ploidy must be specified for individuals with odd ploidy')
            tau = ploidy // 2
            gamete_ploidy[sample] = (tau, tau)
    elif gamete_ploidy_argument.isdigit():
        tau = int(gamete_ploidy_argument)
        for sample in samples:
            gamete_ploidy[sample] = (tau, tau)
    else:
        with open(gamete_ploidy_argument) as f:
            for line in f.readlines():
                sample, tau_p, tau_q = line.strip().split('\t')
                gamete_ploidy[sample] = (int(tau_p), int(tau_q))
    gamete_ibd = dict()
    if gamete_ibd_argument.replace('.', '', 1).isdigit():
        lambda_ = float(gamete_ibd_argument)
        for sample in samples:
            gamete_ibd[sample] = (lambda_, lambda_)
    else:
        with open(gamete_ibd_argument) as f:
            for line in f.readlines():
                sample, lambda_p, lambda_q = line.strip().split('\t')
                gamete_ibd[sample] = (float(lambda_p), float(lambda_q))
    gamete_error = dict()
    if gamete_error_argument.replace('.', '', 1).isdigit():
        err = float(gamete_error_argument)
        for sample in samples:
            gamete_error[sample] = (err, err)
    else:
        with open(gamete_error_argument) as f:
            for line in f.readlines():
                sample, err_p, err_q = line.strip().split('\t')
                gamete_error[sample] = (float(err_p), float(err_q))
    return dict(samples=samples, sample_bams=sample_bams, sample_ploidy=sample_ploidy, sample_inbreeding=sample_inbreeding, sample_parents=sample_parents, gamete_ploidy=gamete_ploidy, gamete_ibd=gamete_ibd, gamete_error=gamete_error)


def parse_sample_temperatures(mcmc_temperatures_argument, samples):
    """Parse inverse temperatures for MCMC simulation with parallel-tempering. Parameters ---------- mcmc_temperatures_argument : str     Value(s) for mcmc_temperatures. samples : list     List of samples. Returns ------- sample_temperatures : dict     Dict mapping each sample to a list of temperatures (floats)."""
    if len(mcmc_temperatures_argument) > 1:
        floats = True
    elif mcmc_temperatures_argument[0].replace('.', '', 1).isdigit():
        floats = True
    else:
        floats = False
    if floats:
        temps = [float(s) for s in mcmc_temperatures_argument]
        temps.sort()
        assert temps[0] > 0.0
        assert temps[-1] <= 1.0
        if temps[-1] != 1.0:
            temps.append(1.0)
        return {s: temps for s in samples}
    data = {s: [1.0] for s in samples}
    with open(mcmc_temperatures_argument[0]) as f:
        for line in f.readlines():
            values = line.strip().split('\t')
            sample = values[0]
            temps = [float(v) for v in values[1:]]
            temps.sort()
            assert temps[0] > 0.0
            assert temps[-1] <= 1.0
            if temps[-1] != 1.0:
                temps.append(1.0)
            data[sample] = temps
    assert len(samples) == len(data)
    return data


def parse_report_fields(report_argument):
    if report_argument is None:
        report_argument = set()
    else:
        report_argument = set(report_argument)
    info_fields = INFO.DEFAULT_FIELDS.copy()
    for f in INFO.OPTIONAL_FIELDS:
        id = f.id
        if id in report_argument or f'INFO/{id}' in report_argument:
            info_fields.append(f)
    format_fields = FORMAT.DEFAULT_FIELDS.copy()
    for f in FORMAT.OPTIONAL_FIELDS:
        id = f.id
        if id in report_argument or f'FORMAT/{id}' in report_argument:
            format_fields.append(f)
    return (info_fields, format_fields)


def collect_default_program_arguments(arguments, skip_inbreeding=False):
    if arguments.ignore_base_phred_scores:
        if arguments.base_error_rate[0] == 0.0:
            raise ValueError('Cannot ignore base phred scores if --base-error-rate is 0')
    samples, sample_bams = parse_sample_bam_paths(arguments.bam, arguments.sample_pool[0], arguments.read_group_field[0], reference_path=arguments.reference[0])
    sample_ploidy = parse_sample_value_map(arguments.ploidy[0], samples, type=int)
    if skip_inbreeding:
        sample_inbreeding = None
    else:
        sample_inbreeding = parse_sample_value_map(arguments.inbreeding[0], samples, type=float)
    info_fields, format_fields = parse_report_fields(arguments.report)
    return dict(samples=samples, sample_bams=sample_bams, sample_ploidy=sample_ploidy, sample_inbreeding=sample_inbreeding, ref=arguments.reference[0], read_group_field=arguments.read_group_field[0], base_error_rate=arguments.base_error_rate[0], ignore_base_phred_scores=arguments.ignore_base_phred_scores, mapping_quality=arguments.mapping_quality[0], skip_duplicates=arguments.skip_duplicates, skip_qcfail=arguments.skip_qcfail, skip_supplementary=arguments.skip_supplementary, info_fields=info_fields, format_fields=format_fields, n_cores=arguments.cores[0])


def collect_call_exact_program_arguments(arguments):
    data = collect_default_program_arguments(arguments)
    data['vcf'] = arguments.haplotypes[0]
    data['random_seed'] = None
    data['prior_frequencies_tag'] = arguments.prior_frequencies[0]
    data['filter_input_haplotypes'] = arguments.filter_input_haplotypes[0]
    return data


def collect_default_mcmc_program_arguments(arguments):
    return dict(mcmc_chains=arguments.mcmc_chains[0], mcmc_steps=arguments.mcmc_steps[0], mcmc_burn=arguments.mcmc_burn[0], mcmc_incongruence_threshold=arguments.mcmc_chain_incongruence_threshold[0], random_seed=arguments.mcmc_seed[0])


def collect_call_mcmc_program_arguments(arguments):
    data = collect_default_program_arguments(arguments)
    data.update(collect_default_mcmc_program_arguments(arguments))
    data['vcf'] = arguments.haplotypes[0]
    data['prior_frequencies_tag'] = arguments.prior_frequencies[0]
    data['filter_input_haplotypes'] = arguments.filter_input_haplotypes[0]
    return data


def collect_call_pedigree_mcmc_program_arguments(arguments):
    data = collect_default_program_arguments(arguments, skip_inbreeding=True)
    data['format_fields'] += FORMAT.PEDIGREE_FIELDS
    data.update(collect_default_mcmc_program_arguments(arguments))
    data['vcf'] = arguments.haplotypes[0]
    data['prior_frequencies_tag'] = arguments.prior_frequencies[0]
    data['filter_input_haplotypes'] = arguments.filter_input_haplotypes[0]
    assert data['sample_inbreeding'] is None
    data.update(parse_pedigree_arguments(samples=data['samples'], sample_bams=data['sample_bams'], ploidy_argument=arguments.ploidy[0], sample_parents_argument=arguments.sample_parents[0], gamete_ploidy_argument=arguments.gamete_ploidy[0], gamete_ibd_argument=arguments.gamete_ibd[0], gamete_error_argument=arguments.gamete_error[0]))
    return data


def collect_assemble_mcmc_program_arguments(arguments):
    if arguments.targets[0] is not None and arguments.region[0] is not None:
        raise ValueError('Cannot combine --targets and --region arguments.')
    data = collect_default_program_arguments(arguments)
    data.update(collect_default_mcmc_program_arguments(arguments))
    sample_mcmc_temperatures = parse_sample_temperatures(arguments.mcmc_temperatures, samples=data['samples'])
    data.update(dict(bed=arguments.targets[0], vcf=arguments.variants[0], sample_mcmc_temperatures=sample_mcmc_temperatures, region=arguments.region[0], region_id=arguments.region_id, mcmc_fix_homozygous=arguments.mcmc_fix_homozygous[0], mcmc_recombination_step_probability=arguments.mcmc_recombination_step_probability[0], mcmc_partial_dosage_step_probability=arguments.mcmc_partial_dosage_step_probability[0], mcmc_dosage_step_probability=arguments.mcmc_dosage_step_probability[0], mcmc_llk_cache_threshold=arguments.mcmc_llk_cache_threshold[0], haplotype_posterior_threshold=arguments.haplotype_posterior_threshold[0]))
    return data


class Parameter:
    def add_to(self, parser):

        """Add parameter to a parser object."""

        kwargs = copy.deepcopy(self.kwargs)

        parser.add_argument(self.cli, **kwargs)

        return parser


class BooleanFlag:
    def add_to(self, parser):

        """Add boolean flag to a parser object."""

        dest = self.kwargs['dest']

        action = self.kwargs['action']

        if action == 'store_true':

            default = False

        elif action == 'store_false':

            default = True

        else:

            raise ValueError('Action must be "store_true" or "store_false".')

        parser.set_defaults(**{dest: default})

        parser.add_argument(self.cli, **self.kwargs)

        return parser
