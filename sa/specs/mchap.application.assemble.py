"""Reference implementations for mchap.application.assemble (parsed, never imported); compared with the code by sa/refspec.py."""


def _genotype_as_alleles(genotype, labels):
    """Convert a  genotype of haplotype arrays to an array of VCF sorted allele integers. Parameters ---------- genotype : ndarray, int, shape (ploidy, n_positions)     Integer encoded genotype. labels : dict[bytes, int]     Map of haplotype bytes to allele number e.g.     `{h.tobytes(): i for i, h in enumerate(haplotypes)}`."""
    alleles = np.sort([labels.get(h.tobytes(), -1) for h in genotype])
    alleles = np.append(alleles[alleles >= 0], alleles[alleles < 0])
    return alleles


def _genotype_posterior_as_array(posterior, labels, n_alleles=None):
    """Convert a  genotype of haplotype arrays to an array of VCF sorted allele integers. Parameters ---------- posterior : PosteriorGenotypeDistribution     Posterior genotype distribution. labels : dict[bytes, int]     Map of haplotype bytes to allele number e.g.     `{h.tobytes(): i for i, h in enumerate(haplotypes)}`."""
    if n_alleles is None:
        n_alleles = len(labels)
    _, ploidy, _ = posterior.genotypes.shape
    u_gens = combinatorics.count_unique_genotypes(n_alleles, ploidy)
    probabilities = np.zeros(u_gens, float)
    for haps, prob in zip(posterior.genotypes, posterior.probabilities):
        alleles = np.sort([labels.get(h.tobytes(), -1) for h in haps])
        if alleles[0] < 0:
            pass
        else:
            idx = genotype_alleles_as_index(alleles)
            probabilities[idx] = prob
    return probabilities


class program:
    def call_sample_genotypes(self, data):

        """De novo haplotype assembly of each sample."""

        sample_modes = dict()

        sample_posteriors = dict()

        for sample in data.samples:

            try:

                read_calls = data.read_calls[sample]

                read_dists = data.read_dists[sample]

                read_counts = data.read_counts[sample]

                trace = DenovoMCMC(ploidy=data.sample_ploidy[sample], n_alleles=data.locus.count_alleles(), inbreeding=data.sample_inbreeding[sample], steps=self.mcmc_steps, chains=self.mcmc_chains, fix_homozygous=self.mcmc_fix_homozygous, recombination_step_probability=self.mcmc_recombination_step_probability, partial_dosage_step_probability=self.mcmc_partial_dosage_step_probability, dosage_step_probability=self.mcmc_dosage_step_probability, temperatures=self.sample_mcmc_temperatures[sample], random_seed=self.random_seed, llk_cache_threshold=self.mcmc_llk_cache_threshold).fit(reads=read_dists, read_counts=read_counts).burn(self.mcmc_burn)

                posterior = trace.posterior()

                sample_posteriors[sample] = posterior

                genotype_support = posterior.mode_genotype_support()

                genotype_support_prob = genotype_support.probabilities.sum()

                data.sampledata[FORMAT.SPM][sample] = genotype_support_prob

                data.sampledata[FORMAT.SQ][sample] = qual_of_prob(genotype_support_prob)

                genotype, genotype_prob = genotype_support.mode_genotype()

                sample_modes[sample] = genotype

                data.sampledata[FORMAT.GQ][sample] = qual_of_prob(genotype_prob)

                data.sampledata[FORMAT.GPM][sample] = genotype_prob

                mec = np.sum(minimum_error_correction(read_calls, genotype))

                mec_denom = np.sum(read_calls >= 0)

                mecp = mec / mec_denom if mec_denom > 0 else np.nan

                data.sampledata[FORMAT.MEC][sample] = mec

                data.sampledata[FORMAT.MECP][sample] = mecp

                incongruence = trace.replicate_incongruence(threshold=self.mcmc_incongruence_threshold)

                data.sampledata[FORMAT.MCI][sample] = incongruence

            except Exception as e:

                path = data.sample_bams.get(sample)

                message = SAMPLE_ASSEMBLY_ERROR.format(sample=sample, bam=path)

                raise SampleAssemblyError(message) from e

        haplotypes, ref_called = call_posterior_haplotypes(list(sample_posteriors.values()), threshold=self.haplotype_posterior_threshold)

        haplotype_labels = {h.tobytes(): i for i, h in enumerate(haplotypes)}

        data.infodata[INFO.REFMASKED] = not ref_called

        if not ref_called:

            haplotype_labels.pop(haplotypes[0].tobytes())

            if len(haplotypes) == 1:

                data.columndata[COLUMN.FILTER].append(vcf.filters.NOA.id)

        if len(haplotypes) > 1:

            alts = data.locus.format_haplotypes(haplotypes[1:])

        else:

            alts = []

        data.columndata[COLUMN.REF] = data.locus.sequence

        data.columndata[COLUMN.ALT] = alts

        for sample in data.samples:

            try:

                alleles = _genotype_as_alleles(sample_modes[sample], haplotype_labels)

                data.sampledata[FORMAT.GT][sample] = alleles

                if self.require_AFP():

                    frequencies = np.zeros(len(haplotypes))

                    occurrences = np.zeros(len(haplotypes))

                    haps, freqs, occur = sample_posteriors[sample].allele_frequencies()

                    idx = mset.categorize(haplotypes, haps)

                    frequencies[idx >= 0] = freqs[idx[idx >= 0]]

                    occurrences[idx >= 0] = occur[idx[idx >= 0]]

                    data.sampledata[FORMAT.AFP][sample] = frequencies

                    data.sampledata[FORMAT.AOP][sample] = occurrences

                    data.sampledata[FORMAT.ACP][sample] = frequencies * data.sample_ploidy[sample]

                if FORMAT.GP in data.formatfields:

                    probabilities = _genotype_posterior_as_array(sample_posteriors[sample], haplotype_labels, n_alleles=len(haplotypes))

                    data.sampledata[FORMAT.GP][sample] = probabilities

                if FORMAT.GL in data.formatfields:

                    read_dists = data.read_dists[sample]

                    read_counts = data.read_counts[sample]

                    llks = genotype_likelihoods(reads=read_dists, read_counts=read_counts, ploidy=data.sample_ploidy[sample], haplotypes=haplotypes)

                    data.sampledata[FORMAT.GL][sample] = natural_log_to_log10(llks)

            except Exception as e:

                path = data.sample_bams.get(sample)

                message = SAMPLE_ASSEMBLY_ERROR.format(sample=sample, bam=path)

                raise SampleAssemblyError(message) from e

        return data



    def loci(self):

        if self.bed is None and self.region is None:

            raise ValueError('No region or targets bedfile is specified.')

        elif self.bed is not None:

            bed = read_bed4(self.bed)

            for b in bed:

                yield b.set_sequence(self.ref).set_variants(self.vcf)

        else:

            locus = Locus.from_region_string(self.region, self.region_id)

            yield locus.set_sequence(self.ref).set_variants(self.vcf)



    def header_contigs(self):

        with pysam.Fastafile(self.ref) as fasta:

            contigs = [vcf.headermeta.ContigHeader(c, l) for c, l in zip(fasta.references, fasta.lengths)]

        return contigs


class program:
    def cli(cls, command):

        """Program initialization from cli command"""

        parser = argparse.ArgumentParser('MCMC haplotype assembly')

        for arg in ASSEMBLE_MCMC_PARSER_ARGUMENTS:

            arg.add_to(parser)

        if len(command) < 3:

            parser.print_help()

            sys.exit(1)

        args = parser.parse_args(command[2:])

        arguments = collect_assemble_mcmc_program_arguments(args)

        return cls(cli_command=command, **arguments)
