"""Reference implementations for mchap.application.assemble (parsed, never imported); compared with the code by sa/refspec.py."""


def _genotype_as_alleles(genotype, labels):
    """Convert a  genotype of haplotype arrays to an array of VCF sorted allele integers. Parameters ---------- genotype : ndarray, int, shape (ploidy, n_positions)     Integer encoded genotype. labels : dict[bytes, int]     Map of haplotype bytes to allele number e.g.     `{h.tobytes(): i for i, h in enumerate(haplotypes)}`."""
    alleles = np.sort([labels.get(h.tobytes(), -1) for h in genotype])
    alleles = np.append(alleles[alleles >= 0], alleles[alleles < 0])
    return alleles


def _genotype_posterior_as_array(posterior, labels, n_alleles=None):
    """Convert a  genotype of haplotype arrays to an array of VCF sorted allele integers. Parameters ---------- posterior : PosteriorGenotypeDistribution     Posterior genotype distribution. labels : dict[bytes, int]     Map of haplotype bytes to allele number e.g.     `{h.tobytes(): i for i, h in enumerate(haplotypes)}`."""
    if n_alleles is None:
        n_alleles = len(labels)
    _, ploidy, _ = posterior.genotypes.shape
    u_gens = combinatorics.count_unique_genotypes(n_alleles, ploidy)
    probabilities = np.zeros(u_gens, float)
    for haps, prob in zip(posterior.genotypes, posterior.probabilities):
        alleles = np.sort([labels.get(h.tobytes(), -1) for h in haps])
        if alleles[0] < 0:
            pass
        else:
            idx = genotype_alleles_as_index(alleles)
            probabilities[idx] = prob
    return probabilities
