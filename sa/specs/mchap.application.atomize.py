"""Reference implementations for mchap.application.atomize (parsed, never imported); compared with the code by sa/refspec.py."""


def get_haplotype_snvs(vcf_record):
    snv_pos = np.array(vcf_record.info[INFO.SNVPOS.id]) - 1
    n_pos = len(snv_pos)
    alts = vcf_record.alts or ()
    n_hap = len(alts) + 1
    haplotype_snvs = np.zeros((n_hap, n_pos), dtype='U')
    haplotype_snvs[0] = np.array(list(vcf_record.ref))[snv_pos]
    for i, alt in enumerate(alts):
        alt = np.array(list(alt))
        haplotype_snvs[i + 1] = alt[snv_pos]
    return haplotype_snvs


def format_snv_alleles(haplotype_snvs):
    ref = haplotype_snvs[0]
    _, n_pos = haplotype_snvs.shape
    alts = []
    n_alts = []
    for i in range(n_pos):
        _, idx = np.unique(haplotype_snvs[:, i], return_index=True)
        idx.sort()
        assert idx[0] == 0
        idx = idx[1:]
        n_alts.append(len(idx))
        alts.append(','.join(haplotype_snvs[:, i][idx]))
    return (ref, np.array(alts), np.array(n_alts))


def get_haplotype_snv_indices(haplotype_snvs):
    n_hap, n_pos = haplotype_snvs.shape
    haplotype_idxs = np.zeros((n_hap, n_pos), dtype=int)
    for i in range(n_pos):
        d = {}
        next_allel = 0
        for h in range(n_hap):
            char = haplotype_snvs[h, i]
            a = d.get(char)
            if a is None:
                a = next_allel
                d[char] = a
                next_allel += 1
            haplotype_idxs[h, i] = a
    return haplotype_idxs




def format_allele_floats(array, alts_number, length='R', precision=3):
    input_dims = array.ndim
    if input_dims == 2:
        array = array[:, None, :]
    elif input_dims == 3:
        pass
    else:
        raise ValueError('Number of dimensions not supported.')
    assert length in ('R', 'A')
    formatted = []
    for limit, freqs in zip(alts_number, array):
        if length == 'R':
            limit += 1
        freqs = freqs[:, 0:limit]
        if limit == 0:
            formatted.append(np.full(len(freqs), '.'))
            continue
        freqs = freqs.round(precision)
        missing = np.isnan(freqs)
        freqs = freqs.astype('U')
        freqs = np.char.rstrip(freqs, '0')
        freqs = np.char.rstrip(freqs, '.')
        freqs[missing] = '.'
        head = freqs[:, 0]
        tail = freqs[:, 1:]
        for t in tail.T:
            head = np.char.add(head, ',')
            head = np.char.add(head, t)
        formatted.append(head)
    formatted = np.array(formatted)
    if input_dims == 2:
        formatted = np.squeeze(formatted, 1)
    return formatted


def get_sample_snv_GT(vcf_record, haplotype_idxs, sep='|'):
    n_haps, n_pos = haplotype_idxs.shape
    haplotype_counts = np.zeros(n_haps)
    sample_ploidy = []
    out = []
    for s in vcf_record.samples:
        haplotype_gt = vcf_record.samples[s][FORMAT.GT.id]
        ploidy = len(haplotype_gt)
        sample_ploidy.append(ploidy)
        snv_gts = np.full((ploidy, n_pos), -1, int)
        for i, a in enumerate(haplotype_gt):
            if a is not None:
                haplotype_counts[a] += 1
                snv_gts[i] = haplotype_idxs[a]
        snv_gts = snv_gts.T
        out.append([sep.join([str(a) if a >= 0 else '.' for a in call]) for call in snv_gts])
    out = np.array(out)
    snv_counts = np.zeros((n_pos, haplotype_idxs.max() + 1))
    for hap, c in enumerate(haplotype_counts):
        for p, a in enumerate(haplotype_idxs[hap]):
            snv_counts[p, a] += c
    return (snv_counts, np.array(sample_ploidy), out.T)




def get_sample_snv_depth(vcf_record):
    p = len(vcf_record.info[INFO.SNVPOS.id])
    null = np.full(p, np.nan)
    out = []
    for s in vcf_record.samples:
        dp = vcf_record.samples[s].get(FORMAT.SNVDP.id, null)
        out.append(list(dp))
    return np.array(out).T


def format_vcf_snv_block(vcf_record):
    if vcf_record.info[INFO.SNVPOS.id] == (None,):
        return None
    haplotype_snvs = get_haplotype_snvs(vcf_record)
    haplotype_idxs = get_haplotype_snv_indices(haplotype_snvs)
    _, n_pos = haplotype_snvs.shape
    ref_column, alts_column, alts_number = format_snv_alleles(haplotype_snvs)
    pos_column = np.array(vcf_record.info[INFO.SNVPOS.id]) - 1 + vcf_record.pos
    contig_column = np.repeat(vcf_record.contig, n_pos)
    rec_id = vcf_record.id
    if rec_id:
        id_column = [rec_id + '_SNV{}'.format(i + 1) for i in range(n_pos)]
    else:
        id_column = '.'
    block_data = pd.DataFrame()
    block_data[COLUMN.CHROM] = contig_column
    block_data[COLUMN.POS] = pos_column
    block_data[COLUMN.ID] = id_column
    block_data[COLUMN.REF] = ref_column
    block_data[COLUMN.ALT] = np.where(alts_number == 0, '.', alts_column)
    block_data[COLUMN.QUAL] = '.'
    block_data[COLUMN.FILTER] = '.'
    info_snv_count, sample_ploidy, format_GT = get_sample_snv_GT(vcf_record, haplotype_idxs)
    sample_snv_ACP = get_sample_snv_ACP(vcf_record, haplotype_idxs, sample_ploidy=sample_ploidy)
    format_DS = format_allele_floats(sample_snv_ACP[:, :, 1:], alts_number, length='A')
    format_PQ = get_sample_snv_PQ(vcf_record)
    format_GQ = np.full_like(format_PQ, '.')
    sample_depth = get_sample_snv_depth(vcf_record)
    format_DP = sample_depth.astype('U')
    format_DP[format_DP == 'nan'] = '.'
    sample_data = format_GT
    for field in [format_GQ, format_PQ, format_DP, format_DS]:
        sample_data = np.char.add(sample_data, ':')
        sample_data = np.char.add(sample_data, field)
    sample_data = pd.DataFrame(sample_data)
    sample_data.columns = list(vcf_record.samples)
    info_DP = sample_depth.sum(axis=1).astype('U')
    info_DP[info_DP == 'nan'] = '.'
    info_DP = ['{}={}'.format(INFO.DP.id, counts) for counts in info_DP]
    info_AC = format_allele_floats(info_snv_count[:, 1:], alts_number, length='A')
    info_AC = ['{}={}'.format(INFO.AC.id, counts) for counts in info_AC]
    population_snv_ACP = sample_snv_ACP.sum(axis=1)
    info_ACP = format_allele_floats(population_snv_ACP, alts_number, length='R')
    info_ACP = ['{}={}'.format(INFO.ACP.id, counts) for counts in info_ACP]
    info_PS = np.tile('{}={}'.format(INFO.PS.id, vcf_record.pos), n_pos)
    info_column = [';'.join(tup) for tup in zip(info_AC, info_ACP, info_DP, info_PS)]
    block_data[COLUMN.INFO] = info_column
    format_column = np.tile(':'.join([FORMAT.GT.id, FORMAT.GQ.id, FORMAT.PQ.id, FORMAT.DP.id, FORMAT.DS.id]), n_pos)
    block_data[COLUMN.FORMAT] = format_column
    block_data = pd.concat([block_data, sample_data], axis=1)
    return block_data


def atomize_vcf(path, command=None):
    if command is None:
        command = 'atomize {}'.format(path)
    vcf = pysam.VariantFile(path)
    sys.stdout.write(str(HEADER.fileformat('v4.3')) + '\n')
    sys.stdout.write(str(HEADER.filedate()) + '\n')
    sys.stdout.write(str(HEADER.source()) + '\n')
    sys.stdout.write(str(HEADER.commandline(command)) + '\n')
    for contig in vcf.header.contigs.values():
        sys.stdout.write(str(contig.header_record))
    for field in [INFO.AC, INFO.ACP, INFO.DP, INFO.PS]:
        sys.stdout.write(str(field) + '\n')
    for field in [FORMAT.GT, FORMAT.GQ, FORMAT.PQ, FORMAT.DP, FORMAT.DS]:
        sys.stdout.write(str(field) + '\n')
    columns_header = COLUMN.COLUMNS.copy()
    columns_header += list(vcf.header.samples)
    columns_header = '#' + '\t'.join(columns_header)
    sys.stdout.write(columns_header + '\n')
    for record in vcf:
        block = format_vcf_snv_block(record)
        if block is not None:
            block.to_csv(sys.stdout, sep='\t', index=False, header=False)
    vcf.close()


def get_sample_snv_ACP(vcf_record, haplotype_idxs, sample_ploidy):
    _, n_pos = haplotype_idxs.shape
    n_samples = len(vcf_record.samples)
    out = np.zeros((n_pos, n_samples, 4))
    for i, s in enumerate(vcf_record.samples):
        ploidy = sample_ploidy[i]
        counts = vcf_record.samples[s].get(FORMAT.ACP.id)
        if counts is None or None in counts:
            freqs = vcf_record.samples[s].get(FORMAT.AFP.id)
            if freqs is None or None in freqs:
                out[:, i, :] = np.nan
                continue
            else:
                counts = np.array(freqs) * ploidy
        else:
            counts = np.array(counts)
        for h, c in enumerate(counts):
            for p, a in enumerate(haplotype_idxs[h]):
                out[p, i, a] += c
    denom = np.sum(out, axis=-1, keepdims=True)
    denom = np.where(denom == 0.0, np.nan, denom)
    out /= denom
    out *= sample_ploidy[None, :, None]
    return out


def get_sample_snv_PQ(vcf_record):
    n_pos = len(vcf_record.info[INFO.SNVPOS.id])
    pq = np.array([d[FORMAT.SQ.id] for d in vcf_record.samples.values()]).astype('U')
    pq[pq == 'None'] = '.'
    return np.tile(pq, (n_pos, 1))


def main(command):
    warnings.warn('THIS PROGRAM IS EXPERIMENTAL!!!', ExperimentalFeatureWarning)
    parser = argparse.ArgumentParser('Split MCHap haplotype calls into phased blocks of basis SNVs.')
    arguments.Parameter('haplotypes', dict(type=str, nargs=1, default=[None], help='VCF file containing haplotype variants to be atomized. This file must contain INFO/SNVPOS. The INFO/DP and FORMAT/DP fields will be calculated from FORMAT/SNVDP if present in the input  VCF file. The INFO/ACP and FORMAT/DS fields will be calculated from FORMAT/ACP or FORMAT/AFP if either is present in the input VCF file. Note that the FORMAT/ACP or FORMAT/AFP fields from the input VCF file will be normalized in the event that they do not sum to ploidy or one respectively.')).add_to(parser)
    if len(command) < 3:
        parser.print_help()
        sys.exit(1)
    args = parser.parse_args(command[2:])
    path = args.haplotypes[0]
    atomize_vcf(path, command=command)
