"""Reference implementations for mchap.application.baseclass (parsed, never imported); compared with the code by sa/refspec.py."""


class program:
    def cli(cls, command):

        """Program initialization from cli command"""

        raise NotImplementedError()



    def require_AFP(self):

        if {INFO.ACP, INFO.AFP, INFO.AOP, INFO.AOPSUM} & set(self.info_fields):

            return True

        if {FORMAT.ACP, FORMAT.AFP, FORMAT.AOP} & set(self.format_fields):

            return True

        return False



    def loci(self):

        raise NotImplementedError()



    def header_contigs(self):

        with pysam.VariantFile(self.vcf) as f:

            contigs = f.header.contigs.values()

        return [vcf.headermeta.ContigHeader(c.name, c.length) for c in contigs]



    def header(self):

        meta_fields = [vcf.headermeta.fileformat('v4.3'), vcf.headermeta.filedate(), vcf.headermeta.source(), vcf.headermeta.phasing('None'), vcf.headermeta.commandline(self.cli_command), vcf.headermeta.randomseed(self.random_seed)]

        contigs = self.header_contigs()

        filters = [vcf.filters.PASS, vcf.filters.NOA, vcf.filters.AF0]

        columns = [vcf.headermeta.columns(self.samples)]

        header = meta_fields + contigs + filters + self.info_fields + self.format_fields + columns

        return [str(line) for line in header]



    def _locus_data(self, locus, sample_bams):

        """Generate a LocusAssemblyData object for a given locus to be populated with data relating to a single vcf record."""

        return LocusAssemblyData(locus=locus, samples=self.samples, sample_bams=sample_bams, sample_ploidy=self.sample_ploidy, sample_inbreeding=self.sample_inbreeding, read_calls=dict(), read_dists=dict(), read_counts=dict(), infofields=self.info_fields.copy(), formatfields=self.format_fields.copy(), columndata=dict(FILTER=list()), infodata={f: {} for f in INFO.ALL_FIELDS}, sampledata={f: {} for f in FORMAT.ALL_FIELDS}, precision=self.precision)



    def encode_sample_reads(self, data):

        """Extract and encode reads from each sample at a locus."""

        locus = data.locus

        for sample in data.samples:

            try:

                pairs = data.sample_bams[sample]

                read_chars, read_quals = ([], [])

                for name, path in pairs:

                    with pysam.AlignmentFile(path, reference_filename=self.ref) as alignment_file:

                        chars, quals = extract_read_variants(data.locus, alignment_file=alignment_file, samples=name, id=self.read_group_field, min_quality=self.mapping_quality, skip_duplicates=self.skip_duplicates, skip_qcfail=self.skip_qcfail, skip_supplementary=self.skip_supplementary)[name]

                        read_chars.append(chars)

                        read_quals.append(quals)

                if len(pairs) > 0:

                    read_chars = np.concatenate(read_chars)

                    read_quals = np.concatenate(read_quals)

                else:

                    shape = (0, len(locus.variants))

                    read_chars = np.empty(shape, dtype='U1')

                    read_quals = np.empty(shape, dtype=np.int16)

                read_count = read_chars.shape[0]

                data.sampledata[FORMAT.RCOUNT][sample] = read_count

                read_variant_depth = character.depth(read_chars)

                if len(read_variant_depth) == 0:

                    read_variant_depth = np.array(np.nan)

                data.sampledata[FORMAT.DP][sample] = np.round(np.mean(read_variant_depth))

                data.sampledata[FORMAT.SNVDP][sample] = np.round(read_variant_depth)

                read_calls = encode_read_alleles(locus, read_chars)

                data.read_calls[sample] = read_calls

                if self.ignore_base_phred_scores:

                    read_quals = None

                read_dists = encode_read_distributions(locus, read_calls, read_quals, error_rate=self.base_error_rate)

                data.sampledata[FORMAT.RCALLS][sample] = np.sum(read_calls >= 0)

                read_dists_unique, read_dist_counts = mset.unique_counts(read_dists)

                data.read_dists[sample] = read_dists_unique

                data.read_counts[sample] = read_dist_counts

            except Exception as e:

                message = SAMPLE_ASSEMBLY_ERROR.format(sample=sample)

                raise SampleAssemblyError(message) from e

        return data



    def call_sample_genotypes(self, data):

        raise NotImplementedError()






    def call_locus(self, locus, sample_bams):

        """Call samples at a locus and formats resulting data into a VCF record line."""

        data = self._locus_data(locus, sample_bams)

        self.encode_sample_reads(data)

        self.call_sample_genotypes(data)

        self.sumarise_vcf_record(data)

        return data.format_vcf_record()



    def _assemble_loci_wrapped(self, loci):

        for locus in loci:

            try:

                result = self.call_locus(locus, self.sample_bams)

            except Exception as e:

                message = LOCUS_ASSEMBLY_ERROR.format(name=locus.name, contig=locus.contig, start=locus.start, stop=locus.stop)

                raise LocusAssemblyError(message) from e

            yield result



    def _run_stdout_single_core(self):

        header = self.header()

        for line in header:

            sys.stdout.write(line + '\n')

        for line in self._assemble_loci_wrapped(self.loci()):

            sys.stdout.write(line + '\n')



    def _worker(self, loci, queue):

        for line in self._assemble_loci_wrapped(loci):

            queue.put(str(line))



    def _writer(self, queue):

        while True:

            line = queue.get()

            if line == KILL_SIGNAL:

                break

            sys.stdout.write(line + '\n')

            sys.stdout.flush()






    def run_stdout(self):

        if self.n_cores <= 1:

            self._run_stdout_single_core()

        else:

            self._run_stdout_multi_core()


class LocusAssemblyData:
    def _sampledata_as_list(self, field):

        data = self.sampledata[field]

        return [data.get(s) for s in self.samples]



    def format_vcf_record(self):

        kwargs = {f.id: self.infodata[f] for f in self.infofields}

        info_string = vcf.format_info_field(precision=self.precision, **kwargs)

        kwargs = {f.id: self._sampledata_as_list(f) for f in self.formatfields}

        format_string = vcf.format_sample_field(precision=self.precision, **kwargs)

        return vcf.format_record(chrom=self.columndata[COLUMN.CHROM], pos=self.columndata[COLUMN.POS], id=self.columndata[COLUMN.ID], ref=self.columndata[COLUMN.REF], alt=self.columndata[COLUMN.ALT], qual=self.columndata[COLUMN.QUAL], filter=self.columndata[COLUMN.FILTER], info=info_string, format=format_string, precision=self.precision)


class program:
    def sumarise_vcf_record(self, data):

        """Generate VCF record fields."""

        data.columndata[COLUMN.CHROM] = data.locus.contig

        data.columndata[COLUMN.POS] = data.locus.start + 1

        data.columndata[COLUMN.ID] = data.locus.name

        data.columndata[COLUMN.QUAL] = np.nan

        data.infodata[INFO.END] = data.locus.stop

        data.infodata[INFO.NVAR] = len(data.locus.variants)

        data.infodata[INFO.SNVPOS] = np.subtract(data.locus.positions, data.locus.start) + 1

        if len(data.columndata[COLUMN.FILTER]) == 0:

            data.columndata[COLUMN.FILTER] = vcf.filters.PASS.id

        allele_counts = np.zeros(len(data.columndata[COLUMN.ALT]) + 1, int)

        for array in data.sampledata[FORMAT.GT].values():

            for a in array:

                if a >= 0:

                    allele_counts[a] += 1

        data.infodata[INFO.AC] = allele_counts[1:]

        data.infodata[INFO.AN] = np.sum(allele_counts)

        data.infodata[INFO.UAN] = np.sum(allele_counts > 0)

        data.infodata[INFO.NS] = sum((np.any(a >= 0) for a in data.sampledata[FORMAT.GT].values()))

        data.infodata[INFO.MCI] = sum((mci > 0 for mci in data.sampledata[FORMAT.MCI].values()))

        if len(data.locus.variants) == 0:

            data.infodata[INFO.DP] = np.nan

        else:

            data.infodata[INFO.DP] = np.nansum(list(data.sampledata[FORMAT.DP].values()))

        data.infodata[INFO.RCOUNT] = np.nansum(list(data.sampledata[FORMAT.RCOUNT].values()))

        n_allele = len(data.columndata[COLUMN.ALT]) + 1

        null_length_R = np.full(n_allele, np.nan)

        if INFO.ACP in data.infofields:

            _ACP = sum(data.sampledata[FORMAT.ACP].values())

            _ACP = null_length_R if np.isnan(_ACP).all() else _ACP

            data.infodata[INFO.ACP] = _ACP

        if INFO.AFP in data.infofields:

            _AFP = sum(data.sampledata[FORMAT.ACP].values()) / sum((data.sample_ploidy[s] for s in data.samples))

            _AFP = null_length_R if np.isnan(_AFP).all() else _AFP

            data.infodata[INFO.AFP] = _AFP

        if INFO.AOPSUM in data.infofields:

            _AOPSUM = sum(data.sampledata[FORMAT.AOP].values())

            _AOPSUM = null_length_R if np.isnan(_AOPSUM).all() else _AOPSUM

            data.infodata[INFO.AOPSUM] = _AOPSUM

        if INFO.AOP in data.infofields:

            prob_not_occurring = np.ones(len(data.columndata[COLUMN.ALT]) + 1, float)

            for occur in data.sampledata[FORMAT.AOP].values():

                prob_not_occurring = prob_not_occurring * (1 - occur)

            prob_occurring = 1 - prob_not_occurring

            data.infodata[INFO.AOP] = prob_occurring

        if INFO.SNVDP in data.infofields:

            _SNVDP = sum(data.sampledata[FORMAT.SNVDP].values())

            data.infodata[INFO.SNVDP] = _SNVDP

        return data


class program:
    def _run_stdout_multi_core(self):

        header = self.header()

        for line in header:

            sys.stdout.write(line + '\n')

        sys.stdout.flush()

        manager = mp.Manager()

        queue = manager.Queue()

        pool = mp.Pool(self.n_cores + 1)

        writer = pool.apply_async(self._writer, (queue,))

        loci = list(self.loci())

        blocks = np.array_split(loci, self.n_cores)

        jobs = []

        for block in blocks:

            job = pool.apply_async(self._worker, (block, queue))

            jobs.append(job)

        for job in jobs:

            job.get()

        queue.put(KILL_SIGNAL)

        writer.get()

        pool.close()

        pool.join()
