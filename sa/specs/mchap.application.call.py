"""Reference implementations for mchap.application.call (parsed, never imported); compared with the code by sa/refspec.py."""


class program:
    def call_sample_genotypes(self, data):

        """De novo haplotype assembly of each sample."""

        haplotypes = data.locus.encode_haplotypes()

        prior_frequencies = data.locus.frequencies

        mask_reference_allele = data.locus.mask_reference_allele

        mask = np.zeros(len(haplotypes), bool)

        mask[0] = mask_reference_allele

        data.columndata[COLUMN.REF] = data.locus.sequence

        data.columndata[COLUMN.ALT] = data.locus.alts

        data.infodata[INFO.REFMASKED] = mask_reference_allele

        data.infodata[INFO.AFPRIOR] = prior_frequencies

        mask |= prior_frequencies == 0

        if np.any(mask):

            mcmc_haplotypes = haplotypes[~mask]

            mcmc_prior_frequencies = prior_frequencies[~mask]

            mcmc_haplotype_labels = np.where(~mask)[0]

        else:

            mcmc_haplotype_labels = None

            mcmc_prior_frequencies = prior_frequencies

            mcmc_haplotypes = haplotypes

        invalid_scenario = len(mcmc_haplotypes) == 0

        if len(mcmc_haplotypes) == 0:

            invalid_scenario = True

            data.columndata[COLUMN.FILTER].append(vcf.filters.NOA.id)

        elif prior_frequencies is not None and np.any(np.isnan(prior_frequencies)):

            invalid_scenario = True

            data.columndata[COLUMN.FILTER].append(vcf.filters.AF0.id)

        else:

            invalid_scenario = False

        if invalid_scenario:

            for sample in data.samples:

                ploidy = data.sample_ploidy[sample]

                data.sampledata[FORMAT.GT][sample] = np.full(ploidy, -1, int)

                data.sampledata[FORMAT.GQ][sample] = np.nan

                data.sampledata[FORMAT.GPM][sample] = np.nan

                data.sampledata[FORMAT.SPM][sample] = np.nan

                data.sampledata[FORMAT.SQ][sample] = np.nan

                data.sampledata[FORMAT.MCI][sample] = np.nan

                data.sampledata[FORMAT.ACP][sample] = np.array([np.nan])

                data.sampledata[FORMAT.AFP][sample] = np.array([np.nan])

                data.sampledata[FORMAT.AOP][sample] = np.array([np.nan])

                data.sampledata[FORMAT.GP][sample] = np.array([np.nan])

                data.sampledata[FORMAT.GL][sample] = np.array([np.nan])

                data.sampledata[FORMAT.MEC][sample] = np.nan

                data.sampledata[FORMAT.MECP][sample] = np.nan

            return data

        for sample in data.samples:

            try:

                read_calls = data.read_calls[sample]

                read_dists = data.read_dists[sample]

                read_counts = data.read_counts[sample]

                trace = CallingMCMC(ploidy=data.sample_ploidy[sample], haplotypes=mcmc_haplotypes, inbreeding=data.sample_inbreeding[sample], frequencies=mcmc_prior_frequencies, steps=self.mcmc_steps, chains=self.mcmc_chains, random_seed=self.random_seed).fit(reads=read_dists, read_counts=read_counts).burn(self.mcmc_burn)

                if mcmc_haplotype_labels is not None:

                    trace = trace.relabel(mcmc_haplotype_labels, len(haplotypes))

                incongruence = trace.replicate_incongruence(threshold=self.mcmc_incongruence_threshold)

                posterior = trace.posterior()

                alleles, genotype_prob, genotype_support_prob = posterior.mode(genotype_support=True)

                data.sampledata[FORMAT.GT][sample] = alleles

                data.sampledata[FORMAT.GQ][sample] = qual_of_prob(genotype_prob)

                data.sampledata[FORMAT.GPM][sample] = genotype_prob

                data.sampledata[FORMAT.SPM][sample] = genotype_support_prob

                data.sampledata[FORMAT.SQ][sample] = qual_of_prob(genotype_support_prob)

                data.sampledata[FORMAT.MCI][sample] = incongruence

                mec = np.sum(minimum_error_correction(read_calls, haplotypes[alleles]))

                mec_denom = np.sum(read_calls >= 0)

                mecp = mec / mec_denom if mec_denom > 0 else np.nan

                data.sampledata[FORMAT.MEC][sample] = mec

                data.sampledata[FORMAT.MECP][sample] = mecp

                if self.require_AFP():

                    frequencies, counts, occurrence = trace.posterior_frequencies()

                    data.sampledata[FORMAT.ACP][sample] = counts

                    data.sampledata[FORMAT.AFP][sample] = frequencies

                    data.sampledata[FORMAT.AOP][sample] = occurrence

                if FORMAT.GP in data.formatfields:

                    probabilities = posterior.as_array(len(haplotypes))

                    data.sampledata[FORMAT.GP][sample] = probabilities

                if FORMAT.GL in data.formatfields:

                    llks = genotype_likelihoods(reads=read_dists, read_counts=read_counts, ploidy=data.sample_ploidy[sample], haplotypes=haplotypes)

                    data.sampledata[FORMAT.GL][sample] = natural_log_to_log10(llks)

            except Exception as e:

                path = data.sample_bams.get(sample)

                message = SAMPLE_ASSEMBLY_ERROR.format(sample=sample, bam=path)

                raise SampleAssemblyError(message) from e

        return data


class program:
    def cli(cls, command):

        """Program initialization from cli command"""

        parser = argparse.ArgumentParser('MCMC haplotype calling')

        for arg in CALL_MCMC_PARSER_ARGUMENTS:

            arg.add_to(parser)

        if len(command) < 3:

            parser.print_help()

            sys.exit(1)

        args = parser.parse_args(command[2:])

        arguments = collect_call_mcmc_program_arguments(args)

        return cls(cli_command=command, **arguments)
