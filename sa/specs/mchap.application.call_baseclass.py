"""Reference implementations for mchap.application.call_baseclass (parsed, never imported); compared with the code by sa/refspec.py."""


class program:
    def loci(self):

        with pysam.VariantFile(self.vcf) as f:

            for record in f.fetch():

                locus = LocusPrior.from_variant_record(record, frequency_tag=self.prior_frequencies_tag, allele_filter=self.filter_input_haplotypes)

                yield locus
