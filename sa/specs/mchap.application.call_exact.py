"""Reference implementations for mchap.application.call_exact (parsed, never imported); compared with the code by sa/refspec.py."""


class program:
    def call_sample_genotypes(self, data):

        """De novo haplotype assembly of each sample."""

        haplotypes = data.locus.encode_haplotypes()

        mask_reference_allele = data.locus.mask_reference_allele

        prior_frequencies = data.locus.frequencies

        data.columndata[COLUMN.REF] = data.locus.sequence

        data.columndata[COLUMN.ALT] = data.locus.alts

        data.infodata[INFO.REFMASKED] = mask_reference_allele

        data.infodata[INFO.AFPRIOR] = prior_frequencies

        if mask_reference_allele:

            assert prior_frequencies[0] == 0 or np.isnan(prior_frequencies[0])

        if mask_reference_allele and len(haplotypes) == 1:

            invalid_scenario = True

            data.columndata[COLUMN.FILTER].append(vcf.filters.NOA.id)

        elif np.any(np.isnan(prior_frequencies)):

            invalid_scenario = True

            data.columndata[COLUMN.FILTER].append(vcf.filters.AF0.id)

        else:

            invalid_scenario = False

        if invalid_scenario:

            for sample in data.samples:

                ploidy = data.sample_ploidy[sample]

                data.sampledata[FORMAT.GT][sample] = np.full(ploidy, -1, int)

                data.sampledata[FORMAT.GQ][sample] = np.nan

                data.sampledata[FORMAT.GPM][sample] = np.nan

                data.sampledata[FORMAT.SPM][sample] = np.nan

                data.sampledata[FORMAT.SQ][sample] = np.nan

                data.sampledata[FORMAT.MCI][sample] = np.nan

                data.sampledata[FORMAT.ACP][sample] = np.array([np.nan])

                data.sampledata[FORMAT.AFP][sample] = np.array([np.nan])

                data.sampledata[FORMAT.AOP][sample] = np.array([np.nan])

                data.sampledata[FORMAT.GP][sample] = np.array([np.nan])

                data.sampledata[FORMAT.GL][sample] = np.array([np.nan])

                data.sampledata[FORMAT.MEC][sample] = np.nan

                data.sampledata[FORMAT.MECP][sample] = np.nan

            return data

        for sample in data.samples:

            try:

                ploidy = data.sample_ploidy[sample]

                inbreeding = data.sample_inbreeding[sample]

                read_calls = data.read_calls[sample]

                read_dists = data.read_dists[sample]

                read_counts = data.read_counts[sample]

                if FORMAT.GL in data.formatfields or FORMAT.GP in data.formatfields:

                    llks = genotype_likelihoods(reads=read_dists, read_counts=read_counts, haplotypes=haplotypes, ploidy=ploidy)

                    probabilities = genotype_posteriors(log_likelihoods=llks, ploidy=ploidy, n_alleles=len(haplotypes), inbreeding=inbreeding, frequencies=prior_frequencies)

                    idx = np.argmax(probabilities)

                    alleles = index_as_genotype_alleles(idx, ploidy)

                    genotype_prob = probabilities[idx]

                    _, genotype_support_probs = alternate_dosage_posteriors(alleles, probabilities)

                    genotype_support_prob = genotype_support_probs.sum()

                    if self.require_AFP():

                        freqs, counts, occur = posterior_allele_frequencies(probabilities, ploidy, len(haplotypes))

                        data.sampledata[FORMAT.ACP][sample] = counts

                        data.sampledata[FORMAT.AFP][sample] = freqs

                        data.sampledata[FORMAT.AOP][sample] = occur

                    if FORMAT.GL in data.formatfields:

                        data.sampledata[FORMAT.GL][sample] = natural_log_to_log10(llks)

                    if FORMAT.GP in data.formatfields:

                        data.sampledata[FORMAT.GP][sample] = probabilities

                else:

                    mode_results = posterior_mode(reads=read_dists, read_counts=read_counts, haplotypes=haplotypes, ploidy=ploidy, inbreeding=inbreeding, frequencies=prior_frequencies, return_support_prob=True, return_posterior_frequencies=True, return_posterior_occurrence=True)

                    alleles, _, genotype_prob, genotype_support_prob = mode_results[0:4]

                    freqs = mode_results[-2]

                    occur = mode_results[-1]

                    data.sampledata[FORMAT.ACP][sample] = freqs * ploidy

                    data.sampledata[FORMAT.AFP][sample] = freqs

                    data.sampledata[FORMAT.AOP][sample] = occur

                data.sampledata[FORMAT.GT][sample] = alleles

                data.sampledata[FORMAT.GQ][sample] = qual_of_prob(genotype_prob)

                data.sampledata[FORMAT.GPM][sample] = genotype_prob

                data.sampledata[FORMAT.SPM][sample] = genotype_support_prob

                data.sampledata[FORMAT.SQ][sample] = qual_of_prob(genotype_support_prob)

                data.sampledata[FORMAT.MCI][sample] = np.nan

                mec = np.sum(minimum_error_correction(read_calls, haplotypes[alleles]))

                mec_denom = np.sum(read_calls >= 0)

                mecp = mec / mec_denom if mec_denom > 0 else np.nan

                data.sampledata[FORMAT.MEC][sample] = mec

                data.sampledata[FORMAT.MECP][sample] = mecp

            except Exception as e:

                path = data.sample_bams.get(sample)

                message = SAMPLE_ASSEMBLY_ERROR.format(sample=sample, bam=path)

                raise SampleAssemblyError(message) from e

        return data


class program:
    def cli(cls, command):

        """Program initialization from cli command"""

        parser = argparse.ArgumentParser('Exact haplotype calling')

        for arg in CALL_EXACT_PARSER_ARGUMENTS:

            arg.add_to(parser)

        if len(command) < 3:

            parser.print_help()

            sys.exit(1)

        args = parser.parse_args(command[2:])

        arguments = collect_call_exact_program_arguments(args)

        return cls(cli_command=command, **arguments)
