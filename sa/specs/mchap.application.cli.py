"""Reference implementations for mchap.application.cli (parsed, never imported); compared with the code by sa/refspec.py."""


def main():
    parser = argparse.ArgumentParser('Bayesian assembly of micro-haplotypes in polyploids')
    parser.add_argument('-v', '--version', action='version', version=f'mchap {__version__}')
    subprograms = ['assemble', 'call', 'call-exact', 'call-pedigree', 'find-snvs', 'atomize']
    parser.add_argument('program', nargs=1, choices=subprograms, help='Specify sub-program')
    if len(sys.argv) < 2:
        parser.print_help()
    else:
        args = parser.parse_args(sys.argv[1:2])
        prog = args.program[0]
        if prog == 'assemble':
            prog = assemble.program
            prog.cli(sys.argv).run_stdout()
        elif prog == 'call':
            prog = call.program
            prog.cli(sys.argv).run_stdout()
        elif prog == 'call-exact':
            prog = call_exact.program
            prog.cli(sys.argv).run_stdout()
        elif prog == 'find-snvs':
            find_snvs.main(sys.argv)
        elif prog == 'call-pedigree':
            prog = call_pedigree.program
            prog.cli(sys.argv).run_stdout()
        elif prog == 'atomize':
            atomize.main(sys.argv)
        else:
            assert False
