"""Reference implementations for mchap.application.find_snvs (parsed, never imported); compared with the code by sa/refspec.py."""


def _ord_to_index(a):
    if a == 65 or a == 97:
        i = 0
    elif a == 67 or a == 99:
        i = 1
    elif a == 71 or a == 103:
        i = 2
    elif a == 84 or a == 116:
        i = 3
    else:
        i = -1
    return i


def bases_to_indices(alleles):
    alleles = np.asarray(alleles, dtype='|S1')
    alleles.dtype = np.int8
    return _ord_to_index(alleles)


def _count_alleles(zeros, alleles):
    n = len(alleles)
    for i in range(n):
        a = alleles[i]
        if a >= 0:
            zeros[a] += 1
    return


def bam_samples(bam_paths, reference_path, tag='SM'):
    out = [None] * len(bam_paths)
    for i, path in enumerate(bam_paths):
        with pysam.AlignmentFile(path, reference_filename=reference_path) as bam:
            read_groups = bam.header['RG']
            sample_id = read_groups[0][tag]
            if len(read_groups) > 1:
                for rg in read_groups:
                    if rg[tag] != sample_id:
                        raise ValueError('Expected one sample per bam but found {} and {} in {}'.format(sample_id, rg[tag], bam.filename.decode()))
            out[i] = sample_id
    return np.array(out)


def bam_region_depths(bam_paths, reference_path, contig, start, stop, dtype=np.int64, min_quality=0, skip_duplicates=True, skip_qcfail=True, skip_supplementary=False):
    flag_filter = pysam.FUNMAP | pysam.FSECONDARY
    if skip_duplicates:
        flag_filter |= pysam.FDUP
    if skip_qcfail:
        flag_filter |= pysam.FQCFAIL
    if skip_supplementary:
        flag_filter |= pysam.FSUPPLEMENTARY
    n_samples = len(bam_paths)
    n_pos = stop - start
    shape = (n_pos, n_samples, 4)
    depths = np.zeros(shape, dtype=dtype)
    for j, path in enumerate(bam_paths):
        with pysam.AlignmentFile(path, reference_filename=reference_path) as bam:
            for column in bam.pileup(contig=contig, start=start, stop=stop, truncate=True, multiple_iterators=False, min_mapping_quality=min_quality, flag_filter=flag_filter):
                i = column.pos - start
                alleles = column.get_query_sequences()
                if isinstance(alleles, list):
                    alleles = bases_to_indices(alleles)
                    _count_alleles(depths[i, j], alleles)
    return depths


def _order_by(values, order, out):
    out[:] = values[order]


def _vcf_sort_alleles(frequencies, reference_index):
    n_variants, n_alleles = frequencies.shape
    order = np.argsort(frequencies, axis=-1, kind='stable')[:, ::-1].astype(int)
    reference_index = reference_index[:, None]
    not_ref = order != reference_index
    alt_order = order.ravel()[not_ref.ravel()].reshape(n_variants, n_alleles - 1)
    order = np.hstack([reference_index, alt_order])
    return order


def _order_as_vcf_alleles(order, keep):
    chars = np.array(['A', 'C', 'G', 'T'], dtype='|S1')
    chars = chars[order]
    chars = np.where(keep, chars, b'')
    ref = chars[:, 0].astype('U')
    alts = chars[:, 1:]
    n = alts.shape[-1]
    alts.dtype = np.dtype(f'|S{n}')
    alts = np.char.join(',', alts.ravel().astype('U'))
    return (ref, alts)


def format_allele_counts(counts, keep, sep=','):
    n_variant, n_sample, n_allele = counts.shape
    if keep.ndim == 2:
        keep = keep[:, None, :]
    keep = np.broadcast_to(keep, (n_variant, n_sample, n_allele))
    chars = counts.astype('U')
    chars = np.where(keep, chars, '')
    out = chars[:, :, 0]
    seps = np.where(keep, sep, '')
    for i in range(1, n_allele):
        out = np.char.add(out, seps[:, :, i])
        out = np.char.add(out, chars[:, :, i])
    return out


def format_genotype_calls(calls, sep='/'):
    _, _, max_ploidy = calls.shape
    chars = calls.astype('U')
    unknown = calls == -1
    chars = np.where(unknown, '.', chars)
    pad = calls <= -2
    chars = np.where(pad, '', chars)
    out = chars[:, :, 0]
    seps = np.where(pad, '', sep)
    for i in range(1, max_ploidy):
        out = np.char.add(out, seps[:, :, i])
        out = np.char.add(out, chars[:, :, i])
    return out


def format_floats(floats, precision=3):
    string = floats.round(precision).astype('U')
    string = np.char.rstrip(string, '0')
    string = np.char.rstrip(string, '.')
    string[np.isnan(floats)] = '.'
    return string


def format_samples_columns(genotype_calls=None, genotype_probs=None, allele_depths=None, allele_keep=None):
    fields = 'GT'
    if genotype_calls is None:
        strings = np.array(['.'])
    else:
        strings = format_genotype_calls(genotype_calls)
    if genotype_probs is not None:
        fields += ':GPM'
        strings = np.char.add(strings, ':')
        strings = np.char.add(strings, format_floats(genotype_probs))
    if allele_depths is not None:
        fields += ':AD'
        assert allele_keep is not None
        strings = np.char.add(strings, ':')
        strings = np.char.add(strings, format_allele_counts(allele_depths, allele_keep))
    cols = pd.DataFrame(strings)
    fields = pd.DataFrame(np.full(len(strings), fields))
    return pd.concat([fields, cols], axis=1)


def write_vcf_block(contig, start, stop, reference_path, bam_paths, maf, mad, ind_maf, ind_mad, min_ind, mapping_quality, skip_duplicates, skip_qcfail, skip_supplementary):
    assert start < stop
    variant_position = np.arange(start, stop)
    variant_contig = np.full(len(variant_position), contig)
    with pysam.FastaFile(reference_path) as reference:
        variant_reference = np.array(list(reference.fetch(contig, start, stop).upper()))
    variant_reference_index = bases_to_indices(variant_reference)
    allele_depth = bam_region_depths(bam_paths, reference_path, contig, start, stop, dtype=np.int64, min_quality=mapping_quality, skip_duplicates=skip_duplicates, skip_qcfail=skip_qcfail, skip_supplementary=skip_supplementary)
    idx = variant_reference_index >= 0
    if np.any(~idx):
        variant_position = variant_position[idx]
        variant_contig = variant_contig[idx]
        variant_reference = variant_reference[idx]
        variant_reference_index = variant_reference_index[idx]
        allele_depth = allele_depth[idx]
    if len(variant_position) < 1:
        return
    with np.errstate(divide='ignore', invalid='ignore'):
        allele_freq = allele_depth / allele_depth.sum(axis=-1, keepdims=True)
    keep = ((allele_freq >= ind_maf) & (allele_depth >= ind_mad)).sum(axis=1) >= min_ind
    if maf > 0.0:
        with warnings.catch_warnings():
            warnings.simplefilter('ignore', category=RuntimeWarning)
            keep &= np.nanmean(allele_freq, axis=1) >= maf
    if mad > 0:
        keep &= np.sum(allele_depth, axis=1) >= mad
    idx = keep.sum(axis=-1) > 1
    if idx.sum() == 0:
        return
    variant_contig = variant_contig[idx]
    variant_position = variant_position[idx]
    variant_reference = variant_reference[idx]
    variant_reference_index = variant_reference_index[idx]
    allele_depth = allele_depth[idx]
    allele_freq = allele_freq[idx]
    keep = keep[idx]
    allele_freq = np.where(keep[:, None, :], allele_freq, 0.0)
    depth_mean_freq = np.nanmean(allele_freq, axis=1)
    order = _vcf_sort_alleles(depth_mean_freq, variant_reference_index)
    allele_depth = _order_by(allele_depth, order[:, None, :])
    allele_freq = _order_by(allele_freq, order[:, None, :])
    depth_mean_freq = _order_by(depth_mean_freq, order)
    keep = _order_by(keep, order)
    reference_masked = ~keep[:, 0]
    keep[:, 0] = True
    reference_allele, alternate_alleles = _order_as_vcf_alleles(order, keep)
    assert np.all(reference_allele == variant_reference)
    n = len(variant_contig)
    null = np.full(n, '.')
    pop_depth = allele_depth.sum(axis=1)
    info = ['AD=' + vcfstr(d[k]) + ';ADMF=' + vcfstr(f[k]) for d, f, k in zip(pop_depth, depth_mean_freq.round(3), keep)]
    for i, b in enumerate(reference_masked):
        if b:
            info[i] = 'REFMASKED;' + info[i]
    table = pd.DataFrame({'CHROM': variant_contig, 'POS': variant_position + 1, 'ID': null, 'REF': reference_allele, 'ALT': alternate_alleles, 'QUAL': null, 'FILTER': null, 'INFO': info})
    sample_cols = format_samples_columns(genotype_calls=None, genotype_probs=None, allele_depths=allele_depth, allele_keep=keep)
    table = pd.concat([table, sample_cols], axis=1)
    table.to_csv(sys.stdout, sep='\t', index=False, header=False)


def write_vcf_header(command, reference_path, info_fields=None, format_fields=None, samples=None):
    vcfversion_header = str(headermeta.fileformat('v4.3'))
    date_header = str(headermeta.filedate())
    source_header = str(headermeta.source())
    command_header = str(headermeta.commandline(command))
    with pysam.FastaFile(reference_path) as reference:
        reference_header = str(headermeta.reference(reference.filename.decode()))
        contig_header = '\n'.join((str(headermeta.ContigHeader(s, i)) for s, i in zip(reference.references, reference.lengths)))
    components = [vcfversion_header, date_header, source_header, command_header, reference_header, contig_header]
    if info_fields is not None:
        info_header = '\n'.join([str(f) for f in info_fields])
        components += [info_header]
    if format_fields is not None:
        format_header = '\n'.join([str(f) for f in format_fields])
        components += [format_header]
    columns_header = ['CHROM', 'POS', 'ID', 'REF', 'ALT', 'QUAL', 'FILTER', 'INFO']
    if samples is not None:
        columns_header += ['FORMAT'] + list(samples)
    columns_header = '#' + '\t'.join(columns_header)
    components += [columns_header]
    string = '\n'.join(components) + '\n'
    sys.stdout.write(string)


def main(command):
    parser = argparse.ArgumentParser('WARNING this tool is experimental')
    args = [arguments.basis_targets, arguments.reference, arguments.bam, arguments.find_snvs_maf, arguments.find_snvs_mad, arguments.find_snvs_ind_maf, arguments.find_snvs_ind_mad, arguments.find_snvs_min_ind, arguments.read_group_field, arguments.mapping_quality, arguments.skip_duplicates, arguments.skip_qcfail, arguments.skip_supplementary]
    for arg in args:
        arg.add_to(parser)
    if len(command) < 3:
        parser.print_help()
        sys.exit(1)
    args = parser.parse_args(command[2:])
    bed_path = args.targets[0]
    bed = pd.read_table(bed_path, header=None)[[0, 1, 2]]
    bed.columns = ['contig', 'start', 'stop']
    reference_path = args.reference[0]
    samples, sample_bams = arguments.parse_sample_bam_paths(args.bam, None, args.read_group_field[0], reference_path=reference_path)
    samples = np.array(samples)
    bam_paths = np.array([sample_bams[s][0][1] for s in samples])
    samples_found = bam_samples(bam_paths, reference_path, tag=args.read_group_field[0]).astype('U')
    mismatch = samples_found != samples
    if np.any(mismatch):
        raise IOError('Samples ({}) did not match bam files ({})'.format(samples[mismatch], bam_paths[mismatch]))
    info_fields = [infofields.REFMASKED, infofields.AD, infofields.ADMF]
    format_fields = [formatfields.GT, formatfields.AD]
    write_vcf_header(command, reference_path, samples=samples, info_fields=info_fields, format_fields=format_fields)
    for _, interval in bed.iterrows():
        write_vcf_block(interval.contig, interval.start, interval.stop, reference_path, bam_paths, maf=args.maf[0], mad=args.mad[0], ind_maf=args.ind_maf[0], ind_mad=args.ind_mad[0], min_ind=args.min_ind[0], mapping_quality=args.mapping_quality[0], skip_duplicates=args.skip_duplicates, skip_qcfail=args.skip_qcfail, skip_supplementary=args.skip_supplementary)
