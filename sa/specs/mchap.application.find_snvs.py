"""Reference implementations for mchap.application.find_snvs (parsed, never imported); compared with the code by sa/refspec.py."""


def _ord_to_index(a):
    if a == 65 or a == 97:
        i = 0
    elif a == 67 or a == 99:
        i = 1
    elif a == 71 or a == 103:
        i = 2
    elif a == 84 or a == 116:
        i = 3
    else:
        i = -1
    return i


def bases_to_indices(alleles):
    alleles = np.asarray(alleles, dtype='|S1')
    alleles.dtype = np.int8
    return _ord_to_index(alleles)


def _count_alleles(zeros, alleles):
    n = len(alleles)
    for i in range(n):
        a = alleles[i]
        if a >= 0:
            zeros[a] += 1
    return


def bam_samples(bam_paths, reference_path, tag='SM'):
    out = [None] * len(bam_paths)
    for i, path in enumerate(bam_paths):
        with pysam.AlignmentFile(path, reference_filename=reference_path) as bam:
            read_groups = bam.header['RG']
            sample_id = read_groups[0][tag]
            if len(read_groups) > 1:
                for rg in read_groups:
                    if rg[tag] != sample_id:
                        raise ValueError('Expected one sample per bam but found {} and {} in {}'.format(sample_id, rg[tag], bam.filename.decode()))
            out[i] = sample_id
    return np.array(out)


def bam_region_depths(bam_paths, reference_path, contig, start, stop, dtype=np.int64, min_quality=0, skip_duplicates=True, skip_qcfail=True, skip_supplementary=False):
    flag_filter = pysam.FUNMAP | pysam.FSECONDARY
    if skip_duplicates:
        flag_filter |= pysam.FDUP
    if skip_qcfail:
        flag_filter |= pysam.FQCFAIL
    if skip_supplementary:
        flag_filter |= pysam.FSUPPLEMENTARY
    n_samples = len(bam_paths)
    n_pos = stop - start
    shape = (n_pos, n_samples, 4)
    depths = np.zeros(shape, dtype=dtype)
    for j, path in enumerate(bam_paths):
        with pysam.AlignmentFile(path, reference_filename=reference_path) as bam:
            for column in bam.pileup(contig=contig, start=start, stop=stop, truncate=True, multiple_iterators=False, min_mapping_quality=min_quality, flag_filter=flag_filter):
                i = column.pos - start
                alleles = column.get_query_sequences()
                if isinstance(alleles, list):
                    alleles = bases_to_indices(alleles)
                    _count_alleles(depths[i, j], alleles)
    return depths


def _order_by(values, order, out):
    out[:] = values[order]


def _vcf_sort_alleles(frequencies, reference_index):
    n_variants, n_alleles = frequencies.shape
    order = np.argsort(frequencies, axis=-1, kind='stable')[:, ::-1].astype(int)
    reference_index = reference_index[:, None]
    not_ref = order != reference_index
    alt_order = order.ravel()[not_ref.ravel()].reshape(n_variants, n_alleles - 1)
    order = np.hstack([reference_index, alt_order])
    return order


def _order_as_vcf_alleles(order, keep):
    chars = np.array(['A', 'C', 'G', 'T'], dtype='|S1')
    chars = chars[order]
    chars = np.where(keep, chars, b'')
    ref = chars[:, 0].astype('U')
    alts = chars[:, 1:]
    n = alts.shape[-1]
    alts.dtype = np.dtype(f'|S{n}')
    alts = np.char.join(',', alts.ravel().astype('U'))
    return (ref, alts)


def format_allele_counts(counts, keep, sep=','):
    n_variant, n_sample, n_allele = counts.shape
    if keep.ndim == 2:
        keep = keep[:, None, :]
    keep = np.broadcast_to(keep, (n_variant, n_sample, n_allele))
    chars = counts.astype('U')
    chars = np.where(keep, chars, '')
    out = chars[:, :, 0]
    seps = np.where(keep, sep, '')
    for i in range(1, n_allele):
        out = np.char.add(out, seps[:, :, i])
        out = np.char.add(out, chars[:, :, i])
    return out


def format_genotype_calls(calls, sep='/'):
    _, _, max_ploidy = calls.shape
    chars = calls.astype('U')
    unknown = calls == -1
    chars = np.where(unknown, '.', chars)
    pad = calls <= -2
    chars = np.where(pad, '', chars)
    out = chars[:, :, 0]
    seps = np.where(pad, '', sep)
    for i in range(1, max_ploidy):
        out = np.char.add(out, seps[:, :, i])
        out = np.char.add(out, chars[:, :, i])
    return out


def format_floats(floats, precision=3):
    string = floats.round(precision).astype('U')
    string = np.char.rstrip(string, '0')
    string = np.char.rstrip(string, '.')
    string[np.isnan(floats)] = '.'
    return string


def format_samples_columns(genotype_calls=None, genotype_probs=None, allele_depths=None, allele_keep=None):
    fields = 'GT'
    if genotype_calls is None:
        strings = np.array(['.'])
    else:
        strings = format_genotype_calls(genotype_calls)
    if genotype_probs is not None:
        fields += ':GPM'
        strings = np.char.add(strings, ':')
        strings = np.char.add(strings, format_floats(genotype_probs))
    if allele_depths is not None:
        fields += ':AD'
        assert allele_keep is not None
        strings = np.char.add(strings, ':')
        strings = np.char.add(strings, format_allele_counts(allele_depths, allele_keep))
    cols = pd.DataFrame(strings)
    fields = pd.DataFrame(np.full(len(strings), fields))
    return pd.concat([fields, cols], axis=1)


def write_vcf_block(contig, start, stop, reference_path, bam_paths, maf, mad, ind_maf, ind_mad, min_ind, mapping_quality, skip_duplicates, skip_qcfail, skip_supplementary):
    assert start < stop
    variant_position = np.arange(start, stop)
    variant_contig = np.full(len(variant_position), contig)
    with pysam.FastaFile(reference_path) as reference:
        variant_reference = np.array(list(reference.fetch(contig, start, stop).upper()))
    variant_reference_index = bases_to_indices(variant_reference)
    allele_depth = bam_region_depths(bam_paths, reference_path, contig, start, stop, dtype=np.int64, min_quality=mapping_quality, skip_duplicates=skip_duplicates, skip_qcfail=skip_qcfail, skip_supplementary=skip_supplementary)
    idx = variant_reference_index >= 0
    if np.any(~idx):
        variant_position = variant_position[idx]
        variant_contig = variant_contig[idx]
        variant_reference = variant_reference[idx]
        variant_reference_index = variant_reference_index[idx]
        allele_depth = allele_depth[idx]
    if len(variant_position) < 1:
        return
    with np.errstate(divide='ignore', invalid='ignore'):
        allele_freq = allele_depth / allele_depth.sum(axis=-1, keepdims=True)
    keep = ((allele_freq >= ind_maf) & (allele_depth >= ind_mad)).sum(axis=1) >= min_ind
    if maf > 0.0:
        with warnings.catch_warnings():
            warnings.simplefilter('ignore', category=RuntimeWarning)
            keep &= np.nanmean(allele_freq, axis=1) >= maf
    if mad > 0:
        keep &= np.sum(allele_depth, axis=1) >= mad
    idx = keep.sum(axis=-1) > 1
    if idx.sum() == 0:
        return
    variant_contig = variant_contig[idx]
    variant_position = variant_position[idx]
    variant_reference = variant_reference[idx]
    variant_reference_index = variant_reference_index[idx]
    allele_depth = allele_depth[idx]
    allele_freq = allele_freq[idx]
    keep = keep[idx]
    allele_freq = np.where(keep[:, None, :], allele_freq, 0.0)
    depth_mean_freq = np.nanmean(allele_freq, axis=1)
    order = _vcf_sort_alleles(depth_mean_freq, variant_reference_index)
    allele_depth = _order_by(allele_depth, order[:, None, :])
    allele_freq = _order_by(allele_freq, order[:, None, :])
    depth_mean_freq = _order_by(depth_mean_freq, order)
    keep = _order_by(keep, order)
    reference_masked = ~keep[:, 0]
    keep[:, 0] = True
    reference_allele, alternate_alleles = _order_as_vcf_alleles(order, keep)
    assert np.all(reference_allele == variant_reference)
    n = len(variant_contig)
    null = np.full(n, '.')
    pop_depth = allele_depth.sum(axis=1)
    info = ['AD=' + vcfstr(d[k]) + ';ADMF=' + vcfstr(f[k]) for d, f, k in zip(pop_depth, depth_mean_freq.round(3), keep)]
    for i, b in enumerate(reference_masked):
        if b:
            info[i] = 'REFMASKED;' + info[i]
    table = pd.DataFrame({'CHROM': variant_contig, 'POS': variant_position + 1, 'ID': null, 'REF': reference_allele, 'ALT': alternate_alleles, 'QUAL': null, 'FILTER': null, 'INFO': info})
    sample_cols = format_samples_columns(genotype_calls=None, genotype_probs=None, allele_depths=allele_depth, allele_keep=keep)
    table = pd.concat([table, sample_cols], axis=1)
    table.to_csv(sys.stdout, sep='\t', index=False, header=False)
