"""Reference implementations for mchap.assemble.arraymap (parsed, never imported); compared with the code by sa/refspec.py."""


def new(array_length, node_branches, initial_size=32, max_size=2 ** 16):
    """Initialise a new array map for 1-dimensional integer arrays of fixed length."""
    assert initial_size >= 2
    tree = np.full((initial_size, node_branches), -1, np.int64)
    values = np.full(initial_size, np.nan, np.float64)
    return (tree, values, array_length, 1, 0, max_size)


def set(array_map, array, value, empty_if_full=False):
    """Set the value stored for a given array in an array_map."""
    if array_map is None:
        return array_map
    tree, values, array_length, empty_node, empty_values, max_size = array_map
    _, n_branches = tree.shape
    assert len(array) == array_length
    node = 0
    for i in range(len(array)):
        j = array[i]
        assert j < n_branches
        next_node = tree[node, j]
        if next_node < 0:
            next_node = empty_node
            tree[node, j] = next_node
            empty_node += 1
            if empty_node + 1 >= len(tree):
                n_nodes, n_node_options = tree.shape
                if n_nodes * 2 > max_size:
                    if empty_if_full:
                        tree[:] = -1
                        values[:] = np.nan
                        return (tree, values, array_length, 1, 0, max_size)
                    else:
                        raise ValueError('cannot expand array_map beyond its maximum size.')
                new_tree = np.full((n_nodes * 2, n_node_options), -1, tree.dtype)
                new_tree[0:n_nodes] = tree
                tree = new_tree
        assert node < next_node < empty_node < len(tree)
        node = next_node
    value_idx = tree[node, 0]
    if value_idx < 0:
        value_idx = empty_values
        tree[node, 0] = value_idx
        empty_values += 1
        if empty_values + 1 >= len(values):
            n_values = len(values)
            if n_values * 2 > max_size:
                if empty_if_full:
                    tree[:] = -1
                    values[:] = np.nan
                    return (tree, values, array_length, 1, 0, max_size)
                else:
                    raise ValueError('cannot expand array_map beyond its maximum size.')
            new_values = np.full(n_values * 2, np.nan, values.dtype)
            new_values[0:n_values] = values
            values = new_values
    values[value_idx] = value
    return (tree, values, array_length, empty_node, empty_values, max_size)


def get(array_map, array):
    """Retrive the value stored for a given array in an array_map."""
    if array_map is None:
        return np.nan
    tree, values, array_length, _, empty_values, _ = array_map
    assert len(array) == array_length
    node = 0
    for i in range(len(array)):
        j = array[i]
        next_node = tree[node, j]
        if next_node < 0:
            return values[empty_values]
        node = next_node
    value_idx = tree[node, 0]
    if value_idx < 0:
        return values[empty_values]
    return values[value_idx]
