"""Reference implementations for mchap.assemble.classes (parsed, never imported); compared with the code by sa/refspec.py."""


class PosteriorGenotypeDistribution:
    def mode(self):

        """Return the posterior mode genotype."""

        idx = np.argmax(self.probabilities)

        return (self.genotypes[idx], self.probabilities[idx])



    def mode_genotype_support(self):

        """Return genotypes congruent with the posterior mode support."""

        labels = np.zeros(len(self.genotypes), dtype=int)

        support_labels = {}

        probs = {}

        for i, gen in enumerate(self.genotypes):

            support = mset.unique(gen)

            string = support.tobytes()

            if string not in support_labels:

                label = i

                support_labels[string] = label

                probs[label] = self.probabilities[i]

            else:

                label = support_labels[string]

                probs[label] += self.probabilities[i]

            labels[i] = label

        support_labels, probs = zip(*probs.items())

        mode = support_labels[np.argmax(probs)]

        idx = labels == mode

        return GenotypeSupportDistribution(self.genotypes[idx], self.probabilities[idx])



    def allele_frequencies(self, dosage=False):

        """Calculate posterior frequency of haplotype alleles."""

        n_gen, ploidy, n_base = self.genotypes.shape

        haps = self.genotypes.reshape(n_gen * ploidy, n_base)

        uhaps = mset.unique(haps)

        ufreqs = np.zeros(len(uhaps), float)

        uoccur = np.zeros(len(uhaps), float)

        freqs = {h.tobytes(): 0.0 for h in uhaps}

        occur = {h.tobytes(): 0.0 for h in uhaps}

        for gen, prob in zip(self.genotypes, self.probabilities):

            counts = Counter((hap.tobytes() for hap in gen))

            for key, dose in counts.items():

                freqs[key] += prob * dose

                occur[key] += prob

        for i, hap in enumerate(uhaps):

            key = hap.tobytes()

            ufreqs[i] = freqs[key]

            uoccur[i] = occur[key]

        if dosage is False:

            ufreqs /= ploidy

        return (uhaps, ufreqs, uoccur)


class GenotypeSupportDistribution:
    def alleles(self):

        """Returns the unique alleles of the genotype."""

        return mset.unique(self.genotypes[0])



    def mode_genotype(self):

        """Returns the genotype with highest probability."""

        idx = np.argmax(self.probabilities)

        return (self.genotypes[idx], self.probabilities[idx])



    def call_genotype_support(self, threshold=0.95):

        """Identifies the most complete set of alleles that exceeds a probability threshold. If the probability threshold cannot be exceeded the genotype support will be returned with a probability of None"""

        if np.max(self.probabilities) >= threshold:

            idx = np.argmax(self.probabilities)

            return (self.genotypes[idx], self.probabilities[idx])

        _, ploidy, n_pos = self.genotypes.shape

        result = np.zeros((ploidy, n_pos), dtype=self.genotypes.dtype) - 1

        selected = list()

        p = 0.0

        genotypes = list(self.genotypes)

        probabilities = list(self.probabilities)

        while p < threshold:

            if len(probabilities) == 0:

                break

            idx = np.argmax(probabilities)

            p += probabilities.pop(idx)

            selected.append(genotypes.pop(idx))

        alleles = reduce(mset.intercept, selected)

        for i, hap in enumerate(alleles):

            result[i] = hap

        return (result, p)


class GenotypeMultiTrace:
    def __post_init__(self):

        if self.genotypes is not None and self.genotypes.shape[-1] != 0:

            self.genotypes = self.genotypes.copy()

            self.llks = self.llks.copy()

            assert np.ndim(self.genotypes) == 4

            assert np.ndim(self.llks) == 2

            assert self.genotypes.shape[0:2] == self.llks.shape

            n_chains, n_steps = self.genotypes.shape[0:2]

            for c in range(n_chains):

                for i in range(n_steps):

                    self.genotypes[c, i] = integer.sort(self.genotypes[c, i])



    def burn(self, n):

        """Returns a new GenotypeTrace object without the first `n` observations of each chain."""

        new = type(self)(None, None)

        new.genotypes = self.genotypes[:, n:]

        new.llks = self.llks[:, n:]

        return new



    def posterior(self):

        """Returns a posterior distribution over (phased) genotypes."""

        n_chain, n_step, ploidy, n_base = self.genotypes.shape

        genotypes = self.genotypes.reshape(n_chain * n_step, ploidy, n_base)

        states, counts = mset.unique_counts(genotypes)

        probs = counts / np.sum(counts)

        idx = np.flip(np.argsort(probs))

        return PosteriorGenotypeDistribution(states[idx], probs[idx])



    def split(self):

        """Split a multitrace into a trace for each component chain."""

        for genotypes, llks in zip(self.genotypes, self.llks):

            new = type(self)(None, None)

            new.genotypes = genotypes[None, ...]

            new.llks = llks[None, ...]

            yield new



    def replicate_incongruence(self, threshold=0.6):

        """Identifies incongruence between replicate Markov chains."""

        out = 0

        posteriors = [trace.posterior() for trace in self.split()]

        chain_modes = [dist.mode_genotype_support() for dist in posteriors]

        alleles = [mode.alleles() for mode in chain_modes if mode.probabilities.sum() >= threshold]

        mode_count = len({array.tobytes() for array in alleles})

        if mode_count > 1:

            out = 1

            ploidy = len(alleles[0])

            allele_count = len(reduce(mset.union, alleles))

            if allele_count > ploidy:

                out = 2

        return out
