"""Reference implementations for mchap.assemble.haplotype_calling (parsed, never imported); compared with the code by sa/refspec.py."""


def call_posterior_haplotypes(posteriors, threshold=0.01):
    """Call haplotype alleles for VCF output from a population of genotype posterior distributions."""
    haplotype_arrays = {}
    haplotype_values = {}
    for post in posteriors:
        haps, weights, probs = post.allele_frequencies(dosage=True)
        idx = probs >= threshold
        haps = haps[idx]
        weights = weights[idx]
        for h, w in zip(haps, weights):
            b = h.tobytes()
            if b not in haplotype_arrays:
                haplotype_arrays[b] = h
                haplotype_values[b] = 0
            haplotype_values[b] += w
    refbytes = None
    for b, h in haplotype_arrays.items():
        if np.all(h == 0):
            refbytes = b
    if refbytes is not None:
        haplotype_arrays.pop(refbytes)
        haplotype_values.pop(refbytes)
        ref_observed = True
    else:
        ref_observed = False
    n_alleles = len(haplotype_arrays) + 1
    n_base = posteriors[0].genotypes.shape[-1]
    haplotypes = np.full((n_alleles, n_base), -1, np.int8)
    values = np.full(n_alleles, -1, float)
    for i, (b, h) in enumerate(haplotype_arrays.items()):
        p = haplotype_values[b]
        haplotypes[i] = h
        values[i] = p
    haplotypes[-1][:] = 0
    values[-1] = values.max() + 1
    order = np.flip(np.argsort(values))
    return (haplotypes[order], ref_observed)
