"""Reference implementations for mchap.assemble.likelihood (parsed, never imported); compared with the code by sa/refspec.py."""






def new_log_likelihood_cache(ploidy, n_base, max_alleles, max_size=2 ** 16):
    """Create an array_map forcaching log-likelihoods."""
    return arraymap.new(ploidy * n_base, max_alleles, initial_size=64, max_size=max_size)


def log_likelihood_cached(reads, genotype, read_counts=None, cache=None):
    """Log likelihood of observed reads given a genotype with caching."""
    if cache is None:
        llk = log_likelihood(reads, genotype, read_counts=read_counts)
        return (llk, cache)
    llk = arraymap.get(cache, genotype.ravel())
    if np.isnan(llk):
        llk = log_likelihood(reads, genotype, read_counts=read_counts)
        cache = arraymap.set(cache, genotype.ravel(), llk, empty_if_full=True)
    return (llk, cache)


def log_likelihood_structural_change_cached(reads, genotype, haplotype_indices, interval=None, read_counts=None, cache=None):
    """Log likelihood of observed reads given a genotype given a structural change."""
    if cache is None:
        llk = log_likelihood_structural_change(reads=reads, genotype=genotype, haplotype_indices=haplotype_indices, interval=interval, read_counts=read_counts)
        return (llk, cache)
    genotype_new = genotype.copy()
    structural_change(genotype_new, haplotype_indices=haplotype_indices, interval=interval)
    llk = arraymap.get(cache, genotype_new.ravel())
    if np.isnan(llk):
        llk = log_likelihood_structural_change(reads=reads, genotype=genotype, haplotype_indices=haplotype_indices, interval=interval, read_counts=read_counts)
        cache = arraymap.set(cache, genotype_new.ravel(), llk, empty_if_full=True)
    return (llk, cache)


def log_likelihood(reads, genotype, read_counts=None):
    """Log likelihood of observed reads given a genotype."""
    ploidy, n_base = genotype.shape
    n_reads = len(reads)
    llk = 0.0
    for r in range(n_reads):
        read_prob = 0
        for h in range(ploidy):
            read_hap_prod = 1.0
            for j in range(n_base):
                i = genotype[h, j]
                val = reads[r, j, i]
                if np.isnan(val):
                    pass
                else:
                    read_hap_prod *= val
            read_prob += read_hap_prod / ploidy
        log_read_prob = np.log(read_prob)
        if read_counts is not None:
            if read_counts[r] == 0:
                log_read_prob = 0.0
            else:
                log_read_prob *= read_counts[r]
        llk += log_read_prob
    return llk


def log_likelihood_structural_change(reads, genotype, haplotype_indices, interval=None, read_counts=None):
    """Log likelihood of observed reads given a genotype given a structural change."""
    ploidy, n_base = genotype.shape
    n_reads = len(reads)
    if interval is None:
        intvl = range(n_base)
    else:
        intvl = range(interval[0], interval[1])
    llk = 0.0
    for r in range(n_reads):
        read_prob = 0
        for h in range(ploidy):
            read_hap_prod = 1.0
            for j in range(n_base):
                if j in intvl:
                    h_ = haplotype_indices[h]
                else:
                    h_ = h
                i = genotype[h_, j]
                val = reads[r, j, i]
                if np.isnan(val):
                    pass
                else:
                    read_hap_prod *= val
            read_prob += read_hap_prod / ploidy
        log_read_prob = np.log(read_prob)
        if read_counts is not None:
            if read_counts[r] == 0:
                log_read_prob = 0.0
            else:
                log_read_prob *= read_counts[r]
        llk += log_read_prob
    return llk
