"""Reference implementations for mchap.assemble.mcmc (parsed, never imported); compared with the code by sa/refspec.py."""


def _point_beta_probabilities(n_base, a=1, b=1):
    """Return probabilies for selecting a recombination point following a beta distribution"""
    dist = _stats.beta(a, b)
    points = np.arange(1, n_base + 1) / n_base
    probs = dist.cdf(points)
    probs[1:] = probs[1:] - probs[:-1]
    return probs


def _read_mean_dist(reads):
    """Calculate the element-wise means of a collection of probabilistically encoded reads."""
    reads = reads.copy()
    n_reads = len(reads)
    gaps = np.isnan(reads).all(axis=0)
    reads[np.tile(gaps, (n_reads, 1, 1))] = 1
    dist = np.nanmean(reads, axis=0)
    n_alleles = np.sum(~np.all(reads == 0, axis=0), axis=1, keepdims=True)
    fill = 1 / np.tile(n_alleles, (1, reads.shape[-1]))
    dist[gaps] = fill[gaps]
    dist /= dist.sum(axis=-1, keepdims=True)
    return dist


def _homozygosity_probabilities(reads, n_alleles, ploidy, inbreeding=0, read_counts=None):
    """Calculate posterior probabilities at each single SNP position to determine if an individual is homozygous for a single allele."""
    _, n_pos, max_allele = reads.shape
    homozygous_probs = np.zeros((n_pos, max_allele), dtype=np.float64)
    genotype = np.zeros(ploidy, dtype=np.int8)
    for i in range(n_pos):
        n = n_alleles[i]
        _, probs = snp_posterior(reads[:, i, :], n, ploidy, inbreeding, read_counts=read_counts)
        for a in range(n):
            genotype[:] = a
            idx = genotype_alleles_as_index(genotype)
            homozygous_probs[i, a] = probs[idx]
    return homozygous_probs


def _denovo_assembler(*, genotype, inbreeding, reads, read_counts, n_alleles, steps, break_dist, recombination_step_probability, partial_dosage_step_probability, dosage_step_probability, temperatures, return_heated_trace=False, llk_cache_threshold=100):
    """MCMC sampler with parallel tempering"""
    ploidy, n_base = genotype.shape
    u_reads, n_read_base, _ = reads.shape
    assert n_base == n_read_base
    assert n_base == len(n_alleles)
    n_temps = len(temperatures)
    log_unique_haplotypes = np.log(n_alleles).sum()
    genotypes = np.empty((n_temps, ploidy, n_base), dtype=genotype.dtype)
    for t in range(n_temps):
        genotypes[t] = genotype.copy()
    llks = np.empty(n_temps)
    llks[:] = log_likelihood(reads, genotype, read_counts=read_counts)
    if llk_cache_threshold < 0:
        cache = None
    elif ploidy * n_base * u_reads > llk_cache_threshold:
        cache = new_log_likelihood_cache(ploidy, n_base, max_alleles=np.max(n_alleles))
    else:
        cache = None
    if return_heated_trace:
        genotype_trace = np.empty((n_temps, steps) + genotype.shape, np.int8)
        llk_trace = np.empty((n_temps, steps), np.float64)
    else:
        genotype_trace = np.empty((1, steps) + genotype.shape, np.int8)
        llk_trace = np.empty((1, steps), np.float64)
    for i in range(steps):
        for t in range(n_temps):
            llk = llks[t]
            genotype = genotypes[t]
            temp = temperatures[t]
            if np.isnan(llk):
                raise ValueError('Encountered log likelihood of nan')
            llk, cache = mutation.compound_step(genotype=genotype, inbreeding=inbreeding, reads=reads, llk=llk, n_alleles=n_alleles, log_unique_haplotypes=log_unique_haplotypes, temp=temp, read_counts=read_counts, cache=cache)
            if np.random.rand() <= recombination_step_probability:
                n_breaks = random_choice(break_dist)
                intervals = structural.random_breaks(n_breaks, n_base)
                llk, cache = structural.compound_step(genotype=genotype, inbreeding=inbreeding, reads=reads, llk=llk, intervals=intervals, log_unique_haplotypes=log_unique_haplotypes, step_type=0, temp=temp, read_counts=read_counts, cache=cache)
            if np.random.rand() <= partial_dosage_step_probability:
                n_breaks = random_choice(break_dist)
                intervals = structural.random_breaks(n_breaks, n_base)
                llk, cache = structural.compound_step(genotype=genotype, inbreeding=inbreeding, reads=reads, llk=llk, intervals=intervals, log_unique_haplotypes=log_unique_haplotypes, step_type=1, temp=temp, read_counts=read_counts, cache=cache)
            if np.random.rand() <= dosage_step_probability:
                llk, cache = structural.compound_step(genotype=genotype, inbreeding=inbreeding, reads=reads, llk=llk, intervals=np.array([[0, n_base]]), log_unique_haplotypes=log_unique_haplotypes, step_type=1, temp=temp, read_counts=read_counts, cache=cache)
            if t > 0:
                llk_prev = llks[t - 1]
                genotype_prev = genotypes[t - 1]
                temp_prev = temperatures[t - 1]
                llk, llk_prev = chain_swap_step(genotype_i=genotype, llk_i=llk, temp_i=temp, genotype_j=genotype_prev, llk_j=llk_prev, temp_j=temp_prev, inbreeding=inbreeding, log_unique_haplotypes=log_unique_haplotypes)
                llks[t - 1] = llk_prev
            llks[t] = llk
            llks[t] = llk
        if return_heated_trace:
            genotype_trace[:, i] = genotypes.copy()
            llk_trace[:, i] = llks.copy()
        else:
            genotype_trace[0, i] = genotype.copy()
            llk_trace[0, i] = llk
    return (genotype_trace, llk_trace)






class DenovoMCMC:
    def fit(self, reads, read_counts=None, initial=None):

        """Fit the parametized model to a set of probabilistically encoded variable positions of NGS reads."""

        n_reads, n_pos, max_allele = reads.shape

        if n_reads == 0:

            assert len(self.n_alleles) == n_pos

            n_reads = 1

            reads = np.empty((n_reads, n_pos, max_allele), dtype=float)

            reads[:] = np.nan

            read_counts = None

        if self.random_seed is not None:

            np.random.seed(self.random_seed)

            seed_numba(self.random_seed)

        if initial is None:

            initial = [None for _ in range(self.chains)]

        genotypes = []

        llks = []

        for chain in range(self.chains):

            gen_trace, llk_trace = self._mcmc(reads, read_counts=read_counts, initial=initial[chain])

            genotypes.append(gen_trace)

            llks.append(llk_trace)

        return GenotypeMultiTrace(np.array(genotypes), np.array(llks))


class DenovoMCMC:
    def _mcmc(self, reads, read_counts, initial=None):

        """Run a single MCMC simulation."""

        n_alleles = np.array(self.n_alleles, dtype=np.int8)

        hom_probs = _homozygosity_probabilities(reads, n_alleles, self.ploidy, inbreeding=self.inbreeding, read_counts=read_counts)

        fixed = hom_probs >= self.fix_homozygous

        if fixed.size:

            best = np.argmax(hom_probs, axis=-1)

            fixed &= np.arange(hom_probs.shape[-1]) == best[:, None]

        homozygous = np.any(fixed, axis=-1)

        heterozygous = ~homozygous

        reads_het = reads[:, heterozygous]

        _, n_base, _ = reads.shape

        _, n_het_base, _ = reads_het.shape

        if n_het_base == 0:

            idx, vals = np.where(fixed)

            haplotype = np.zeros(n_base, dtype=np.int8)

            haplotype[idx] = vals

            genotypes = np.tile(haplotype, (self.steps, self.ploidy, 1))

            llks = np.empty(self.steps, dtype=float)

            llks[:] = np.nan

            return (genotypes, llks)

        if initial is None:

            dist = _read_mean_dist(reads_het)

            genotype = np.array([sample_snv_alleles(dist) for _ in range(self.ploidy)])

        else:

            assert initial.shape == (self.ploidy, n_het_base)

            genotype = initial.copy()

        if self.n_intervals is None:

            break_dist = _point_beta_probabilities(n_het_base, self.alpha, self.beta)

        else:

            break_dist = np.zeros(self.n_intervals, dtype=np.float64)

            break_dist[-1] = 1

        assert len(n_alleles) == n_base

        n_alleles = n_alleles[heterozygous]

        temperatures = np.sort(self.temperatures)

        assert temperatures[0] >= 0.0

        assert temperatures[-1] == 1.0

        genotypes, llks = _denovo_assembler(genotype=genotype, inbreeding=self.inbreeding, reads=reads_het, read_counts=read_counts, n_alleles=n_alleles, steps=self.steps, break_dist=break_dist, recombination_step_probability=self.recombination_step_probability, partial_dosage_step_probability=self.partial_dosage_step_probability, dosage_step_probability=self.dosage_step_probability, temperatures=temperatures, return_heated_trace=False, llk_cache_threshold=self.llk_cache_threshold)

        genotypes = genotypes[0]

        llks = llks[0]

        if n_het_base == n_base:

            return (genotypes, llks)

        else:

            idx, vals = np.where(fixed)

            template = np.zeros(n_base, dtype=genotypes.dtype)

            template[idx] = vals

            template = np.tile(template, (self.steps, self.ploidy, 1))

            llks = llks + log_likelihood(reads[:, homozygous], template[0][:, homozygous], read_counts=read_counts)

            template[:, :, heterozygous] = genotypes

            return (template, llks)
