"""Reference implementations for mchap.assemble.mutation (parsed, never imported); compared with the code by sa/refspec.py."""


def base_step(genotype, reads, llk, h, j, n_alleles, log_unique_haplotypes, inbreeding=0, temp=1, read_counts=None, cache=None):
    """Mutation Gibbs sampler step for the jth base position of the hth haplotype."""
    assert 0 <= temp <= 1
    ploidy = len(genotype)
    llks = np.empty(n_alleles)
    log_accept = np.empty(n_alleles)
    lhapcount = np.log(count_haplotype_copies(genotype, h))
    dosage = np.empty(ploidy, dtype=np.int8)
    get_haplotype_dosage(dosage, genotype)
    lprior = log_genotype_prior(dosage=dosage, log_unique_haplotypes=log_unique_haplotypes, inbreeding=inbreeding)
    current_nucleotide = genotype[h, j]
    n_options = 0
    for i in range(n_alleles):
        if i == current_nucleotide:
            llks[i] = llk
            log_accept[i] = -np.inf
        else:
            n_options += 1
            genotype[h, j] = i
            llk_i, cache = log_likelihood_cached(reads, genotype, cache=cache, read_counts=read_counts)
            llks[i] = llk_i
            llk_ratio = llk_i - llk
            get_haplotype_dosage(dosage, genotype)
            lprior_i = log_genotype_prior(dosage=dosage, log_unique_haplotypes=log_unique_haplotypes, inbreeding=inbreeding)
            lprior_ratio = lprior_i - lprior
            lhapcount_i = np.log(count_haplotype_copies(genotype, h))
            lproposal_ratio = lhapcount_i - lhapcount
            mh_ratio = (llk_ratio + lprior_ratio) * temp + lproposal_ratio
            log_accept[i] = np.minimum(0.0, mh_ratio)
    log_accept -= np.log(n_options)
    probabilities = np.exp(log_accept)
    probabilities[current_nucleotide] = 1 - probabilities.sum()
    choice = random_choice(probabilities)
    genotype[h, j] = choice
    return (llks[choice], cache)


def compound_step(genotype, reads, llk, n_alleles, log_unique_haplotypes, inbreeding=0, temp=1, read_counts=None, cache=None):
    """Mutation compound Gibbs sampler step for all base positions of all haplotypes in a genotype."""
    ploidy, n_base = genotype.shape
    substeps = np.empty((ploidy * n_base, 2), dtype=np.int64)
    for h in range(ploidy):
        for j in range(n_base):
            substep = h * n_base + j
            substeps[substep, 0] = h
            substeps[substep, 1] = j
    np.random.shuffle(substeps)
    for i in range(ploidy * n_base):
        h, j = substeps[i]
        llk, cache = base_step(genotype=genotype, reads=reads, llk=llk, h=h, j=j, cache=cache, log_unique_haplotypes=log_unique_haplotypes, inbreeding=inbreeding, n_alleles=n_alleles[j], temp=temp, read_counts=read_counts)
    return (llk, cache)
