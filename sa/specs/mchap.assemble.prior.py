"""Reference implementations for mchap.assemble.prior (parsed, never imported); compared with the code by sa/refspec.py."""


def log_genotype_null_prior(dosage, log_unique_haplotypes):
    """Prior probability of a dosage for a non-inbred individual assuming all haplotypes are equally probable."""
    ploidy = dosage.sum()
    ln_perms = ln_equivalent_permutations(dosage)
    ln_total_perms = ploidy * log_unique_haplotypes
    return ln_perms - ln_total_perms


def log_dirichlet_multinomial_pmf(dosage, log_dispersion, log_unique_haplotypes):
    """Dirichlet-Multinomial probability mass function assuming all categories (haplotypes) have equal dispersion parameters (alphas)."""
    ploidy = np.sum(dosage)
    dispersion = np.exp(log_dispersion)
    sum_dispersion = np.exp(log_dispersion + log_unique_haplotypes)
    num = lgamma(ploidy + 1) + lgamma(sum_dispersion)
    denom = lgamma(ploidy + sum_dispersion)
    left = num - denom
    prod = 0.0
    for i in range(len(dosage)):
        dose = dosage[i]
        if dose > 0:
            num = lgamma(dose + dispersion)
            denom = lgamma(dose + 1) + lgamma(dispersion)
            prod += num - denom
    return left + prod


def log_genotype_prior(dosage, log_unique_haplotypes, inbreeding=0):
    """Prior probability of a dosage for an individual genotype assuming all haplotypes are equally probable."""
    assert 0 <= inbreeding < 1
    if inbreeding == 0:
        return log_genotype_null_prior(dosage, log_unique_haplotypes)
    log_dispersion = np.log((1 - inbreeding) / inbreeding) - log_unique_haplotypes
    return log_dirichlet_multinomial_pmf(dosage, log_dispersion, log_unique_haplotypes)
