"""Reference implementations for mchap.assemble.snpcalling (parsed, never imported); compared with the code by sa/refspec.py."""


def snp_posterior(read_probs, n_alleles, ploidy, inbreeding=0, read_counts=None):
    """Brute-force the posterior probability across all possible genotypes for a single SNP position."""
    n_reads, max_allele = read_probs.shape
    if n_reads == 0:
        n_reads = 1
        read_probs = np.empty((n_reads, max_allele), dtype=np.float64)
        read_probs[:] = np.nan
    u_gens = comb_with_replacement(n_alleles, ploidy)
    genotype = np.zeros(ploidy, dtype=np.int8)
    genotypes = np.empty((u_gens, ploidy), dtype=np.int8)
    log_probabilities = np.empty(u_gens, dtype=float)
    log_probabilities[:] = -np.inf
    for i in range(u_gens):
        genotypes[i] = genotype
        lprior = log_snp_prior(genotype, unique_haplotypes=n_alleles, inbreeding=inbreeding)
        llk = log_likelihood(np.expand_dims(read_probs, 1), np.expand_dims(genotype, -1), read_counts=read_counts)
        log_probabilities[i] = lprior + llk
        increment_genotype(genotype)
    probabilities = normalise_log_probs(log_probabilities)
    return (genotypes, probabilities)
