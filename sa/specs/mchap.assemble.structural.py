"""Reference implementations for mchap.assemble.structural (parsed, never imported); compared with the code by sa/refspec.py."""


def _label_haplotypes(labels, genotype, interval=None):
    """Label each haplotype in a genotype with the index of its first occurance."""
    ploidy, n_base = genotype.shape
    labels[:] = 0
    if interval is None:
        r = range(n_base)
    else:
        r = range(interval[0], interval[1])
    for i in r:
        for j in range(1, ploidy):
            if genotype[j][i] == genotype[labels[j]][i]:
                pass
            else:
                prev_label = labels[j]
                labels[j] = j
                for k in range(j + 1, ploidy):
                    if labels[k] == prev_label and genotype[j][i] == genotype[k][i]:
                        labels[k] = j


def _interval_inverse_mask(interval, n):
    """Return a boolean vector of True values outside of the specified interval."""
    if interval is None:
        mask = np.zeros(n, np.bool_)
    else:
        mask = np.ones(n, np.bool_)
        mask[interval[0]:interval[1]] = 0
    return mask


def random_breaks(breaks, n):
    """Return a set of randomly selected non-overlapping intervals which cover a sequence of length n."""
    if breaks >= n:
        raise ValueError('breaks must be smaller then n')
    indicies = np.ones(n + 1, np.bool_)
    indicies[0] = False
    indicies[-1] = False
    for _ in range(breaks):
        options = np.where(indicies)[0]
        if len(options) == 0:
            break
        else:
            point = np.random.choice(options)
            indicies[point] = False
    points = np.where(~indicies)[0]
    intervals = np.zeros((breaks + 1, 2), dtype=np.int64)
    for i in range(breaks + 1):
        intervals[i, 0] = points[i]
        intervals[i, 1] = points[i + 1]
    return intervals


def recombination_step_n_options(labels):
    """Calculate number of unique haplotype recombination options."""
    ploidy = len(labels)
    dosage = np.empty(ploidy, np.int8)
    get_haplotype_dosage(dosage, labels)
    n = 0
    for h_0 in range(ploidy):
        if dosage[h_0] == 0:
            pass
        else:
            for h_1 in range(h_0 + 1, ploidy):
                if dosage[h_1] == 0:
                    pass
                elif labels[h_0, 0] == labels[h_1, 0] or labels[h_0, 1] == labels[h_1, 1]:
                    pass
                else:
                    n += 1
    return n


def recombination_step_options(labels):
    """Calculate number of unique haplotype recombination options."""
    ploidy = len(labels)
    dosage = np.empty(ploidy, np.int8)
    get_haplotype_dosage(dosage, labels)
    max_options = comb(ploidy, 2)
    options = np.empty((max_options, ploidy, 2), np.int8)
    for i in range(max_options):
        for j in range(ploidy):
            for k in range(2):
                options[i, j, k] = labels[j, k]
    opt = 0
    for h_0 in range(ploidy):
        if dosage[h_0] == 0:
            pass
        else:
            for h_1 in range(h_0 + 1, ploidy):
                if dosage[h_1] == 0:
                    pass
                elif labels[h_0, 0] == labels[h_1, 0] or labels[h_0, 1] == labels[h_1, 1]:
                    pass
                else:
                    options[opt, h_0, 0] = labels[h_1, 0]
                    options[opt, h_1, 0] = labels[h_0, 0]
                    opt += 1
    assert opt <= max_options
    return options[0:opt]


def dosage_step_n_options(labels):
    """Calculate the number of alternative dosages within one steps distance."""
    ploidy = len(labels)
    haplotype_dosage = np.empty(ploidy, np.int8)
    get_haplotype_dosage(haplotype_dosage, labels)
    segment_dosage = np.empty(ploidy, np.int8)
    get_haplotype_dosage(segment_dosage, labels[:, 0:1])
    n = 0
    for h_0 in range(ploidy):
        if haplotype_dosage[h_0] == 0:
            pass
        elif segment_dosage[h_0] == 1:
            pass
        else:
            for h_1 in range(ploidy):
                if segment_dosage[h_1] == 0:
                    pass
                elif labels[h_0, 0] == labels[h_1, 0]:
                    pass
                else:
                    n += 1
    return n


def dosage_step_options(labels):
    """Calculate the number of alternative dosages within one steps distance."""
    ploidy = len(labels)
    haplotype_dosage = np.empty(ploidy, np.int8)
    get_haplotype_dosage(haplotype_dosage, labels)
    segment_dosage = np.empty(ploidy, np.int8)
    get_haplotype_dosage(segment_dosage, labels[:, 0:1])
    max_recievers = np.sum(segment_dosage[segment_dosage > 1])
    max_donors = np.sum(segment_dosage > 0) - 1
    max_options = max_recievers * max_donors
    options = np.empty((max_options, ploidy, 2), np.int8)
    for i in range(max_options):
        for j in range(ploidy):
            for k in range(2):
                options[i, j, k] = labels[j, k]
    opt = 0
    for h_0 in range(ploidy):
        if haplotype_dosage[h_0] == 0:
            pass
        elif segment_dosage[h_0] == 1:
            pass
        else:
            for h_1 in range(ploidy):
                if segment_dosage[h_1] == 0:
                    pass
                elif labels[h_0, 0] == labels[h_1, 0]:
                    pass
                else:
                    options[opt, h_0, 0] = labels[h_1, 0]
                    opt += 1
    assert opt <= max_options
    return options[0:opt]


def haplotype_segment_labels(genotype, interval=None):
    """Create a labels matrix in whihe the first coloumn contains labels for haplotype segments within the specified range and the second column contains labels for the remander of the haplotypes."""
    ploidy, n_base = genotype.shape
    labels = np.zeros((ploidy, 2), np.int8)
    _label_haplotypes(labels[:, 0], genotype, interval=interval)
    mask = _interval_inverse_mask(interval, n_base)
    _label_haplotypes(labels[:, 1], genotype[:, mask], interval=None)
    return labels


def interval_step(genotype, reads, llk, log_unique_haplotypes, inbreeding=0, interval=None, step_type=0, temp=1, read_counts=None, cache=None):
    """A structural step of an MCMC simulation consisting of multiple sub-steps each of which are  constrained to a single interval contating a sub-set of positions of a genotype."""
    assert 0 <= temp <= 1
    labels = haplotype_segment_labels(genotype, interval)
    if step_type == 0:
        option_labels = recombination_step_options(labels)
    elif step_type == 1:
        option_labels = dosage_step_options(labels)
    else:
        raise ValueError('step_type must be 0 (recombination) or 1 (dosage).')
    n_options = len(option_labels)
    if n_options == 0:
        return (llk, cache)
    log_proposal_prob = np.log(1 / n_options)
    ploidy = len(genotype)
    dosage = np.empty(ploidy, dtype=np.int8)
    get_haplotype_dosage(dosage, genotype)
    lprior = log_genotype_prior(dosage=dosage, log_unique_haplotypes=log_unique_haplotypes, inbreeding=inbreeding)
    llks = np.empty(n_options + 1)
    llks[-1] = -np.inf
    log_accept = np.empty(n_options + 1)
    log_accept[-1] = -np.inf
    for i in range(n_options):
        llk_i, cache = log_likelihood_structural_change_cached(reads=reads, genotype=genotype, cache=cache, haplotype_indices=option_labels[i, :, 0], interval=interval, read_counts=read_counts)
        llks[i] = llk_i
        llk_ratio = llk_i - llk
        get_haplotype_dosage(dosage, option_labels[i])
        lprior_i = log_genotype_prior(dosage=dosage, log_unique_haplotypes=log_unique_haplotypes, inbreeding=inbreeding)
        lprior_ratio = lprior_i - lprior
        if step_type == 0:
            n_return_options = recombination_step_n_options(option_labels[i])
        elif step_type == 1:
            n_return_options = dosage_step_n_options(option_labels[i])
        log_return_prob = np.log(1 / n_return_options)
        lproposal_ratio = log_return_prob - log_proposal_prob
        mh_ratio = (llk_ratio + lprior_ratio) * temp + lproposal_ratio
        log_accept[i] = np.minimum(0.0, mh_ratio)
    log_accept -= np.log(n_options)
    probabilities = np.exp(log_accept)
    probabilities[-1] = 1 - probabilities.sum()
    choice = random_choice(probabilities)
    if choice < n_options:
        structural_change(genotype, option_labels[choice, :, 0], interval)
        llk = llks[choice]
    else:
        pass
    return (llk, cache)


def compound_step(genotype, reads, llk, intervals, log_unique_haplotypes, inbreeding=0, step_type=0, randomize=True, temp=1, read_counts=None, cache=None):
    """A structural step of an MCMC simulation consisting of multiple sub-steps each of which are  constrained to a single interval contating a sub-set of positions of a genotype."""
    n_intervals = len(intervals)
    if randomize:
        intervals = intervals[np.random.permutation(np.arange(n_intervals))]
    for i in range(n_intervals):
        llk, cache = interval_step(genotype=genotype, reads=reads, llk=llk, cache=cache, log_unique_haplotypes=log_unique_haplotypes, inbreeding=inbreeding, interval=intervals[i], step_type=step_type, temp=temp, read_counts=read_counts)
    return (llk, cache)
