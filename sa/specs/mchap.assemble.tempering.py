"""Reference implementations for mchap.assemble.tempering (parsed, never imported); compared with the code by sa/refspec.py."""


def chain_swap_acceptance(llk_i, log_prior_i, temp_i, llk_j, log_prior_j, temp_j):
    """Acceptance probability for switching genotypes between chains of different temperatures."""
    assert temp_i > temp_j
    unnormalized_posterior_i = llk_i + log_prior_i
    unnormalized_posterior_j = llk_j + log_prior_j
    frac_1 = (unnormalized_posterior_j - unnormalized_posterior_i) * temp_i
    frac_2 = (unnormalized_posterior_i - unnormalized_posterior_j) * temp_j
    acceptance_ratio = np.exp(frac_1 + frac_2)
    if acceptance_ratio > 1.0:
        acceptance_ratio = 1.0
    return acceptance_ratio


def chain_swap_step(genotype_i, llk_i, temp_i, genotype_j, llk_j, temp_j, log_unique_haplotypes, inbreeding=0):
    """Exchange-swap step for exchanging genotypes between chains of different temperatures."""
    ploidy, _ = genotype_i.shape
    dosage = np.zeros(ploidy, dtype=np.int8)
    get_haplotype_dosage(dosage, genotype_i)
    prior_i = log_genotype_prior(dosage=dosage, log_unique_haplotypes=log_unique_haplotypes, inbreeding=inbreeding)
    get_haplotype_dosage(dosage, genotype_j)
    prior_j = log_genotype_prior(dosage=dosage, log_unique_haplotypes=log_unique_haplotypes, inbreeding=inbreeding)
    acceptance = chain_swap_acceptance(llk_i, prior_i, temp_i, llk_j, prior_j, temp_j)
    val = np.random.rand()
    if acceptance >= val:
        genotype_i_new = genotype_j.copy()
        genotype_j_new = genotype_i.copy()
        genotype_i[:] = genotype_i_new
        genotype_j[:] = genotype_j_new
        return (llk_j, llk_i)
    else:
        return (llk_i, llk_j)
