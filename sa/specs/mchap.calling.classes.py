"""Reference implementations for mchap.calling.classes (parsed, never imported); compared with the code by sa/refspec.py."""


def _posterior_frequencies(genotypes, n_allele):
    n_chain, n_step, ploidy = genotypes.shape
    counts = np.zeros(n_allele)
    occurrence = np.zeros(n_allele)
    for c in range(n_chain):
        for s in range(n_step):
            for i in range(ploidy):
                a = genotypes[c, s, i]
                counts[a] += 1
                first = True
                for j in range(i):
                    b = genotypes[c, s, j]
                    if b == a:
                        first = False
                if first:
                    occurrence[a] += 1
    n_obs = n_chain * n_step
    counts /= n_obs
    occurrence /= n_obs
    return (counts / ploidy, counts, occurrence)


class GenotypeAllelesMultiTrace:
    def relabel(self, labels, n_allele=None):

        """Returns a new GenotypeTrace object with relabeled alleles."""

        if n_allele is None:

            n_allele = labels.max() + 1

        new = type(self)(labels[self.genotypes], self.llks, n_allele)

        return new



    def burn(self, n):

        """Returns a new GenotypeTrace object without the first `n` observations of each chain."""

        new = type(self)(self.genotypes[:, n:], self.llks[:, n:], self.n_allele)

        return new



    def posterior(self):

        """Returns a posterior distribution over (phased) genotypes."""

        n_chain = self.genotypes.shape[0]

        n_step = self.genotypes.shape[1]

        etc = self.genotypes.shape[2:]

        genotypes = self.genotypes.reshape((n_chain * n_step,) + etc)

        states, counts = mset.unique_counts(genotypes)

        probs = counts / np.sum(counts)

        idx = np.flip(np.argsort(probs))

        return PosteriorGenotypeAllelesDistribution(states[idx], probs[idx])



    def split(self):

        """Split a multitrace into a trace for each component chain."""

        for genotypes, llks in zip(self.genotypes, self.llks):

            yield type(self)(genotypes[None, ...], llks[None, ...], self.n_allele)



    def replicate_incongruence(self, threshold=0.6):

        """Identifies incongruence between replicate Markov chains."""

        out = 0

        chain_modes = [chain.posterior().mode(genotype_support=True) for chain in self.split()]

        alleles = [mode[0] for mode in chain_modes if mode[-1] >= threshold]

        mode_count = len({array.tobytes() for array in alleles})

        if mode_count > 1:

            out = 1

            ploidy = len(alleles[0])

            allele_count = len(set(np.array(alleles).ravel()))

            if allele_count > ploidy:

                out = 2

        return out



    def posterior_frequencies(self):

        """Calculate posterior frequency of haplotype alleles."""

        return _posterior_frequencies(self.genotypes, self.n_allele)


class PosteriorGenotypeAllelesDistribution:
    def mode(self, genotype_support=False):

        """Return the posterior mode genotype or genotype support."""

        if genotype_support is False:

            idx = np.argmax(self.probabilities)

            return (self.genotypes[idx], self.probabilities[idx])

        else:

            labels = np.zeros(len(self.genotypes), dtype=int)

            support_labels = {}

            probs = {}

            for i, gen in enumerate(self.genotypes):

                genotype_support = mset.unique(gen)

                string = genotype_support.tobytes()

                if string not in support_labels:

                    label = i

                    support_labels[string] = label

                    probs[label] = self.probabilities[i]

                else:

                    label = support_labels[string]

                    probs[label] += self.probabilities[i]

                labels[i] = label

            support_labels, probs = zip(*probs.items())

            mode = support_labels[np.argmax(probs)]

            idx = labels == mode

            genotypes = self.genotypes[idx]

            probs = self.probabilities[idx]

            idx = np.argmax(probs)

            return (genotypes[idx], probs[idx], probs.sum())



    def as_array(self, n_alleles):

        _, ploidy = self.genotypes.shape

        u_genotypes = count_unique_genotypes(n_alleles, ploidy)

        return posterior_as_array(self.genotypes, self.probabilities, u_genotypes)


class CallingMCMC:
    def fit(self, reads, read_counts=None, initial=None):

        """Fit the parametized model to a set of probabilistically encoded variable positions of NGS reads."""

        if reads.shape[1] == 0:

            assert len(self.haplotypes) == 1

            genotypes = np.zeros((self.chains, self.steps, self.ploidy), dtype=np.int8)

            llks = np.full((self.chains, self.steps), np.nan)

            return GenotypeAllelesMultiTrace(genotypes, llks, len(self.haplotypes))

        if self.random_seed is not None:

            np.random.seed(self.random_seed)

            seed_numba(self.random_seed)

        if initial is None:

            initial = greedy_caller(haplotypes=self.haplotypes, ploidy=self.ploidy, reads=reads, read_counts=read_counts, inbreeding=self.inbreeding)

        if self.step_type == 'Gibbs':

            step_type = 0

        elif self.step_type == 'Metropolis-Hastings':

            step_type = 1

        else:

            raise ValueError('MCMC step type must be "Gibbs" or "Metropolis-Hastings"')

        genotype_traces = []

        llk_traces = []

        for _ in range(self.chains):

            genotypes, llks = mcmc_sampler(genotype_alleles=initial, haplotypes=self.haplotypes, reads=reads, read_counts=read_counts, inbreeding=self.inbreeding, frequencies=self.frequencies, n_steps=self.steps, cache=True, step_type=step_type)

            genotype_traces.append(genotypes)

            llk_traces.append(llks)

        return GenotypeAllelesMultiTrace(np.array(genotype_traces), np.array(llk_traces), len(self.haplotypes))
