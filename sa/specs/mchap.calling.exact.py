"""Reference implementations for mchap.calling.exact (parsed, never imported); compared with the code by sa/refspec.py."""


def _call_posterior_mode(reads, ploidy, haplotypes, n_genotypes, read_counts=None, inbreeding=0, frequencies=None):
    """Call posterior mode genotype from a set of known haplotypes."""
    n_alleles = len(haplotypes)
    genotype = np.zeros(ploidy, np.int64)
    mode_idx = 0
    mode_llk = -np.inf
    mode_ljoint = -np.inf
    total_ljoint = -np.inf
    for i in range(n_genotypes):
        llk = log_likelihood(reads=reads, genotype=haplotypes[genotype], read_counts=read_counts)
        lpr = log_genotype_prior(genotype, n_alleles, inbreeding=inbreeding, frequencies=frequencies)
        ljoint = llk + lpr
        if ljoint > mode_ljoint:
            mode_idx = i
            mode_llk = llk
            mode_ljoint = ljoint
        total_ljoint = add_log_prob(total_ljoint, ljoint)
        increment_genotype(genotype)
    mode_genotype = index_as_genotype_alleles(mode_idx, ploidy)
    return (mode_genotype, mode_llk, mode_ljoint, total_ljoint)


def _genotype_support_log_joint(genotype, reads, haplotypes, read_counts=None, inbreeding=0, frequencies=None):
    """Calculate genotype support posterior probability from a genotype and a set of known haplotypes."""
    ploidy = len(genotype)
    support = np.unique(genotype)
    n_genotype_alleles = len(support)
    remainder = ploidy - n_genotype_alleles
    options = list(combinations_with_replacement(support, remainder))
    tmp_genotype = np.zeros(ploidy, dtype=genotype.dtype)
    support_ljoint = -np.inf
    for opt in options:
        tmp_genotype[0:n_genotype_alleles] = support
        tmp_genotype[n_genotype_alleles:ploidy] = opt
        tmp_genotype = np.sort(tmp_genotype)
        llk = log_likelihood(reads=reads, genotype=haplotypes[tmp_genotype], read_counts=read_counts)
        lpr = log_genotype_prior(tmp_genotype, len(haplotypes), inbreeding=inbreeding, frequencies=frequencies)
        ljoint = llk + lpr
        support_ljoint = add_log_prob(support_ljoint, ljoint)
    return support_ljoint


def _posterior_allele_frequencies(ldenominator, reads, ploidy, haplotypes, n_genotypes, read_counts=None, inbreeding=0, frequencies=None):
    """Calculate posterior mean allele frequencies."""
    n_alleles = len(haplotypes)
    genotype = np.zeros(ploidy, np.int64)
    freqs = np.zeros(n_alleles, dtype=np.float64)
    occur = np.zeros(n_alleles, dtype=np.float64)
    for _ in range(n_genotypes):
        llk = log_likelihood(reads=reads, genotype=haplotypes[genotype], read_counts=read_counts)
        lpr = log_genotype_prior(genotype, n_alleles, inbreeding=inbreeding, frequencies=frequencies)
        ljoint = llk + lpr
        prob = np.exp(ljoint - ldenominator)
        for i in range(ploidy):
            a = genotype[i]
            freqs[a] += prob
            if i == 0:
                occur[a] += prob
            elif a != genotype[i - 1]:
                occur[a] += prob
        increment_genotype(genotype)
    return (freqs / ploidy, occur)


def posterior_mode(reads, ploidy, haplotypes, read_counts=None, inbreeding=0, frequencies=None, return_support_prob=False, return_posterior_frequencies=False, return_posterior_occurrence=False):
    """Call posterior mode genotype with statistics from a set of known haplotypes."""
    n_haplotypes = len(haplotypes)
    n_genotypes = count_unique_genotypes(n_haplotypes, ploidy)
    mode_genotype, mode_llk, mode_ljoint, total_ljoint = _call_posterior_mode(reads=reads, ploidy=ploidy, haplotypes=haplotypes, n_genotypes=n_genotypes, read_counts=read_counts, inbreeding=inbreeding, frequencies=frequencies)
    mode_genotype_prob = np.exp(mode_ljoint - total_ljoint)
    result = [mode_genotype, mode_llk, mode_genotype_prob]
    if return_support_prob:
        support_ljoint = _genotype_support_log_joint(genotype=mode_genotype, reads=reads, haplotypes=haplotypes, read_counts=read_counts, inbreeding=inbreeding, frequencies=frequencies)
        mode_support_prob = np.exp(support_ljoint - total_ljoint)
        result.append(mode_support_prob)
    if return_posterior_frequencies or return_posterior_occurrence:
        mean_frequencies, occurrence = _posterior_allele_frequencies(ldenominator=total_ljoint, reads=reads, ploidy=ploidy, haplotypes=haplotypes, n_genotypes=n_genotypes, read_counts=read_counts, inbreeding=inbreeding, frequencies=frequencies)
        if return_posterior_frequencies:
            result.append(mean_frequencies)
        if return_posterior_occurrence:
            result.append(occurrence)
    return tuple(result)


def _genotype_likelihoods(reads, ploidy, haplotypes, n_genotypes, read_counts=None):
    likelihoods = np.full(n_genotypes, np.nan, np.float32)
    genotype = np.zeros(ploidy, np.int64)
    for i in range(0, n_genotypes):
        likelihoods[i] = log_likelihood(reads=reads, genotype=haplotypes[genotype], read_counts=read_counts)
        increment_genotype(genotype)
    return likelihoods


def genotype_likelihoods(reads, ploidy, haplotypes, read_counts=None):
    """Calculate the log likelihood of every possible genotype for a given set of reads, ploidy, and possible haplotypes."""
    n_haplotypes = len(haplotypes)
    n_genotypes = count_unique_genotypes(n_haplotypes, ploidy)
    return _genotype_likelihoods(reads=reads, ploidy=ploidy, haplotypes=haplotypes, n_genotypes=n_genotypes, read_counts=read_counts)


def genotype_posteriors(log_likelihoods, ploidy, n_alleles, inbreeding=0, frequencies=None):
    """Calculate posterior probability of every possible genotype for a given set of likelihoods, ploidy, and number of alleles."""
    n_genotypes = len(log_likelihoods)
    posteriors = np.zeros(n_genotypes, dtype=log_likelihoods.dtype)
    genotype = np.zeros(ploidy, np.int64)
    for i in range(n_genotypes):
        llk = log_likelihoods[i]
        lpr = log_genotype_prior(genotype, n_alleles, inbreeding=inbreeding, frequencies=frequencies)
        posteriors[i] = llk + lpr
        increment_genotype(genotype)
    return normalise_log_probs(posteriors)


def posterior_allele_frequencies(posteriors, ploidy, n_alleles):
    """Calculate posterior mean allele frequencies of every allele for a given posteriors distribution."""
    n_genotypes = len(posteriors)
    counts = np.zeros(n_alleles, dtype=np.float64)
    occur = np.zeros(n_alleles, dtype=np.float64)
    genotype = np.zeros(ploidy, np.int64)
    for i in range(n_genotypes):
        p = posteriors[i]
        for j in range(ploidy):
            a = genotype[j]
            counts[a] += p
            if j == 0:
                occur[a] += p
            elif a != genotype[j - 1]:
                occur[a] += p
        increment_genotype(genotype)
    return (counts / ploidy, counts, occur)


def alternate_dosage_posteriors(genotype_alleles, probabilities):
    """Extract alternate dosage probabilities based on genotype support."""
    ploidy = len(genotype_alleles)
    support = np.unique(genotype_alleles)
    n_alleles = len(support)
    array = np.zeros(ploidy, dtype=genotype_alleles.dtype)
    remainder = ploidy - n_alleles
    options = list(combinations_with_replacement(support, remainder))
    n_options = len(options)
    probs = np.zeros(n_options, float)
    indices = np.zeros(n_options, int)
    genotypes = np.zeros((n_options, ploidy), int)
    for i, opt in enumerate(options):
        array[0:n_alleles] = support
        array[n_alleles:ploidy] = opt
        array = np.sort(array)
        genotypes[i] = array.copy()
        idx = genotype_alleles_as_index(array)
        indices[i] = idx
        probs[i] = probabilities[idx]
    idx = np.argsort(indices)
    return (genotypes[idx], probs[idx])
