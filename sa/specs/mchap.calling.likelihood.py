"""Reference implementations for mchap.calling.likelihood (parsed, never imported); compared with the code by sa/refspec.py."""


def log_likelihood_alleles(reads, read_counts, haplotypes, genotype_alleles):
    """Log-likelihood function for genotype alleles indexing a set of known haplotypes."""
    return log_likelihood(reads=reads, genotype=haplotypes[genotype_alleles], read_counts=read_counts)


def log_likelihood_alleles_cached(reads, read_counts, haplotypes, genotype_alleles, cache=None):
    """Cached log-likelihood function for genotype alleles indexing a set of known haplotypes. ---------- reads : ndarray, float, shape (n_reads, n_pos, n_nucl)     Probabilistic reads. read_counts : ndarray, int, shape (n_reads, )     Count of each read. haplotypes : ndarray, int, shape (n_haplotypes, n_pos)     Integer encoded haplotypes. genotype_alleles : ndarray, int, shape (ploidy, )     Index of each haplotype in the genotype. cache : dict     Cache of log-likelihoods mapping genotype index (int) to llk (float). Returns ------- llk : float     Log-likelihood."""
    if cache is None:
        llk = log_likelihood_alleles(reads=reads, read_counts=read_counts, haplotypes=haplotypes, genotype_alleles=genotype_alleles)
    else:
        key = genotype_alleles_as_index(np.sort(genotype_alleles))
        if key in cache:
            llk = cache[key]
        else:
            llk = log_likelihood_alleles(reads=reads, read_counts=read_counts, haplotypes=haplotypes, genotype_alleles=genotype_alleles)
            cache[key] = llk
    return llk
