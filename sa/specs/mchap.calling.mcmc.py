"""Reference implementations for mchap.calling.mcmc (parsed, never imported); compared with the code by sa/refspec.py."""


def mh_options(genotype_alleles, variable_allele, haplotypes, reads, read_counts, inbreeding, llks_array, lpriors_array, probabilities_array, frequencies=None, llk_cache=None):
    """Calculate transition probabilities for a Metropolis-Hastings step."""
    current_allele = genotype_alleles[variable_allele]
    n_alleles = len(haplotypes)
    allele_copies = count_allele(genotype_alleles, genotype_alleles[variable_allele])
    lprior = log_genotype_prior(genotype=genotype_alleles, unique_haplotypes=n_alleles, inbreeding=inbreeding, frequencies=frequencies)
    llk = log_likelihood_alleles_cached(reads=reads, read_counts=read_counts, haplotypes=haplotypes, genotype_alleles=genotype_alleles, cache=llk_cache)
    lproposals_array = np.empty(n_alleles)
    for a in range(n_alleles):
        if genotype_alleles[variable_allele] == a:
            lproposals_array[a] = 0.0
            lpriors_array[a] = lprior
            llks_array[a] = llk
        else:
            genotype_alleles[variable_allele] = a
            lpriors_array[a] = log_genotype_prior(genotype=genotype_alleles, unique_haplotypes=n_alleles, inbreeding=inbreeding, frequencies=frequencies)
            llks_array[a] = log_likelihood_alleles_cached(reads=reads, read_counts=read_counts, haplotypes=haplotypes, genotype_alleles=genotype_alleles, cache=llk_cache)
            allele_copies_i = count_allele(genotype_alleles, genotype_alleles[variable_allele])
            lproposals_array[a] = np.log(allele_copies_i / allele_copies)
    mh_ratio = llks_array - llk + (lpriors_array - lprior) + lproposals_array
    probabilities_array[:] = np.exp(np.minimum(0.0, mh_ratio))
    probabilities_array[current_allele] = 0
    probabilities_array /= n_alleles - 1
    probabilities_array[current_allele] = 1 - probabilities_array.sum()
    genotype_alleles[variable_allele] = current_allele
    return None


def gibbs_options(genotype_alleles, variable_allele, haplotypes, reads, read_counts, inbreeding, llks_array, lpriors_array, probabilities_array, frequencies=None, llk_cache=None):
    """Calculate transition probabilities for a Gibbs step."""
    current_allele = genotype_alleles[variable_allele]
    unique_haplotypes = len(haplotypes)
    for a in range(unique_haplotypes):
        genotype_alleles[variable_allele] = a
        lpriors_array[a] = log_genotype_allele_prior(genotype=genotype_alleles, variable_allele=variable_allele, unique_haplotypes=unique_haplotypes, inbreeding=inbreeding, frequencies=frequencies)
        llks_array[a] = log_likelihood_alleles_cached(reads=reads, read_counts=read_counts, haplotypes=haplotypes, genotype_alleles=genotype_alleles, cache=llk_cache)
    probabilities_array[:] = normalise_log_probs(llks_array + lpriors_array)
    genotype_alleles[variable_allele] = current_allele
    return None


def compound_step(genotype_alleles, haplotypes, reads, read_counts, inbreeding, frequencies=None, llk_cache=None, step_type=0):
    """MCMC sampler compound step for calling sample alleles from a set of known haplotypes."""
    ploidy = len(genotype_alleles)
    n_alleles = len(haplotypes)
    lpriors = np.full(n_alleles, np.nan)
    llks = np.full(n_alleles, np.nan)
    probabilities = np.full(n_alleles, np.nan)
    order = np.arange(ploidy)
    np.random.shuffle(order)
    for j in range(ploidy):
        k = order[j]
        if step_type == 0:
            gibbs_options(genotype_alleles=genotype_alleles, variable_allele=k, haplotypes=haplotypes, reads=reads, read_counts=read_counts, inbreeding=inbreeding, llks_array=llks, lpriors_array=lpriors, probabilities_array=probabilities, frequencies=frequencies, llk_cache=llk_cache)
        elif step_type == 1:
            mh_options(genotype_alleles=genotype_alleles, variable_allele=k, haplotypes=haplotypes, reads=reads, read_counts=read_counts, inbreeding=inbreeding, llks_array=llks, lpriors_array=lpriors, probabilities_array=probabilities, frequencies=frequencies, llk_cache=llk_cache)
        else:
            raise ValueError('Unknown MCMC step type.')
        choice = random_choice(probabilities)
        genotype_alleles[k] = choice
    genotype_alleles.sort()
    return llks[choice]


def mcmc_sampler(genotype_alleles, haplotypes, reads, read_counts, inbreeding, frequencies=None, n_steps=1000, cache=False, step_type=0):
    """MCMC simulation for calling sample alleles from a set of known haplotypes."""
    genotype_alleles = genotype_alleles.copy()
    ploidy = len(genotype_alleles)
    genotype_trace = np.empty((n_steps, ploidy), genotype_alleles.dtype)
    llk_trace = np.empty(n_steps, np.float64)
    if cache:
        llk_cache = {}
        llk_cache[-1] = np.nan
    else:
        llk_cache = None
    for i in range(n_steps):
        llk = compound_step(genotype_alleles=genotype_alleles, haplotypes=haplotypes, reads=reads, read_counts=read_counts, inbreeding=inbreeding, frequencies=frequencies, llk_cache=llk_cache, step_type=step_type)
        llk_trace[i] = llk
        genotype_trace[i] = genotype_alleles.copy()
    return (genotype_trace, llk_trace)


def greedy_caller(haplotypes, ploidy, reads, read_counts, inbreeding=0.0, frequencies=None):
    """Greedy method for calling genotype from known haplotypes."""
    n_alleles = len(haplotypes)
    previous_genotype = np.zeros(0, np.int32)
    for i in range(ploidy):
        k = i + 1
        genotype = np.zeros(k, np.int32)
        genotype[0:i] = previous_genotype[0:i]
        best_lprob = -np.inf
        best_allele = -1
        for a in range(n_alleles):
            genotype[i] = a
            llk = log_likelihood_alleles(reads=reads, read_counts=read_counts, haplotypes=haplotypes, genotype_alleles=genotype)
            lprior = log_genotype_prior(genotype=genotype, unique_haplotypes=len(haplotypes), inbreeding=inbreeding, frequencies=frequencies)
            lprob = llk + lprior
            if lprob > best_lprob:
                best_lprob = lprob
                best_allele = a
        genotype[i] = best_allele
        previous_genotype = genotype
    genotype.sort()
    return genotype
