"""Reference implementations for mchap.calling.prior (parsed, never imported); compared with the code by sa/refspec.py."""


def calculate_alphas(inbreeding, frequencies):
    """Calculate dispersion parameter of a Dirichlet-multinomial distribution assuming equal population frequency of each haplotype."""
    return frequencies * ((1 - inbreeding) / inbreeding)


def log_genotype_allele_prior(genotype, variable_allele, unique_haplotypes, inbreeding=0, frequencies=None):
    """Log probability that a genotype contains a specified allele given its other alleles are treated as constants."""
    assert 0 <= inbreeding < 1
    if inbreeding == 0:
        if frequencies is None:
            return np.log(1 / unique_haplotypes)
        else:
            return np.log(frequencies[genotype[variable_allele]])
    constant_sum = len(genotype) - 1
    constant_ibs = count_allele(genotype, genotype[variable_allele]) - 1
    if frequencies is None:
        alpha = calculate_alphas(inbreeding, 1 / unique_haplotypes)
        sum_alpha = constant_sum + alpha * unique_haplotypes
        variable_alpha = alpha + constant_ibs
    else:
        alphas = calculate_alphas(inbreeding, frequencies)
        sum_alpha = constant_sum + alphas.sum()
        variable_alpha = alphas[genotype[variable_allele]] + constant_ibs
    left = lgamma(sum_alpha) - lgamma(1 + sum_alpha)
    right = lgamma(1 + variable_alpha) - lgamma(variable_alpha)
    return left + right


def log_genotype_prior(genotype, unique_haplotypes, inbreeding=0, frequencies=None):
    """Prior probability of an individual genotype"""
    assert 0 <= inbreeding < 1
    ploidy = len(genotype)
    dosage = allelic_dosage(genotype)
    if inbreeding == 0:
        ln_perms = ln_equivalent_permutations(dosage)
        if frequencies is None:
            return ln_perms - ploidy * np.log(unique_haplotypes)
        else:
            lprod = 0.0
            for i in range(ploidy):
                lprod += np.log(frequencies[genotype[i]])
            return ln_perms + lprod
    if frequencies is None:
        alpha_const = calculate_alphas(inbreeding, 1 / unique_haplotypes)
        sum_alphas = alpha_const * unique_haplotypes
    else:
        alphas = calculate_alphas(inbreeding, frequencies)
        sum_alphas = alphas.sum()
    num = lgamma(ploidy + 1) + lgamma(sum_alphas)
    denom = lgamma(ploidy + sum_alphas)
    left = num - denom
    prod = 0.0
    for i in range(ploidy):
        dose = dosage[i]
        if dose > 0:
            if frequencies is None:
                alpha_i = alpha_const
            else:
                alpha_i = alphas[genotype[i]]
            num = lgamma(dose + alpha_i)
            denom = lgamma(dose + 1) + lgamma(alpha_i)
            prod += num - denom
    return left + prod
