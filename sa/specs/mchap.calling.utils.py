"""Reference implementations for mchap.calling.utils (parsed, never imported); compared with the code by sa/refspec.py."""


def allelic_dosage(genotype_alleles):
    """Return the dosage of genotype alleles encoded as integers."""
    ploidy = len(genotype_alleles)
    dosage = np.zeros(ploidy, dtype=genotype_alleles.dtype)
    for i in range(ploidy):
        a = genotype_alleles[i]
        searching = True
        j = 0
        while searching:
            if a == genotype_alleles[j]:
                dosage[j] += 1
                searching = False
            else:
                j += 1
    return dosage


def count_allele(genotype_alleles, allele):
    """Count occurrence of an allele in a genotype."""
    count = 0
    for i in range(len(genotype_alleles)):
        if genotype_alleles[i] == allele:
            count += 1
    return count


def posterior_as_array(observed_genotypes, observed_probabilities, unique_genotypes):
    """Convert observed genotypes and their probabilities to an array of probabilities over all possible genotypes."""
    n_observed, _ = observed_genotypes.shape
    probabilities = np.zeros(unique_genotypes, np.float64)
    for i in range(n_observed):
        genotype = observed_genotypes[i]
        prob = observed_probabilities[i]
        idx = genotype_alleles_as_index(genotype)
        probabilities[idx] = prob
    return probabilities
