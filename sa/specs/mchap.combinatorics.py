"""Reference implementations for mchap.combinatorics (parsed, never imported); compared with the code by sa/refspec.py."""


def count_unique_haplotypes(u_alleles):
    """Calculate the number of unique haplotypes that can exist at a locus given the number of unique alleles at each variable position within the haplotype interval."""
    return np.prod(u_alleles)


def count_unique_genotypes(u_haps, ploidy):
    """Calculates number of possible unique genotypes at a locus given the number of possible unique haplotypes at that locus and a ploidy."""
    return int(comb(u_haps, ploidy, repetition=True, exact=True))


def count_unique_genotype_permutations(u_haps, ploidy):
    """Calculates number of possible genotypes at a locus (including equivilent permutations) given the number of possible unique haplotypes at that locus and a ploidy."""
    return u_haps ** ploidy


def count_haplotype_universial_occurance(u_haps, ploidy):
    """Counts the number of occurances of a haplotype among all possible unique genotypes at a locus."""
    return factorial(u_haps + ploidy - 1) // (factorial(ploidy - 1) * factorial(u_haps))


def count_genotype_permutations(dosage):
    """Counts the total number of equivilent genotype permutations for a single given genotype."""
    ploidy = sum(dosage)
    numerator = factorial(ploidy)
    denominator = 1
    for i in range(len(dosage)):
        denominator *= factorial(dosage[i])
    return numerator // denominator
