"""Reference implementations for mchap.encoding.character.transcode (parsed, never imported); compared with the code by sa/refspec.py."""


def as_allelic(array, alleles=None, dtype=np.int8):
    """Convert an array of allele characters into an array of integers."""
    if not isinstance(array, np.ndarray):
        array = np.asarray(array)
    if np.ndim(array) == 1:
        n_seq, n_pos = (1, len(array))
    else:
        n_seq, n_pos = array.shape[-2:]
    symbols = array.reshape(n_seq, n_pos)
    if alleles is None:
        d = {s: int(s) for s in np.unique(symbols) if s.isdigit()}
        alleles = [d] * n_pos
    else:
        alleles = [{k: v for v, k in enumerate(tup)} for tup in alleles]
    new = np.empty(symbols.shape, dtype=dtype)
    for j in range(n_seq):
        for i in range(n_pos):
            s = symbols[j, i]
            a = alleles[i].get(s, -1)
            new[j, i] = a
    return new.reshape(array.shape)
