"""Reference implementations for mchap.encoding.integer.sequence (parsed, never imported); compared with the code by sa/refspec.py."""


def is_gap(array):
    """Identify gap positions in an integer encoded biological sequence."""
    return array == -1


def is_call(array):
    """Identify non-gap positions in an integer encoded biological sequence."""
    return array >= 0


def is_valid(array):
    """Identify positions of valid values in an integer encoded biological sequence."""
    return array >= -1


def argsort(array):
    """Argsort a set of biological sequences that are encoded as integers."""
    assert array.ndim == 2
    return np.lexsort(np.flip(array, axis=-1).transpose((-1, -2)))


def sort(array):
    """Sort a set of biological sequences that are encoded as integers."""
    return array[argsort(array)]


def depth(array, counts=None):
    """Position-wise depth of a set of biological sequences that are encoded as integers."""
    if counts is None:
        return np.sum(is_call(array), axis=-2)
    else:
        counts = np.expand_dims(counts, -1)
        return np.sum(is_call(array).astype(int) * counts, axis=-2)
