"""Reference implementations for mchap.encoding.integer.transcode (parsed, never imported); compared with the code by sa/refspec.py."""


def as_probabilistic(array, n_alleles=4, p=1.0, error_factor=3, dtype=float):
    """Converts an array of integer encoded alleles to an array of probabilistic row vectors."""
    array = np.asarray(array)
    n_alleles = np.asarray(n_alleles)
    error_factor = np.asarray(error_factor)
    p = np.asarray(p)
    if array.shape[-1] == 0:
        return np.empty(array.shape + (0,), dtype=dtype)
    alleles = np.arange(np.max(n_alleles))
    onehot = array[..., None] == alleles
    new = ((1 - p) / error_factor)[..., None] * ~onehot
    calls = p[..., None] * onehot
    new[onehot] = calls[onehot]
    new[array < 0] = np.nan
    new[..., n_alleles[..., None] <= alleles] = 0
    return new


def vector_as_string(vector, gap='-', alleles=None):
    """Convert a vector of integer encoded alleles to a string."""
    if alleles is None:
        return ''.join((str(a) if a >= 0 else gap for a in vector))
    else:
        return ''.join((alleles[i][a] if a >= 0 else gap for i, a in enumerate(vector)))


def as_strings(array, gap='-', alleles=None):
    """Convert an array of integer encoded alleles into one or more strings."""
    if not isinstance(array, np.ndarray):
        array = np.asarray(array)
    if array.ndim == 1:
        return vector_as_string(array, gap=gap, alleles=alleles)
    shape = array.shape[:-1]
    length = array.shape[-1]
    dtype = 'U{}'.format(length)
    n_seq = np.prod(shape)
    vectors = array.reshape(n_seq, length)
    strings = np.empty(n_seq, dtype=dtype)
    for i in range(n_seq):
        strings[i] = vector_as_string(vectors[i], gap=gap, alleles=alleles)
    return strings.reshape(shape)


def vector_as_characters(vector, gap='-', alleles=None):
    """Convert an array of integer encoded alleles into an array of characters."""
    if alleles is None:
        return np.fromiter((str(a) if a >= 0 else gap for a in vector), dtype='U1', count=len(vector))
    else:
        return np.fromiter((alleles[i][a] if a >= 0 else gap for i, a in enumerate(vector)), dtype='U1', count=len(vector))


def as_characters(array, gap='-', alleles=None):
    """Convert an array of integer encoded alleles into an array of characters."""
    if not isinstance(array, np.ndarray):
        array = np.asarray(array)
    if array.ndim == 1:
        return vector_as_characters(array, gap=gap, alleles=alleles)
    shape = array.shape
    n_seq = np.prod(shape[:-1])
    vectors = array.reshape(n_seq, -1)
    chars = np.empty(vectors.shape, dtype='U1')
    for i in range(n_seq):
        chars[i] = vector_as_characters(vectors[i], gap=gap, alleles=alleles)
    return chars.reshape(shape)


def vector_from_string(string, gaps='-', length=None, dtype=np.int8):
    """Convert a string to an array of integer encoded alleles."""
    if length is None:
        length = len(string)
    vector = np.zeros(length, dtype=dtype) - 1
    for i in range(min(length, len(string))):
        char = string[i]
        if char in gaps:
            vector[i] = -1
        else:
            vector[i] = int(char)
    return vector


def from_strings(data, gaps='-', length=None, dtype=np.int8):
    """Convert a series of strings to an array of integer encoded alleles."""
    if isinstance(data, str):
        return vector_from_string(data, gaps=gaps, length=length, dtype=dtype)
    if isinstance(data, np.ndarray):
        pass
    else:
        data = np.asarray(data)
    sequences = data.ravel()
    if length is None:
        length = max((len(i) for i in sequences))
    n_seq = len(sequences)
    array = np.empty((n_seq, length), dtype=dtype)
    for i in range(n_seq):
        array[i] = vector_from_string(sequences[i], gaps=gaps, length=length, dtype=dtype)
    shape = data.shape + (length,)
    return array.reshape(shape)
