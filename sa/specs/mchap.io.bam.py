"""Reference implementations for mchap.io.bam (parsed, never imported); compared with the code by sa/refspec.py."""


def encode_read_alleles(locus, chars):
    """Encode read characters as integer calls based on a locus."""
    return _as_allelic(chars, alleles=locus.alleles)


def encode_read_distributions(locus, calls, quals=None, error_rate=0.0):
    """Encode allele calls as allele probabilities based on base qual scores and an additional error rate."""
    n_reads, n_pos = calls.shape
    n_alleles = locus.count_alleles()
    if n_reads == 0:
        max_allele = int(np.max(locus.count_alleles(), initial=0))
        encoded = np.empty((n_reads, n_pos, max_allele), dtype=float)
        return encoded
    probs = np.ones(calls.shape, dtype=float) * (1 - error_rate)
    if quals is not None:
        assert calls.shape == quals.shape
        probs *= util.prob_of_qual(quals)
    encoded = _as_probabilistic(calls, n_alleles, probs)
    return encoded


def extract_sample_ids(bam_paths, id='SM', reference_path=None):
    """Extract sample id's from a list of bam files."""
    assert id in ID_TAGS
    data = {}
    for path in bam_paths:
        bam = pysam.AlignmentFile(path, reference_filename=reference_path)
        bam_data = {read_group[id]: path for read_group in bam.header['RG']}
        for sample in bam_data.keys():
            if sample in data:
                raise IOError('Duplicate sample with id = "{}" in file "{}"'.format(sample, path))
        data.update(bam_data)
    return data


def extract_read_variants(locus, alignment_file, samples=None, id='SM', min_quality=20, skip_duplicates=True, skip_qcfail=True, skip_supplementary=True, read_dicts=False):
    """Read variants defined for a locus from an alignment file"""
    assert id in ID_TAGS
    if isinstance(samples, str):
        samples = {samples}
    n_positions = len(locus.positions)
    positions = {pos: i for i, pos in enumerate(locus.positions)}
    data = {}
    sample_keys = {}
    for dictionary in alignment_file.header['RG']:
        sample_key = dictionary[id]
        sample_keys[dictionary['ID']] = sample_key
        if samples and sample_key not in samples:
            pass
        else:
            data[sample_key] = {}
    reads = alignment_file.fetch(locus.contig, locus.start, locus.stop)
    for read in reads:
        if read.is_unmapped:
            pass
        elif read.mapping_quality < min_quality:
            pass
        elif read.is_duplicate and skip_duplicates:
            pass
        elif read.is_qcfail and skip_qcfail:
            pass
        elif read.is_supplementary and skip_supplementary:
            pass
        else:
            sample_key = sample_keys[read.get_tag('RG')]
            if samples and sample_key not in samples:
                pass
            else:
                sample_data = data[sample_key]
                if read.qname not in sample_data:
                    chars = np.empty(n_positions, dtype='U1')
                    chars[:] = '-'
                    quals = np.zeros(n_positions, dtype=np.int16)
                    sample_data[read.qname] = [chars, quals]
                else:
                    chars, quals = sample_data[read.qname]
                for read_pos, ref_pos, ref_char in read.get_aligned_pairs(matches_only=True, with_seq=True):
                    if ref_pos in positions:
                        idx = positions[ref_pos]
                        if locus.alleles[idx][0].upper() != ref_char.upper():
                            path = alignment_file.filename.decode()
                            locus_ref_char = locus.alleles[idx][0]
                            locus_contig = locus.contig
                            locus_name = locus.name
                            vcf_pos = ref_pos + 1
                            if locus_name:
                                loc = f"'{locus_contig}:{vcf_pos}' in target '{locus_name}'"
                            else:
                                loc = f"'{locus_contig}:{vcf_pos}'"
                            raise ValueError(f"Reference allele of variant '{locus_ref_char}' does not match alignment reference allele '{ref_char}' at position {loc} in '{path}'")
                        char = read.seq[read_pos]
                        qual = util.qual_of_char(read.qual[read_pos])
                        if chars[idx] == '-':
                            chars[idx] = char
                            quals[idx] = qual
                        elif chars[idx] == char:
                            quals[idx] += qual
                        else:
                            chars[idx] = 'N'
                            quals[idx] += 0
    if read_dicts:
        pass
    else:
        for id, reads in data.items():
            tuples = list(reads.values())
            if len(tuples) == 0:
                n_pos = len(locus.positions)
                chars = np.empty((0, n_pos), dtype='U1')
                quals = np.empty((0, n_pos), dtype=np.int16)
            else:
                chars = np.array([tup[0] for tup in tuples])
                quals = np.array([tup[1] for tup in tuples])
            data[id] = (chars, quals)
    return data
