"""Reference implementations for mchap.io.filter_alleles (parsed, never imported); compared with the code by sa/refspec.py."""


def parse_allele_filter(string):
    """Parse a simple filter string of the form <field><operator><value>."""
    pattern = '^(\\w+)(=|>|<|==|!=|>=|<|<=|<>)(\\d*[.,]?\\d*)$'
    match = re.search(pattern, string)
    if match:
        field = match.group(1)
        operator = match.group(2)
        if operator in _COMPARATOR:
            operator = _COMPARATOR[operator]
        else:
            raise ValueError(f"Invalid operator in allele filter '{operator}'")
        value = match.group(3)
        try:
            value = int(value)
        except ValueError:
            try:
                value = float(value)
            except ValueError:
                raise ValueError(f"Non-numerical value in allele filter '{value}'")
    else:
        raise ValueError(f"Invalid allele filter '{string}'")
    return (field, operator, value)


def apply_allele_filter(record, field, func, value):
    """Apply a simple allele filter to a VCF record."""
    meta = record.header.info.get(field)
    if meta is None:
        raise ValueError(f"Allele filter field not found in header '{field}'")
    length = meta.number
    if length not in {'R', 'A'}:
        raise ValueError(f"Allele filter of field of invalid length '{length}'")
    alts = record.alts
    if alts is None:
        n_alts = 0
    else:
        n_alts = len(alts)
    observations = record.info.get(field)
    if meta.type == 'Float' and observations is not None and (None not in observations):
        observations = np.array(observations, dtype=np.float32)
        value = np.float32(value)
    if observations is None or None in observations:
        keep = np.ones(1 + n_alts, dtype=bool)
    elif length == 'R':
        assert len(observations) == 1 + n_alts
        keep = func(observations, value)
    elif length == 'A':
        assert len(observations) == n_alts
        keep = np.ones(1 + n_alts, dtype=bool)
        keep[1:] = func(observations, value)
    return keep
