"""Reference implementations for mchap.io.loci (parsed, never imported); compared with the code by sa/refspec.py."""


def _parse_bed4_line(line):
    line = line.split()
    contig = line[0].strip()
    start = int(line[1].strip())
    stop = int(line[2].strip())
    if len(line) > 3:
        name = line[3].strip()
    else:
        name = None
    return Locus(contig=contig, start=start, stop=stop, name=name, sequence=None, variants=None)


def read_bed4(bed, region=None):
    if region:
        if isinstance(region, str):
            region = (region,)
        with pysam.TabixFile(bed) as tbx:
            for line in tbx.fetch(*region):
                yield _parse_bed4_line(line)
    else:
        with open(bed, 'rb') as f:
            token = f.read(3)
            f.seek(0)
            if token == b'\x1f\x8b\x08':
                f = gzip.GzipFile(fileobj=f)
            else:
                pass
            for line in f:
                if line.startswith(b'#'):
                    pass
                else:
                    yield _parse_bed4_line(line.decode())


def _merge_snps(x, y):
    match = [x.contig == y.contig, x.name == y.name, x.start == y.start, x.stop == y.stop, x.alleles[0] == y.alleles[0]]
    if not all(match):
        x_str = '{}: {}:{}'.format(x.name, x.contig, x.start)
        y_str = '{}: {}:{}'.format(y.name, y.contig, y.start)
        message = 'Cannot merge SNPs "{}" and "{}"'.format(x_str, y_str)
        raise ValueError(message)
    alleles = x.alleles
    alleles += tuple((a for a in y.alleles if a not in alleles))
    return SNP(contig=x.contig, start=x.start, stop=x.stop, name=x.name, alleles=alleles)


class Locus:
    def positions(self):

        return [v.start for v in self.variants]



    def alleles(self):

        return [v.alleles for v in self.variants]



    def range(self):

        return range(self.start, self.stop)



    def count_alleles(self):

        return [len(tup) for tup in self.alleles]



    def as_dict(self):

        return dict(contig=self.contig, start=self.start, stop=self.stop, name=self.name, sequence=self.sequence, variants=self.variants)



    def set(self, **kwargs):

        data = self.as_dict()

        data.update(kwargs)

        return type(self)(**data)



    def validate_reference_alleles(self):

        sequence_chars = list(self.sequence)

        ref_alleles = (tup[0] for tup in self.alleles)

        for pos, char in zip(self.positions, ref_alleles):

            idx = pos - self.start

            seq_char = sequence_chars[idx]

            if seq_char != char:

                contig = self.contig

                name = self.name

                vcf_pos = pos + 1

                if name:

                    loc = f"'{contig}:{vcf_pos}' in target '{name}'"

                else:

                    loc = f"'{contig}:{vcf_pos}'"

                raise ValueError(f"Reference allele of variant '{char}' does not match reference sequence '{seq_char}' at {loc}")






    def set_variants(self, vcf):

        with pysam.VariantFile(vcf) as f:

            variants = []

            positions = set()

            try:

                records = f.fetch(self.contig, self.start, self.stop)

            except ValueError as e:

                if 'fetch requires an index' in e.args:

                    raise ValueError(f"Could not fetch variants from file '{vcf}', the file is not indexed") from e

                else:

                    raise e

            for var in records:

                alleles = (var.ref,) + var.alts

                if var.stop - var.start == 1 and all((len(a) == 1 for a in alleles)):

                    snp = SNP(contig=var.contig, start=var.start, stop=var.stop, name=var.id if var.id else '.', alleles=alleles)

                    if snp.start in positions:

                        variants = [_merge_snps(s, snp) if s.start == snp.start else s for s in variants]

                    else:

                        variants.append(snp)

                        positions.add(snp.start)

                else:

                    pass

            variants = tuple(variants)

            locus = self.set(variants=variants)

            if locus.sequence:

                locus.validate_reference_alleles()

            return locus



    def _template_sequence(self):

        chars = list(self.sequence)

        for pos in self.positions:

            idx = pos - self.start

            chars[idx] = ''

            chars[idx] = '{}'

        return ''.join(chars)



    def format_haplotypes(self, array, gap='-'):

        """Format integer encoded alleles as a haplotype string"""

        variants = integer.as_characters(array, gap=gap, alleles=self.alleles)

        template = self._template_sequence()

        return [template.format(*hap) for hap in variants]



    def format_variants(self, array, gap='-'):

        """Format integer encoded alleles as a haplotype string"""

        return integer.as_characters(array, gap=gap, alleles=self.alleles)



    def from_region_string(cls, string, name=None):

        contig, interval = string.strip().split(':')

        start, stop = interval.strip().split('-')

        return cls(contig=contig, start=int(start), stop=int(stop), name=name, sequence=None, variants=None)


class LocusPrior:
    def set(self):

        raise NotImplementedError



    def set_sequence(self):

        raise NotImplementedError



    def set_variants(self):

        raise NotImplementedError



    def encode_haplotypes(self):

        strings = (self.sequence,) + self.alts

        chars = np.array([list(string) for string in strings])

        idx = np.array(self.positions) - self.start

        if len(idx) == 0:

            return np.zeros((len(strings), 0), dtype=int)

        return character.as_allelic(chars[:, idx], self.alleles)


class LocusPrior:
    def from_variant_record(cls, record, use_snvpos=False, frequency_tag=None, allele_filter=None, masked_reference_flag='REFMASKED'):

        """Generate a locusPrior object with reference and variants from a known MNP."""

        ref_length = len(record.ref)

        if record.alts:

            assert all((ref_length == len(alt) for alt in record.alts))

            alts = record.alts

        else:

            alts = ()

        mask_reference_allele = masked_reference_flag in record.info

        if allele_filter is not None:

            filter_args = parse_allele_filter(allele_filter)

            keep = apply_allele_filter(record, *filter_args)

            if keep[0]:

                pass

            else:

                mask_reference_allele = True

                keep[0] = True

        n_alleles = len(alts) + 1

        if frequency_tag:

            frequencies = record.info.get(frequency_tag, ())

            if len(frequencies) != n_alleles:

                raise ValueError(f"Field '{frequency_tag}' does not match number of alleles 'n_alleles'.")

            frequencies = np.array(frequencies, dtype=float)

        else:

            frequencies = np.ones(n_alleles) / n_alleles

        if mask_reference_allele:

            frequencies[0] = 0

        sequences = (record.ref,)

        sequences += alts

        if allele_filter is not None:

            assert keep[0]

            sequences = tuple((s for s, k in zip(sequences, keep) if k))

            frequencies = frequencies[keep]

            n_alleles = keep.sum()

        denom = frequencies.sum()

        if denom > 0:

            frequencies /= denom

        else:

            frequencies[:] = np.nan

        haplotypes = np.array([list(var) for var in sequences])

        if use_snvpos:

            snvpos = record.info['SNVPOS']

            if snvpos == (None,):

                snvpos = ()

            positions = np.array(snvpos, int) - 1

        else:

            positions = np.where((haplotypes != haplotypes[0:1]).any(axis=0))[0]

        snp_alleles = haplotypes[:, positions].T

        snps = []

        for offset, alleles in zip(positions, snp_alleles):

            _, idx = np.unique(alleles, return_index=True)

            idx.sort()

            alleles = tuple(alleles[idx])

            pos = offset + record.start

            snps.append(SNP(record.chrom, pos, pos + 1, '.', alleles=alleles))

        return cls(contig=record.chrom, start=record.start, stop=record.stop, name=record.id if record.id else '.', sequence=record.ref, variants=tuple(snps), alts=sequences[1:], frequencies=frequencies, mask_reference_allele=mask_reference_allele)


class Locus:
    def set_sequence(self, fasta):

        with pysam.FastaFile(fasta) as f:

            sequence = f.fetch(self.contig, self.start, self.stop).upper()

            if len(sequence) != self.stop - self.start:

                raise ValueError(f"Locus '{self.contig}:{self.start}-{self.stop}' extends beyond the reference sequence")

            locus = self.set(sequence=sequence)

            if locus.variants:

                locus.validate_reference_alleles()

            return locus
