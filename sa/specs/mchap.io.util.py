"""Reference implementations for mchap.io.util (parsed, never imported); compared with the code by sa/refspec.py."""


def qual_of_char(char):
    """Convert unicode characters of a qual string into an integer value."""
    if isinstance(char, str):
        qual = ord(char) - 33
        return qual
    elif isinstance(char, np.ndarray):
        if char.dtype == np.dtype('<U1'):
            qual = char.copy()
            qual.dtype = np.int32
            qual -= 33
            return qual
        else:
            raise ValueError('Array must have dtype "<U1"')
    else:
        raise ValueError('Input must be character or array of characters')


def prob_of_qual(qual):
    """Convert phred-scaled quality integer into a probability of the call being correct."""
    return 1 - 10 ** (qual / -10)


def qual_of_prob(prob, precision=6):
    """Convert a probability of a call being correct into a phred-scaled quality integer."""
    maximum = 1 - 0.1 ** precision
    if np.shape(prob) == ():
        if prob > maximum:
            prob = maximum
        else:
            pass
    else:
        prob = np.array([maximum if p > maximum else p for p in prob])
    prob = np.floor(prob * 10 ** precision) / 10 ** precision
    return np.round(-10 * np.log10(1 - prob)).astype(int)
