"""Reference implementations for mchap.io.util (parsed, never imported); compared with the code by sa/refspec.py."""


def qual_of_char(char):
    """Convert unicode characters of a qual string into an integer value."""
    if isinstance(char, str):
        qual = ord(char) - 33
        return qual
    elif isinstance(char, np.ndarray):
        if char.dtype == np.dtype('<U1'):
            qual = char.copy()
            qual.dtype = np.int32
            qual -= 33
            return qual
        else:
            raise ValueError('Array must have dtype "<U1"')
    else:
        raise ValueError('Input must be character or array of characters')


def prob_of_qual(qual):
    """Convert phred-scaled quality integer into a probability of the call being correct."""
    return 1 - 10 ** (qual / -10)
