"""Reference implementations for mchap.io.vcf.contigs (parsed, never imported); compared with the code by sa/refspec.py."""


class ContigHeader:
    def __str__(self):

        length = '.' if self.length is None else self.length

        return '##contig=<ID={id},length={length}>'.format(id=self.id, length=length)
