"""Reference implementations for mchap.io.vcf.filters (parsed, never imported); compared with the code by sa/refspec.py."""


class VariantFilter:
    def __str__(self):

        template = '##FILTER=<ID={id},Description="{descr}">'

        return template.format(id=self.id, descr=self.descr)
