"""Reference implementations for mchap.io.vcf.formatfields (parsed, never imported); compared with the code by sa/refspec.py."""


class FormatField:
    def __str__(self):

        template = '##FORMAT=<ID={id},Number={number},Type={type},Description="{descr}">'

        return template.format(id=self.id, number=self.number, type=self.type, descr=self.descr)
