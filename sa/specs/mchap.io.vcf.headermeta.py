"""Reference implementations for mchap.io.vcf.headermeta (parsed, never imported); compared with the code by sa/refspec.py."""


def columns(samples):
    cols = ['CHROM', 'POS', 'ID', 'REF', 'ALT', 'QUAL', 'FILTER', 'INFO', 'FORMAT']
    return '#' + '\t'.join(cols) + '\t' + '\t'.join(samples)


def commandline(command):
    if not isinstance(command, str):
        command = '"{}"'.format(' '.join(command))
    return MetaHeader('commandline', command)


def filedate(date=None):
    if date is None:
        date = _date.today()
        year = str(date.year)
        month = str(date.month)
        day = str(date.day)
        month = '0' + month if len(month) == 1 else month
        day = '0' + day if len(day) == 1 else day
    date = '{}{}{}'.format(year, month, day)
    return MetaHeader('fileDate', date)


def fileformat(version):
    return MetaHeader('fileformat', 'VCF{}'.format(version))


def phasing(string):
    return MetaHeader('phasing', string)


def randomseed(seed):
    return MetaHeader('randomseed', str(seed))


def reference(path):
    return MetaHeader('reference', 'file:{}'.format(path))


def source(source=None):
    if source is None:
        source = 'mchap v{}'.format(version.__version__)
    return MetaHeader('source', source)


class ContigHeader:
    def __str__(self):

        length = '.' if self.length is None else self.length

        return '##contig=<ID={id},length={length}>'.format(id=self.id, length=length)


class MetaHeader:
    def __str__(self):

        return '##{id}={descr}'.format(id=self.id, descr=self.descr)
