"""Reference implementations for mchap.io.vcf.infofields (parsed, never imported); compared with the code by sa/refspec.py."""


class InfoField:
    def __str__(self):

        template = '##INFO=<ID={id},Number={number},Type={type},Description="{descr}">'

        return template.format(id=self.id, number=self.number, type=self.type, descr=self.descr)
