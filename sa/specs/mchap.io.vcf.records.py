"""Reference implementations for mchap.io.vcf.records (parsed, never imported); compared with the code by sa/refspec.py."""


def format_info_field(precision=3, **kwargs):
    """Format key-value pairs into a VCF info field."""
    template = '{}={}'
    parts = []
    for k, v in kwargs.items():
        if isinstance(v, bool):
            if v is True:
                parts.append(k)
        else:
            parts.append(template.format(k, vcfstr(v, precision=precision)))
    return ';'.join(parts)


def format_sample_field(precision=3, **kwargs):
    """Format key-value pairs into a VCF format field."""
    genotypes = kwargs['GT']
    kwargs['GT'] = ['/'.join([str(a) if a >= 0 else '.' for a in g]) for g in genotypes]
    fields, arrays = zip(*kwargs.items())
    fields = ':'.join(fields)
    lengths = np.array([len(a) for a in arrays])
    length = lengths[0]
    assert np.all(lengths == length)
    sample_data = np.empty(length, dtype='O')
    for i in range(length):
        sample_data[i] = ':'.join((vcfstr(a[i], precision=precision) for a in arrays))
    sample_data = '\t'.join(sample_data)
    return '{}\t{}'.format(fields, sample_data)


def format_record(chrom, pos, id, ref, alt, qual, filter, info, format, precision=3):
    """Format a VCF record line."""
    fields = [chrom, pos, id, ref, alt, qual, filter, info, format]
    return '\t'.join((vcfstr(f, precision=precision) for f in fields))
