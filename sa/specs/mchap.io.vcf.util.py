"""Reference implementations for mchap.io.vcf.util (parsed, never imported); compared with the code by sa/refspec.py."""


def vcfstr(obj, precision=3):
    if isinstance(obj, np.ndarray):
        if len(obj) == 0:
            return '.'
        elif np.issubdtype(obj.dtype, np.floating):
            obj = obj.round(precision)
            string = ','.join(obj.astype('U16')).replace('nan', '.').replace('.0,', ',')
            if string[-2:] == '.0':
                return string[:-2]
            else:
                return string
        elif np.issubdtype(obj.dtype, np.integer):
            return ','.join(obj.astype('U16'))
    if isinstance(obj, str):
        if obj:
            return obj
        else:
            return '.'
    elif hasattr(obj, '__iter__'):
        if len(obj) == 0:
            return '.'
        else:
            return ','.join(map(vcfstr, obj))
    elif obj is None:
        return '.'
    elif isinstance(obj, float):
        if np.isnan(obj):
            return '.'
        obj = np.round(obj, precision)
        i = int(obj)
        if i == obj:
            return str(i)
        else:
            return str(obj)
    else:
        return str(obj)
