"""Reference implementations for mchap/jitutils.py (parsed, never imported).  Written from the numpy-style docstrings of the
helpers and from the mathematics they name; compared with the code by sa/refspec.py."""


def add_log_prob(x, y):
    """log(exp(x) + exp(y)), evaluated around the larger argument; -inf for two -inf"""
    if (y == x) and (-np.inf == y):
        return -np.inf
    if y < x:
        big, small = x, y
        return big + np.log1p(np.exp(small - big))
    return y + np.log1p(np.exp(x - y))


def sum_log_probs(array):
    """log of the sum of exp(array[i]) over all entries, folded left to right with add_log_prob"""
    total = array[0]
    for k in range(1, len(array)):
        total = add_log_prob(total, array[k])
    return total


def normalise_log_probs(llks):
    """exp(llks[i] - log sum exp(llks)) for every i"""
    size = len(llks)
    out = np.empty(size)
    z = sum_log_probs(llks)
    for i in range(size):
        out[i] = np.exp(llks[i] - z)
    return out


def random_choice(probabilities):
    """inverse-cdf draw: the first index whose cumulative probability exceeds one uniform variate"""
    u = np.random.random()
    cdf = np.cumsum(probabilities)
    return np.searchsorted(cdf, u, side="right")


def greedy_choice(probabilities):
    """index of the largest probability"""
    return np.argmax(probabilities)


def increment_genotype(genotype):
    """next sorted allele tuple in VCF order: bump the first position whose right neighbour is larger (the last position if
    all are equal) and reset everything to its left to zero"""
    n = len(genotype)
    if n == 1:
        genotype[0] += 1
        return
    first = genotype[0]
    for i in range(1, n):
        a = genotype[i]
        if a == first:
            continue
        if a > first:
            i -= 1
            genotype[i] += 1
            genotype[0:i] = 0
            return
        raise ValueError("genotype alleles are not in ascending order")
    genotype[-1] += 1
    genotype[0:-1] = 0


def ln_equivalent_permutations(dosage):
    """log multinomial coefficient  lgamma(sum d + 1) - sum_i lgamma(d_i + 1)"""
    below = 0.0
    for k in range(len(dosage)):
        below += math.lgamma(1 + dosage[k])
    n = np.sum(dosage)
    return math.lgamma(1 + n) - below


def natural_log_to_log10(x):
    """x * log10(e)"""
    return np.log10(np.exp(1)) * x


def seed_numba(seed):
    """seed numba's own generator"""
    np.random.seed(seed)


def _greatest_common_denominatior(x, y):
    """Euclid"""
    while y != 0:
        x, y = y, x % y
    return x


def _comb(n, k):
    """binomial coefficient C(n, k) by the multiplicative formula over min(k, n - k) factors (the running product is then at most
    k times the result, so it is exact whenever the result is below 2**53); each step divides by gcd first so that the
    running product stays an exact integer"""
    if n < 0:
        raise ValueError("n must be a non-negative integer")
    if k < 0:
        raise ValueError("k must be a non-negative integer")
    if n < k:
        return 0
    k = min(k, n - k)
    acc = 1
    for d in range(1, k + 1):
        g = _greatest_common_denominatior(acc, d)
        acc = acc // g
        acc = acc * n
        acc = acc // (d // g)
        n = n - 1
    return acc


def comb(n, k):
    """table look-up strictly inside the table, otherwise the function that filled it"""
    rows, cols = _COMB_CACHE.shape
    if (n < rows) and (k < cols):
        return _COMB_CACHE[n, k]
    return _comb(n, k)


def _comb_with_replacement(n, k):
    """multiset coefficient C(n + k - 1, k)"""
    if n < 0:
        raise ValueError("n must be a non-negative integer")
    if (n == 0) and (k == 0):
        return 0
    return comb(n + k - 1, k)


def comb_with_replacement(n, k):
    """table look-up strictly inside the table, otherwise the function that filled it"""
    rows, cols = _COMB_WITH_REPLACEMENT_CACHE.shape
    if (n < rows) and (k < cols):
        return _COMB_WITH_REPLACEMENT_CACHE[n, k]
    return _comb_with_replacement(n, k)


def genotype_alleles_as_index(alleles):
    """combinatorial number system: sum_i C(a_i + i, i + 1) over the sorted alleles (VCF genotype ordering)"""
    total = 0
    for i in range(len(alleles)):
        allele = alleles[i]
        if allele >= 0:
            total += comb_with_replacement(allele, i + 1)
        elif allele < 0:
            raise ValueError("Allele numbers must be >= 0.")
    return total


def index_as_genotype_alleles(index, ploidy):
    """inverse of genotype_alleles_as_index: from the last position down, the largest allele whose multiset coefficient
    does not exceed what is left"""
    out = np.full(ploidy, -2, np.int64)
    if index < 0:
        out[:ploidy] = -1
        return
    left = index
    for index in range(ploidy):
        pos = ploidy - index
        a = -1
        nxt = 0
        cur = 0
        while nxt <= left:
            a += 1
            cur = nxt
            nxt = comb_with_replacement(a, pos)
        a -= 1
        left -= cur
        out[pos - 1] = a
    return out


def array_equal(x, y, interval=None):
    """all positions (of the interval, if given) equal"""
    if interval is None:
        span = range(len(x))
    else:
        span = range(interval[0], interval[1])
    for k in span:
        if x[k] != y[k]:
            return False
    return True


def count_haplotype_copies(genotype, h):
    """number of rows equal to row h, row h included"""
    n = 1
    for i in range(len(genotype)):
        if i != h:
            if array_equal(genotype[i], genotype[h]):
                n += 1
    return n


def get_haplotype_dosage(dosage, genotype, interval=None):
    """dosage[h] = number of copies of row h at its first occurrence, 0 at later occurrences"""
    dosage[:] = 1
    ploidy, _ = genotype.shape
    for h in range(ploidy):
        if dosage[h] != 0:
            for p in range(h + 1, ploidy):
                if dosage[p] != 0:
                    if array_equal(genotype[h], genotype[p], interval=interval):
                        dosage[h] += 1
                        dosage[p] = 0


def set_haplotype_dosage(genotype, dosage):
    """copy rows with dosage > 1 over rows with dosage 0 until every dosage is met"""
    dosage = dosage.copy()
    ploidy = len(genotype)
    h_y = 0
    for h_x in range(ploidy):
        while dosage[h_x] > 1:
            for h_y in range(h_y, ploidy):
                if dosage[h_y] == 0:
                    genotype[h_y] = genotype[h_x]
                    dosage[h_x] -= 1
                    dosage[h_y] += 1


def sample_snv_alleles(array, dtype=np.int8):
    """one inverse-cdf draw per position from the normalised last axis"""
    shape = array.shape[0:-1]
    array = array.reshape(-1, array.shape[-1])
    totals = np.sum(array, axis=-1)
    dists = array / np.expand_dims(totals, -1)
    n = len(dists)
    alleles = np.empty(n, dtype=dtype)
    for i in range(n):
        alleles[i] = random_choice(dists[i])
    return alleles.reshape(shape)


def structural_change(genotype, haplotype_indices, interval=None):
    """Mutate genotype by re-arranging haplotypes within a given interval."""
    ploidy, n_base = genotype.shape
    cache = np.empty(ploidy, dtype=np.int8)
    if interval is None:
        r = range(n_base)
    else:
        r = range(interval[0], interval[1])
    for j in r:
        for h in range(ploidy):
            cache[h] = genotype[h, j]
        for h in range(ploidy):
            genotype[h, j] = cache[haplotype_indices[h]]
