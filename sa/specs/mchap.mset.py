"""Reference implementations for mchap.mset (parsed, never imported); compared with the code by sa/refspec.py."""


def unique_idx(array):
    """Return the index of the first occurance of each unique element within the outer dimention of an array."""
    strings = {a.tobytes() for a in array}
    idx = np.zeros(len(array)).astype(bool)
    for i in range(len(idx)):
        string = array[i].tobytes()
        if string in strings:
            strings -= {string}
            idx[i] = True
    return idx


def unique(array):
    """Return the unique elements within the outer dimention of an array."""
    return array[unique_idx(array)]


def categorize(array, categories):
    """Label the elements of an array using the elements of a second array as categories."""
    assert categories.ndim == array.ndim
    assert categories.dtype == array.dtype
    labels = {}
    for i, cat in enumerate(categories):
        labels[cat.tobytes()] = i
    labeled = np.empty(len(array), int)
    for i, a in enumerate(array):
        label = labels.get(a.tobytes(), -1)
        labeled[i] = label
    return labeled


def count(array, categories):
    """Count the occurance of each element of a category array within an input array."""
    assert categories.ndim == array.ndim
    assert categories.dtype == array.dtype
    strings = _Counter((a.tobytes() for a in array))
    counts = np.zeros(len(categories), dtype=int)
    for i, cat in enumerate(categories):
        string = cat.tobytes()
        if string in strings:
            counts[i] = strings[string]
        else:
            counts[i] = 0
    return counts


def unique_counts(array, order=None):
    """Count the unique elements of an array where the elements may be sub-arrays."""
    assert order in {'ascending', 'descending', None}
    cats = unique(array)
    counts = count(array, cats)
    if order is None:
        return (cats, counts)
    idx = np.argsort(counts)
    if order == 'descending':
        idx = np.flip(idx, axis=0)
    return (cats[idx], counts[idx])


def intercept(array_x, array_y):
    """Multi-set intercept of a pair of n-dimentional arrays."""
    assert array_x.ndim == array_y.ndim
    assert array_x.dtype == array_y.dtype
    element_shape = array_x.shape[1:]
    x_map = {element.tobytes(): element for element in array_x}
    x_counts = _Counter((element.tobytes() for element in array_x))
    y_counts = _Counter((element.tobytes() for element in array_y))
    counts = x_counts & y_counts
    shape = (sum(counts.values()), *element_shape)
    result = np.empty(shape, array_x.dtype)
    i = 0
    for k, v in counts.items():
        for _ in range(v):
            result[i] = x_map[k].copy()
            i += 1
    return result


def union(array_x, array_y):
    """Multi-set union of a pair of n-dimentional arrays."""
    assert array_x.ndim == array_y.ndim
    assert array_x.dtype == array_y.dtype
    element_shape = array_x.shape[1:]
    u_map = {element.tobytes(): element for element in array_x}
    u_map.update({element.tobytes(): element for element in array_y})
    x_counts = _Counter((element.tobytes() for element in array_x))
    y_counts = _Counter((element.tobytes() for element in array_y))
    counts = x_counts | y_counts
    shape = (sum(counts.values()), *element_shape)
    result = np.zeros(shape, array_x.dtype)
    i = 0
    for k, v in counts.items():
        for _ in range(v):
            result[i] = u_map[k].copy()
            i += 1
    return result
