"""Reference implementations for mchap.pedigree.classes (parsed, never imported); compared with the code by sa/refspec.py."""


def _trace_incongruence(trace, sample_ploidy, sample_parents, gamete_tau, gamete_lambda):
    n_obs, n_samples, _ = trace.shape
    assert sample_ploidy.shape == (n_samples,)
    assert sample_parents.shape == (n_samples, 2)
    assert gamete_tau.shape == (n_samples, 2)
    assert gamete_lambda.shape == (n_samples, 2)
    out = np.zeros(n_samples)
    for o in range(n_obs):
        for i in range(n_samples):
            p, q = (sample_parents[i, 0], sample_parents[i, 1])
            if p < 0 and q < 0:
                valid = True
            elif p < 0:
                valid = duo_valid(progeny=trace[o, i][0:sample_ploidy[i]], parent=trace[o, q][0:sample_ploidy[q]], tau=gamete_tau[i, 1], lambda_=gamete_lambda[i, 1])
            elif q < 0:
                valid = duo_valid(progeny=trace[o, i][0:sample_ploidy[i]], parent=trace[o, p][0:sample_ploidy[p]], tau=gamete_tau[i, 0], lambda_=gamete_lambda[i, 0])
            else:
                valid = trio_valid(progeny=trace[o, i][0:sample_ploidy[i]], parent_p=trace[o, p][0:sample_ploidy[p]], parent_q=trace[o, q][0:sample_ploidy[q]], tau_p=gamete_tau[i, 0], tau_q=gamete_tau[i, 1], lambda_p=gamete_lambda[i, 0], lambda_q=gamete_lambda[i, 1])
            if not valid:
                out[i] += 1
    out /= n_obs
    return out


class PedigreeAllelesMultiTrace:
    def burn(self, n):

        new = type(self)(self.genotypes[:, n:], n_allele=self.n_allele)

        return new



    def individual(self, index):

        sample_trace = self.genotypes[:, :, index, :]

        ploidy = (sample_trace[0, 0] >= 0).sum()

        return GenotypeAllelesMultiTrace(sample_trace[:, :, 0:ploidy], np.full(self.genotypes.shape[0:2], np.nan), n_allele=self.n_allele)



    def incongruence(self, sample_ploidy, sample_parents, gamete_tau, gamete_lambda):

        trace = self.genotypes

        n_chains, n_steps, n_samples, max_ploidy = trace.shape

        trace = trace.reshape(n_chains * n_steps, n_samples, max_ploidy)

        return _trace_incongruence(trace, sample_ploidy, sample_parents, gamete_tau, gamete_lambda)


class PedigreeCallingMCMC:
    def fit(self, sample_reads, sample_read_counts, initial=None):

        n_samples = len(self.sample_ploidy)

        max_ploidy = self.sample_ploidy.max()

        if self.random_seed is not None:

            np.random.seed(self.random_seed)

            seed_numba(self.random_seed)

        if initial is None:

            initial = np.full((n_samples, max_ploidy), -1, np.int16)

            for i in range(n_samples):

                genotype = greedy_caller(haplotypes=self.haplotypes, ploidy=self.sample_ploidy[i], reads=sample_reads[i], read_counts=sample_read_counts[i], inbreeding=self.sample_inbreeding[i])

                initial[i][0:self.sample_ploidy[i]] = genotype

        else:

            initial = np.array(initial).copy()

        if self.step_type == 'Gibbs':

            step_type = 0

        elif self.step_type == 'Metropolis-Hastings':

            step_type = 1

        else:

            raise ValueError('MCMC step type must be "Gibbs" or "Metropolis-Hastings"')

        if self.frequencies is None:

            n_haplotypes = len(self.haplotypes)

            log_frequencies = np.log(np.full(n_haplotypes, 1 / n_haplotypes))

        else:

            log_frequencies = np.log(self.frequencies)

            assert len(log_frequencies) == len(self.haplotypes)

        shape = (self.chains, self.steps, n_samples, max_ploidy)

        trace = np.empty(shape=shape, dtype=np.int16)

        for i in range(self.chains):

            trace[i] = mcmc_sampler(sample_genotypes=initial, sample_ploidy=self.sample_ploidy, sample_parents=self.sample_parents, gamete_tau=self.gamete_tau, gamete_lambda=self.gamete_lambda, gamete_error=self.gamete_error, sample_read_dists=sample_reads, sample_read_counts=sample_read_counts, haplotypes=self.haplotypes, log_frequencies=log_frequencies, n_steps=self.steps, annealing=self.annealing, step_type=step_type, swap_parental_alleles=self.swap_parental_alleles)

        return PedigreeAllelesMultiTrace(trace, n_allele=len(self.haplotypes))
