"""Reference implementations for mchap.pedigree.likelihood (parsed, never imported); compared with the code by sa/refspec.py."""


def log_likelihood_alleles_cached(reads, read_counts, haplotypes, sample, genotype_alleles, cache=None):
    """Cached log-likelihood function for pedigree-based calling of genotypes."""
    genotype_index = genotype_alleles_as_index(genotype_alleles)
    if cache is None:
        idx = read_counts > 0
        llk = log_likelihood(reads=reads[idx], genotype=haplotypes[genotype_alleles], read_counts=read_counts[idx])
    else:
        key = (sample, genotype_index)
        if key in cache:
            llk = cache[key]
        else:
            idx = read_counts > 0
            llk = log_likelihood(reads=reads[idx], genotype=haplotypes[genotype_alleles], read_counts=read_counts[idx])
            cache[key] = llk
    return llk
