"""Reference implementations for mchap.pedigree.mcmc (parsed, never imported); compared with the code by sa/refspec.py."""


def sample_step(target_index, sample_genotypes, sample_ploidy, sample_parents, sample_children, gamete_tau, gamete_lambda, gamete_error, sample_read_dists, sample_read_counts, haplotypes, log_frequencies, llk_cache, step_type, dosage, dosage_p, dosage_q, gamete_p, gamete_q, constraint_p, constraint_q, dosage_log_frequencies):
    allele_indices = np.arange(sample_ploidy[target_index])
    np.random.shuffle(allele_indices)
    for i in range(len(allele_indices)):
        allele_step(target_index=target_index, allele_index=allele_indices[i], sample_genotypes=sample_genotypes, sample_ploidy=sample_ploidy, sample_parents=sample_parents, sample_children=sample_children, gamete_tau=gamete_tau, gamete_lambda=gamete_lambda, gamete_error=gamete_error, sample_read_dists=sample_read_dists, sample_read_counts=sample_read_counts, haplotypes=haplotypes, log_frequencies=log_frequencies, llk_cache=llk_cache, step_type=step_type, dosage=dosage, dosage_p=dosage_p, dosage_q=dosage_q, gamete_p=gamete_p, gamete_q=gamete_q, constraint_p=constraint_p, constraint_q=constraint_q, dosage_log_frequencies=dosage_log_frequencies)


def sample_children_matrix(sample_parents):
    """Identify the children of each sample"""
    n_samples, n_parents = sample_parents.shape
    assert n_parents == 2
    next_child_index = np.zeros(n_samples, dtype=np.int64)
    for i in range(n_samples):
        for j in range(n_parents):
            p = sample_parents[i, j]
            assert p != i
            if p >= 0:
                if j == 1:
                    if p == sample_parents[i, 0]:
                        break
                next_child_index[p] += 1
    max_children = next_child_index.max()
    sample_children = np.full((n_samples, max_children), -1, dtype=np.int64)
    next_child_index[:] = 0
    for i in range(n_samples):
        for j in range(n_parents):
            p = sample_parents[i, j]
            if p >= 0:
                if j == 1:
                    if p == sample_parents[i, 0]:
                        break
                sample_children[p, next_child_index[p]] = i
                next_child_index[p] += 1
    return sample_children


def parental_pair_markov_blankets(sample_parents, sample_children):
    n_samples = len(sample_parents)
    _, max_children = sample_children.shape
    max_blanket_size = 0
    n_pairs = 0
    pairs = {}
    for i in range(n_samples):
        p, q = (sample_parents[i, 0], sample_parents[i, 1])
        if p > q:
            p, q = (q, p)
        if p < 0 or q < 0:
            pass
        elif (p, q) in pairs:
            pass
        else:
            in_blanket = np.zeros(n_samples, dtype=np.bool_)
            in_blanket[p] = True
            in_blanket[q] = True
            for j in range(max_children):
                c = sample_children[p, j]
                if c >= 0:
                    in_blanket[c] = True
                c = sample_children[q, j]
                if c >= 0:
                    in_blanket[c] = True
            blanket = np.where(in_blanket)[0]
            max_blanket_size = max(max_blanket_size, len(blanket))
            pairs[p, q] = blanket
            n_pairs += 1
    parental_pairs = np.zeros((n_pairs, 2), dtype=np.int64)
    parental_pair_blankets = np.full((n_pairs, max_blanket_size), -1, dtype=np.int64)
    i = 0
    for (p, q), blanket in pairs.items():
        parental_pairs[i, 0] = p
        parental_pairs[i, 1] = q
        parental_pair_blankets[i, 0:len(blanket)] = blanket
        i += 1
    return (parental_pairs, parental_pair_blankets)


def metropolis_hastings_probabilities(target_index, allele_index, sample_genotypes, sample_ploidy, sample_parents, sample_children, gamete_tau, gamete_lambda, gamete_error, sample_read_dists, sample_read_counts, haplotypes, log_frequencies, llk_cache, dosage, dosage_p, dosage_q, gamete_p, gamete_q, constraint_p, constraint_q, dosage_log_frequencies):
    n_alleles = len(haplotypes)
    ploidy = sample_ploidy[target_index]
    current_allele = sample_genotypes[target_index, allele_index]
    allele_copies = count_allele(sample_genotypes[target_index], current_allele)
    reads = sample_read_dists[target_index]
    read_counts = sample_read_counts[target_index]
    idx = read_counts > 0
    reads = reads[idx]
    read_counts = read_counts[idx]
    llk = log_likelihood_alleles_cached(reads=reads, read_counts=read_counts, haplotypes=haplotypes, sample=target_index, genotype_alleles=np.sort(sample_genotypes[target_index, 0:ploidy]), cache=llk_cache)
    lprior = markov_blanket_log_probability(target_index=target_index, sample_genotypes=sample_genotypes, sample_ploidy=sample_ploidy, sample_parents=sample_parents, sample_children=sample_children, gamete_tau=gamete_tau, gamete_lambda=gamete_lambda, gamete_error=gamete_error, log_frequencies=log_frequencies, dosage=dosage, dosage_p=dosage_p, dosage_q=dosage_q, gamete_p=gamete_p, gamete_q=gamete_q, constraint_p=constraint_p, constraint_q=constraint_q, dosage_log_frequencies=dosage_log_frequencies)
    log_accept = np.empty(n_alleles)
    for i in range(n_alleles):
        if i == current_allele:
            log_accept[i] = -np.inf
        else:
            sample_genotypes[target_index, allele_index] = i
            llk_i = log_likelihood_alleles_cached(reads=reads, read_counts=read_counts, haplotypes=haplotypes, sample=target_index, genotype_alleles=np.sort(sample_genotypes[target_index, 0:ploidy]), cache=llk_cache)
            llk_ratio = llk_i - llk
            lprior_i = markov_blanket_log_probability(target_index=target_index, sample_genotypes=sample_genotypes, sample_ploidy=sample_ploidy, sample_parents=sample_parents, sample_children=sample_children, gamete_tau=gamete_tau, gamete_lambda=gamete_lambda, gamete_error=gamete_error, log_frequencies=log_frequencies, dosage=dosage, dosage_p=dosage_p, dosage_q=dosage_q, gamete_p=gamete_p, gamete_q=gamete_q, constraint_p=constraint_p, constraint_q=constraint_q, dosage_log_frequencies=dosage_log_frequencies)
            lprior_ratio = lprior_i - lprior
            allele_copies_i = count_allele(sample_genotypes[target_index], i)
            lproposal_ratio = np.log(allele_copies_i / allele_copies)
            log_accept[i] = np.minimum(0.0, llk_ratio + lprior_ratio + lproposal_ratio)
    log_accept -= np.log(n_alleles - 1)
    probabilities = np.exp(log_accept)
    probabilities[current_allele] = 1 - probabilities.sum()
    sample_genotypes[target_index, allele_index] = current_allele
    return probabilities


def gibbs_probabilities(target_index, allele_index, sample_genotypes, sample_ploidy, sample_parents, sample_children, gamete_tau, gamete_lambda, gamete_error, sample_read_dists, sample_read_counts, haplotypes, log_frequencies, llk_cache, dosage, dosage_p, dosage_q, gamete_p, gamete_q, constraint_p, constraint_q, dosage_log_frequencies):
    n_alleles = len(haplotypes)
    ploidy = sample_ploidy[target_index]
    current_allele = sample_genotypes[target_index, allele_index]
    reads = sample_read_dists[target_index]
    read_counts = sample_read_counts[target_index]
    idx = read_counts > 0
    reads = reads[idx]
    read_counts = read_counts[idx]
    log_probabilities = np.empty(n_alleles)
    for i in range(n_alleles):
        sample_genotypes[target_index, allele_index] = i
        llk_i = log_likelihood_alleles_cached(reads=reads, read_counts=read_counts, haplotypes=haplotypes, sample=target_index, genotype_alleles=np.sort(sample_genotypes[target_index, 0:ploidy]), cache=llk_cache)
        lprior_i = markov_blanket_log_allele_probability(target_index=target_index, allele_index=allele_index, sample_genotypes=sample_genotypes, sample_ploidy=sample_ploidy, sample_parents=sample_parents, sample_children=sample_children, gamete_tau=gamete_tau, gamete_lambda=gamete_lambda, gamete_error=gamete_error, log_frequencies=log_frequencies, dosage=dosage, dosage_p=dosage_p, dosage_q=dosage_q, gamete_p=gamete_p, gamete_q=gamete_q, constraint_p=constraint_p, constraint_q=constraint_q, dosage_log_frequencies=dosage_log_frequencies)
        log_probabilities[i] = llk_i + lprior_i
    probabilities = normalise_log_probs(log_probabilities)
    sample_genotypes[target_index, allele_index] = current_allele
    return probabilities


def allele_step(target_index, allele_index, sample_genotypes, sample_ploidy, sample_parents, sample_children, gamete_tau, gamete_lambda, gamete_error, sample_read_dists, sample_read_counts, haplotypes, log_frequencies, llk_cache, step_type, dosage, dosage_p, dosage_q, gamete_p, gamete_q, constraint_p, constraint_q, dosage_log_frequencies):
    if step_type == 0:
        probabilities = gibbs_probabilities(target_index=target_index, allele_index=allele_index, sample_genotypes=sample_genotypes, sample_ploidy=sample_ploidy, sample_parents=sample_parents, sample_children=sample_children, gamete_tau=gamete_tau, gamete_lambda=gamete_lambda, gamete_error=gamete_error, sample_read_dists=sample_read_dists, sample_read_counts=sample_read_counts, haplotypes=haplotypes, log_frequencies=log_frequencies, llk_cache=llk_cache, dosage=dosage, dosage_p=dosage_p, dosage_q=dosage_q, gamete_p=gamete_p, gamete_q=gamete_q, constraint_p=constraint_p, constraint_q=constraint_q, dosage_log_frequencies=dosage_log_frequencies)
    elif step_type == 1:
        probabilities = metropolis_hastings_probabilities(target_index=target_index, allele_index=allele_index, sample_genotypes=sample_genotypes, sample_ploidy=sample_ploidy, sample_parents=sample_parents, sample_children=sample_children, gamete_tau=gamete_tau, gamete_lambda=gamete_lambda, gamete_error=gamete_error, sample_read_dists=sample_read_dists, sample_read_counts=sample_read_counts, haplotypes=haplotypes, log_frequencies=log_frequencies, llk_cache=llk_cache, dosage=dosage, dosage_p=dosage_p, dosage_q=dosage_q, gamete_p=gamete_p, gamete_q=gamete_q, constraint_p=constraint_p, constraint_q=constraint_q, dosage_log_frequencies=dosage_log_frequencies)
    else:
        raise ValueError
    choice = random_choice(probabilities)
    sample_genotypes[target_index, allele_index] = choice


def compound_step(sample_genotypes, sample_ploidy, sample_parents, sample_children, gamete_tau, gamete_lambda, gamete_error, sample_read_dists, sample_read_counts, haplotypes, log_frequencies, llk_cache, step_type, dosage, dosage_p, dosage_q, gamete_p, gamete_q, constraint_p, constraint_q, dosage_log_frequencies):
    target_indices = np.arange(len(sample_genotypes))
    np.random.shuffle(target_indices)
    for i in range(len(target_indices)):
        sample_step(target_index=target_indices[i], sample_genotypes=sample_genotypes, sample_ploidy=sample_ploidy, sample_parents=sample_parents, sample_children=sample_children, gamete_tau=gamete_tau, gamete_lambda=gamete_lambda, gamete_error=gamete_error, sample_read_dists=sample_read_dists, sample_read_counts=sample_read_counts, haplotypes=haplotypes, log_frequencies=log_frequencies, llk_cache=llk_cache, step_type=step_type, dosage=dosage, dosage_p=dosage_p, dosage_q=dosage_q, gamete_p=gamete_p, gamete_q=gamete_q, constraint_p=constraint_p, constraint_q=constraint_q, dosage_log_frequencies=dosage_log_frequencies)


def pair_allele_swap_step(p, q, markov_blanket, sample_genotypes, sample_ploidy, sample_parents, gamete_tau, gamete_lambda, gamete_error, sample_read_dists, sample_read_counts, haplotypes, log_frequencies, llk_cache, dosage, dosage_p, dosage_q, gamete_p, gamete_q, constraint_p, constraint_q, dosage_log_frequencies):
    ploidy_p = sample_ploidy[p]
    ploidy_q = sample_ploidy[q]
    index_p = np.random.randint(ploidy_p)
    index_q = np.random.randint(ploidy_q)
    allele_p = sample_genotypes[p, index_p]
    allele_q = sample_genotypes[q, index_q]
    assert allele_p >= 0
    assert allele_q >= 0
    idx_p = sample_read_counts[p] > 0
    read_dists_p = sample_read_dists[p][idx_p]
    read_counts_p = sample_read_counts[p][idx_p]
    idx_q = sample_read_counts[q] > 0
    read_dists_q = sample_read_dists[q][idx_q]
    read_counts_q = sample_read_counts[q][idx_q]
    if allele_p == allele_q:
        return (np.nan, False)
    proposal = count_allele(sample_genotypes[p], allele_p) * count_allele(sample_genotypes[q], allele_q)
    reversal = (1 + count_allele(sample_genotypes[p], allele_q)) * (1 + count_allele(sample_genotypes[q], allele_p))
    lproposal_ratio = np.log(reversal / proposal)
    llk_current = 0.0
    llk_current += log_likelihood_alleles_cached(reads=read_dists_p, read_counts=read_counts_p, haplotypes=haplotypes, sample=p, genotype_alleles=np.sort(sample_genotypes[p, 0:ploidy_p]), cache=llk_cache)
    llk_current += log_likelihood_alleles_cached(reads=read_dists_q, read_counts=read_counts_q, haplotypes=haplotypes, sample=q, genotype_alleles=np.sort(sample_genotypes[q, 0:ploidy_q]), cache=llk_cache)
    lprior_current = generic_markov_blanket_log_probability(markov_blanket, sample_genotypes, sample_ploidy, sample_parents, gamete_tau, gamete_lambda, gamete_error, log_frequencies, dosage, dosage_p, dosage_q, gamete_p, gamete_q, constraint_p, constraint_q, dosage_log_frequencies)
    sample_genotypes[p, index_p] = allele_q
    sample_genotypes[q, index_q] = allele_p
    llk_proposal = 0.0
    llk_proposal += log_likelihood_alleles_cached(reads=read_dists_p, read_counts=read_counts_p, haplotypes=haplotypes, sample=p, genotype_alleles=np.sort(sample_genotypes[p, 0:ploidy_p]), cache=llk_cache)
    llk_proposal += log_likelihood_alleles_cached(reads=read_dists_q, read_counts=read_counts_q, haplotypes=haplotypes, sample=q, genotype_alleles=np.sort(sample_genotypes[q, 0:ploidy_q]), cache=llk_cache)
    lprior_proposal = generic_markov_blanket_log_probability(markov_blanket, sample_genotypes, sample_ploidy, sample_parents, gamete_tau, gamete_lambda, gamete_error, log_frequencies, dosage, dosage_p, dosage_q, gamete_p, gamete_q, constraint_p, constraint_q, dosage_log_frequencies)
    llk_ratio = llk_proposal - llk_current
    lprior_ratio = lprior_proposal - lprior_current
    log_accept = np.minimum(0.0, llk_ratio + lprior_ratio + lproposal_ratio)
    prob_accept = np.exp(log_accept)
    accept = np.random.rand() < prob_accept
    if not accept:
        sample_genotypes[p, index_p] = allele_p
        sample_genotypes[q, index_q] = allele_q
    return (prob_accept, accept)


def mcmc_sampler(sample_genotypes, sample_ploidy, sample_parents, gamete_tau, gamete_lambda, gamete_error, sample_read_dists, sample_read_counts, haplotypes, log_frequencies, n_steps=2000, annealing=1000, step_type=0, swap_parental_alleles=True):
    """MCMC simulation for calling alleles in pedigreed genotypes from a set of known haplotypes."""
    sample_genotypes = sample_genotypes.copy()
    sample_children = sample_children_matrix(sample_parents)
    parental_pairs, parental_pair_blankets = parental_pair_markov_blankets(sample_parents, sample_children)
    n_pairs = len(parental_pairs)
    llk_cache = {}
    llk_cache[-1, -1] = np.nan
    error_weight = np.ones(n_steps, np.float64)
    if annealing:
        error_weight[0:annealing] = np.linspace(0.0, 1.0, annealing)
    n_samples, max_ploidy = sample_genotypes.shape
    dosage = np.zeros(max_ploidy, dtype=np.int64)
    dosage_p = np.zeros(max_ploidy, dtype=np.int64)
    dosage_q = np.zeros(max_ploidy, dtype=np.int64)
    gamete_p = np.zeros(max_ploidy, dtype=np.int64)
    gamete_q = np.zeros(max_ploidy, dtype=np.int64)
    constraint_p = np.zeros(max_ploidy, dtype=np.int64)
    constraint_q = np.zeros(max_ploidy, dtype=np.int64)
    dosage_log_frequencies = np.zeros(max_ploidy, dtype=np.float64)
    trace = np.empty((n_steps, n_samples, max_ploidy), dtype=sample_genotypes.dtype)
    for i in range(n_steps):
        compound_step(sample_genotypes=sample_genotypes, sample_ploidy=sample_ploidy, sample_parents=sample_parents, sample_children=sample_children, gamete_tau=gamete_tau, gamete_lambda=gamete_lambda, gamete_error=gamete_error, sample_read_dists=sample_read_dists, sample_read_counts=sample_read_counts, haplotypes=haplotypes, log_frequencies=log_frequencies, llk_cache=llk_cache, step_type=step_type, dosage=dosage, dosage_p=dosage_p, dosage_q=dosage_q, gamete_p=gamete_p, gamete_q=gamete_q, constraint_p=constraint_p, constraint_q=constraint_q, dosage_log_frequencies=dosage_log_frequencies)
        if swap_parental_alleles:
            for j in range(n_pairs):
                pair_allele_swap_step(p=parental_pairs[j, 0], q=parental_pairs[j, 1], markov_blanket=parental_pair_blankets[j], sample_genotypes=sample_genotypes, sample_ploidy=sample_ploidy, sample_parents=sample_parents, gamete_tau=gamete_tau, gamete_lambda=gamete_lambda, gamete_error=gamete_error, sample_read_dists=sample_read_dists, sample_read_counts=sample_read_counts, haplotypes=haplotypes, log_frequencies=log_frequencies, llk_cache=llk_cache, dosage=dosage, dosage_p=dosage_p, dosage_q=dosage_q, gamete_p=gamete_p, gamete_q=gamete_q, constraint_p=constraint_p, constraint_q=constraint_q, dosage_log_frequencies=dosage_log_frequencies)
        trace[i] = sample_genotypes.copy()
    for j in range(n_samples):
        ploidy = sample_ploidy[j]
        for i in range(n_steps):
            trace[i, j] = np.sort(trace[i, j])
            if ploidy < max_ploidy:
                trace[i, j] = np.roll(trace[i, j], ploidy - max_ploidy)
    return trace
