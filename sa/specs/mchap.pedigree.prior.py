"""Reference implementations for mchap.pedigree.prior (parsed, never imported); compared with the code by sa/refspec.py."""


def set_allelic_dosage(genotype_alleles, out):
    """Return the dosage of genotype alleles encoded as integers."""
    max_ploidy = len(genotype_alleles)
    out[:] = 0
    for i in range(max_ploidy):
        a = genotype_alleles[i]
        if a < 0:
            continue
        searching = True
        j = 0
        while searching:
            if a == genotype_alleles[j]:
                out[j] += 1
                searching = False
            else:
                j += 1


def set_parental_copies(parent_alleles, progeny_alleles, out):
    """Count the number of parental copies of each allele present with a progeny genotype."""
    out[:] = 0
    for i in range(len(parent_alleles)):
        a = parent_alleles[i]
        if a < 0:
            continue
        for j in range(len(progeny_alleles)):
            if a == progeny_alleles[j]:
                out[j] += 1
                break


def set_complimentary_gamete(dosage, gamete, out):
    """Set the complimentary gamete to complete the dosage."""
    for i in range(len(dosage)):
        out[i] = dosage[i] - gamete[i]


def set_dosage_frequencies(genotype, frequencies, out):
    """Store allele frequencies in the same order as alleles in a dosage array."""
    max_ploidy = len(genotype)
    for i in range(max_ploidy):
        a = genotype[i]
        if a >= 0:
            assert a < len(frequencies)
            out[i] = frequencies[a]
        else:
            out[i] = np.nan


def log_unknown_dosage_prior(dosage, log_frequencies):
    """Prior for dosage array of unknown origin assuming a multinomial distribution."""
    lperms = ln_equivalent_permutations(dosage)
    assert len(dosage) == len(log_frequencies)
    lperm_prob = 0.0
    for i in range(len(dosage)):
        d = dosage[i]
        if d > 0:
            lperm_prob += log_frequencies[i] * d
    return lperms + lperm_prob


def log_unknown_const_prior(dosage, allele_index, log_frequencies):
    """Prior for the alleles held a s constant in a dosage array of unknown origin assuming a multinomial distribution."""
    if dosage[allele_index] > 0:
        dosage[allele_index] -= 1
        lprob = log_unknown_dosage_prior(dosage, log_frequencies)
        dosage[allele_index] += 1
    else:
        lprob = -np.inf
    return lprob


def dosage_permutations(gamete_dosage, parent_dosage):
    """Count the number of possible permutations in which the observed gamete dosage can be drawn from a parent dosage without replacement."""
    n = 1
    for i in range(len(gamete_dosage)):
        n *= comb(parent_dosage[i], gamete_dosage[i])
    return n


def set_initial_dosage(ploidy, constraint, out):
    """Calculate the initial dosage that fits within a constraint."""
    for i in range(len(out)):
        count = min(ploidy, constraint[i])
        out[i] = count
        ploidy -= count
    if ploidy > 0:
        raise ValueError('Ploidy does not fit within constraint')


def increment_dosage(dosage, constraint):
    """Increment a given dosage to the next possible dosage within a given constraint."""
    max_ploidy = len(dosage)
    i = max_ploidy - 1
    change = 0
    while dosage[i] == 0:
        i -= 1
    dosage[i] -= 1
    change += 1
    j = i + 1
    while j < max_ploidy and change > 0:
        if dosage[j] < constraint[j]:
            dosage[j] += 1
            change -= 1
        j += 1
    if change > 0:
        change += dosage[i]
        dosage[i] = 0
        space = constraint[i]
        searching = True
        while searching:
            i -= 1
            if i < 0:
                raise ValueError('Final dosage')
            if dosage[i] > 0 and space > change:
                dosage[i] -= 1
                change += 1
                searching = False
            else:
                space += constraint[i]
                change += dosage[i]
                dosage[i] = 0
        j = i + 1
        while change > 0:
            value = min(constraint[j] - dosage[j], change)
            dosage[j] += value
            change -= value
            j += 1
    return


def double_reduction_permutations(gamete_dosage, parent_dosage):
    """Count the number of possible permutations in which the observed gamete dosage can be drawn from a parent dosage assuming double reduction."""
    n = 0
    for i in range(len(gamete_dosage)):
        if gamete_dosage[i] == 2:
            assert n == 0
            n = parent_dosage[i]
        elif gamete_dosage[i] != 0:
            return 0
    return n


def gamete_log_pmf(gamete_dose, gamete_ploidy, parent_dose, parent_ploidy, gamete_lambda=0.0):
    """Log probability of a gamete drawn from a known genotype."""
    prob = dosage_permutations(gamete_dose, parent_dose) / comb(parent_ploidy, gamete_ploidy) * (1 - gamete_lambda)
    if gamete_lambda > 0.0:
        if gamete_ploidy != 2:
            raise ValueError('Lambda parameter is only supported for diploid gametes')
        prob += double_reduction_permutations(gamete_dose, parent_dose) / parent_ploidy * gamete_lambda
    if prob == 0.0:
        return -np.inf
    else:
        return np.log(prob)


def gamete_const_log_pmf(allele_index, gamete_dose, gamete_ploidy, parent_dose, parent_ploidy):
    """Log probability of a the alleles held as constant in a gamete of known origin."""
    if gamete_dose[allele_index] < 1:
        return -np.inf
    gamete_dose[allele_index] -= 1
    lprob = gamete_log_pmf(gamete_dose=gamete_dose, gamete_ploidy=gamete_ploidy - 1, parent_dose=parent_dose, parent_ploidy=parent_ploidy)
    gamete_dose[allele_index] += 1
    return lprob




def trio_log_pmf(progeny, parent_p, parent_q, ploidy_p, ploidy_q, tau_p, tau_q, lambda_p, lambda_q, error_p, error_q, log_frequencies, dosage, dosage_p, dosage_q, gamete_p, gamete_q, constraint_p, constraint_q, dosage_log_frequencies):
    """Log probability of a trio of genotypes."""
    error_p = 1.0 if tau_p == 0 else error_p
    error_q = 1.0 if tau_q == 0 else error_q
    lerror_p = np.log(error_p)
    lerror_q = np.log(error_q)
    lcorrect_p = np.log(1 - error_p) if error_p < 1.0 else -np.inf
    lcorrect_q = np.log(1 - error_q) if error_q < 1.0 else -np.inf
    set_allelic_dosage(progeny, dosage)
    set_dosage_frequencies(progeny, log_frequencies, dosage_log_frequencies)
    assert dosage.sum() == tau_p + tau_q
    if ploidy_p == 0:
        dosage_p[:] = 0
    else:
        set_parental_copies(parent_p, progeny, dosage_p)
    if ploidy_q == 0:
        dosage_q[:] = 0
    else:
        set_parental_copies(parent_q, progeny, dosage_q)
    for i in range(len(progeny)):
        constraint_p[i] = min(dosage[i], dosage_p[i])
        constraint_q[i] = min(dosage[i], dosage_q[i])
    if lambda_p > 0.0:
        if tau_p != 2:
            raise ValueError('Non-zero lambda is only supported for a gametic ploidy (tau) of 2')
        for i in range(len(dosage)):
            if dosage[i] >= 2 and constraint_p[i] == 1:
                constraint_p[i] = 2
    if lambda_q > 0.0:
        if tau_q != 2:
            raise ValueError('Non-zero lambda is only supported for a gametic ploidy (tau) of 2')
        for i in range(len(dosage)):
            if dosage[i] >= 2 and constraint_q[i] == 1:
                constraint_q[i] = 2
    valid_p = constraint_p.sum() >= tau_p
    valid_q = constraint_q.sum() >= tau_q
    valid_p &= tau_p > 0
    valid_q &= tau_q > 0
    valid_p &= error_p < 1.0
    valid_q &= error_q < 1.0
    lprob = -np.inf
    if valid_p and valid_q:
        set_initial_dosage(tau_p, constraint_p, gamete_p)
        set_complimentary_gamete(dosage, gamete_p, gamete_q)
        while True:
            lprob_p = gamete_log_pmf(gamete_dose=gamete_p, gamete_ploidy=tau_p, parent_dose=dosage_p, parent_ploidy=ploidy_p, gamete_lambda=lambda_p) + lcorrect_p
            lprob_q = gamete_log_pmf(gamete_dose=gamete_q, gamete_ploidy=tau_q, parent_dose=dosage_q, parent_ploidy=ploidy_q, gamete_lambda=lambda_q) + lcorrect_q
            lprob_pq = lprob_p + lprob_q
            lprob = add_log_prob(lprob, lprob_pq)
            lprob_q = log_unknown_dosage_prior(gamete_q, dosage_log_frequencies) + lerror_q
            lprob_pq = lprob_p + lprob_q
            lprob = add_log_prob(lprob, lprob_pq)
            try:
                increment_dosage(gamete_p, constraint_p)
            except:
                break
            else:
                for i in range(len(gamete_q)):
                    gamete_q[i] = dosage[i] - gamete_p[i]
    elif valid_p:
        set_initial_dosage(tau_p, constraint_p, gamete_p)
        set_complimentary_gamete(dosage, gamete_p, gamete_q)
        while True:
            lprob_p = gamete_log_pmf(gamete_dose=gamete_p, gamete_ploidy=tau_p, parent_dose=dosage_p, parent_ploidy=ploidy_p, gamete_lambda=lambda_p) + lcorrect_p
            lprob_q = log_unknown_dosage_prior(gamete_q, dosage_log_frequencies) + lerror_q
            lprob_pq = lprob_p + lprob_q
            lprob = add_log_prob(lprob, lprob_pq)
            try:
                increment_dosage(gamete_p, constraint_p)
            except:
                break
            else:
                for i in range(len(gamete_q)):
                    gamete_q[i] = dosage[i] - gamete_p[i]
    if valid_q:
        set_initial_dosage(tau_q, constraint_q, gamete_q)
        set_complimentary_gamete(dosage, gamete_q, gamete_p)
        while True:
            lprob_p = log_unknown_dosage_prior(gamete_p, dosage_log_frequencies) + lerror_p
            lprob_q = gamete_log_pmf(gamete_dose=gamete_q, gamete_ploidy=tau_q, parent_dose=dosage_q, parent_ploidy=ploidy_q, gamete_lambda=lambda_q) + lcorrect_q
            lprob_pq = lprob_p + lprob_q
            lprob = add_log_prob(lprob, lprob_pq)
            try:
                increment_dosage(gamete_q, constraint_q)
            except:
                break
            else:
                for i in range(len(gamete_p)):
                    gamete_p[i] = dosage[i] - gamete_q[i]
    lprob_pq = log_unknown_dosage_prior(dosage, dosage_log_frequencies) + lerror_p + lerror_q
    lprob = add_log_prob(lprob, lprob_pq)
    return lprob


def markov_blanket_log_probability(target_index, sample_genotypes, sample_ploidy, sample_parents, sample_children, gamete_tau, gamete_lambda, gamete_error, log_frequencies, dosage, dosage_p, dosage_q, gamete_p, gamete_q, constraint_p, constraint_q, dosage_log_frequencies):
    """Joint probability of pedigree items that fall within the Markov blanket of the specified target sample."""
    n_samples, max_children = sample_children.shape
    assert 0 <= target_index < n_samples
    log_joint = 0.0
    for idx in range(-1, max_children):
        if idx < 0:
            i = target_index
        else:
            i = sample_children[target_index, idx]
            if i < 0:
                break
        p = sample_parents[i, 0]
        q = sample_parents[i, 1]
        if p >= 0:
            error_p = gamete_error[i, 0]
            ploidy_p = sample_ploidy[p]
        else:
            error_p = 1.0
            ploidy_p = 0
        if q >= 0:
            error_q = gamete_error[i, 1]
            ploidy_q = sample_ploidy[q]
        else:
            error_q = 1.0
            ploidy_q = 0
        log_joint += trio_log_pmf(sample_genotypes[i], sample_genotypes[p], sample_genotypes[q], ploidy_p=ploidy_p, ploidy_q=ploidy_q, tau_p=gamete_tau[i, 0], tau_q=gamete_tau[i, 1], lambda_p=gamete_lambda[i, 0], lambda_q=gamete_lambda[i, 1], error_p=error_p, error_q=error_q, log_frequencies=log_frequencies, dosage=dosage, dosage_p=dosage_p, dosage_q=dosage_q, gamete_p=gamete_p, gamete_q=gamete_q, constraint_p=constraint_p, constraint_q=constraint_q, dosage_log_frequencies=dosage_log_frequencies)
    return log_joint


def generic_markov_blanket_log_probability(markov_blanket, sample_genotypes, sample_ploidy, sample_parents, gamete_tau, gamete_lambda, gamete_error, log_frequencies, dosage, dosage_p, dosage_q, gamete_p, gamete_q, constraint_p, constraint_q, dosage_log_frequencies):
    """Joint probability of pedigree items that fall within the Markov blanket of the specified target sample."""
    max_size = len(markov_blanket)
    log_joint = 0.0
    for idx in range(max_size):
        i = markov_blanket[idx]
        if i < 0:
            break
        p = sample_parents[i, 0]
        q = sample_parents[i, 1]
        if p >= 0:
            error_p = gamete_error[i, 0]
            ploidy_p = sample_ploidy[p]
        else:
            error_p = 1.0
            ploidy_p = 0
        if q >= 0:
            error_q = gamete_error[i, 1]
            ploidy_q = sample_ploidy[q]
        else:
            error_q = 1.0
            ploidy_q = 0
        log_joint += trio_log_pmf(sample_genotypes[i], sample_genotypes[p], sample_genotypes[q], ploidy_p=ploidy_p, ploidy_q=ploidy_q, tau_p=gamete_tau[i, 0], tau_q=gamete_tau[i, 1], lambda_p=gamete_lambda[i, 0], lambda_q=gamete_lambda[i, 1], error_p=error_p, error_q=error_q, log_frequencies=log_frequencies, dosage=dosage, dosage_p=dosage_p, dosage_q=dosage_q, gamete_p=gamete_p, gamete_q=gamete_q, constraint_p=constraint_p, constraint_q=constraint_q, dosage_log_frequencies=dosage_log_frequencies)
    return log_joint




def markov_blanket_log_allele_probability(target_index, allele_index, sample_genotypes, sample_ploidy, sample_parents, sample_children, gamete_tau, gamete_lambda, gamete_error, log_frequencies, dosage, dosage_p, dosage_q, gamete_p, gamete_q, constraint_p, constraint_q, dosage_log_frequencies):
    """Joint probability of pedigree items that fall within the Markov blanket of the specified target sample."""
    n_samples, max_children = sample_children.shape
    assert 0 <= target_index < n_samples
    p = sample_parents[target_index, 0]
    q = sample_parents[target_index, 1]
    if p >= 0:
        error_p = gamete_error[target_index, 0]
        ploidy_p = sample_ploidy[p]
    else:
        error_p = 1.0
        ploidy_p = 0
    if q >= 0:
        error_q = gamete_error[target_index, 1]
        ploidy_q = sample_ploidy[q]
    else:
        error_q = 1.0
        ploidy_q = 0
    log_joint = trio_allele_log_pmf(allele_index=allele_index, progeny=sample_genotypes[target_index], parent_p=sample_genotypes[p], parent_q=sample_genotypes[q], ploidy_p=ploidy_p, ploidy_q=ploidy_q, tau_p=gamete_tau[target_index, 0], tau_q=gamete_tau[target_index, 1], lambda_p=gamete_lambda[target_index, 0], lambda_q=gamete_lambda[target_index, 1], error_p=error_p, error_q=error_q, log_frequencies=log_frequencies, dosage=dosage, dosage_p=dosage_p, dosage_q=dosage_q, gamete_p=gamete_p, gamete_q=gamete_q, constraint_p=constraint_p, constraint_q=constraint_q, dosage_log_frequencies=dosage_log_frequencies)
    for idx in range(max_children):
        i = sample_children[target_index, idx]
        if i < 0:
            break
        p = sample_parents[i, 0]
        q = sample_parents[i, 1]
        if p >= 0:
            error_p = gamete_error[i, 0]
            ploidy_p = sample_ploidy[p]
        else:
            error_p = 1.0
            ploidy_p = 0
        if q >= 0:
            error_q = gamete_error[i, 1]
            ploidy_q = sample_ploidy[q]
        else:
            error_q = 1.0
            ploidy_q = 0
        log_joint += trio_log_pmf(sample_genotypes[i], sample_genotypes[p], sample_genotypes[q], ploidy_p=ploidy_p, ploidy_q=ploidy_q, tau_p=gamete_tau[i, 0], tau_q=gamete_tau[i, 1], lambda_p=gamete_lambda[i, 0], lambda_q=gamete_lambda[i, 1], error_p=error_p, error_q=error_q, log_frequencies=log_frequencies, dosage=dosage, dosage_p=dosage_p, dosage_q=dosage_q, gamete_p=gamete_p, gamete_q=gamete_q, constraint_p=constraint_p, constraint_q=constraint_q, dosage_log_frequencies=dosage_log_frequencies)
    return log_joint


def trio_allele_log_pmf(allele_index, progeny, parent_p, parent_q, ploidy_p, ploidy_q, tau_p, tau_q, lambda_p, lambda_q, error_p, error_q, log_frequencies, dosage, dosage_p, dosage_q, gamete_p, gamete_q, constraint_p, constraint_q, dosage_log_frequencies):
    """Log probability of allele within a trio of genotypes."""
    error_p = 1.0 if tau_p == 0 else error_p
    error_q = 1.0 if tau_q == 0 else error_q
    lerror_p = np.log(error_p)
    lerror_q = np.log(error_q)
    lcorrect_p = np.log(1 - error_p) if error_p < 1.0 else -np.inf
    lcorrect_q = np.log(1 - error_q) if error_q < 1.0 else -np.inf
    lweight_p = np.log(2 * tau_p / (tau_p + tau_q)) if tau_p > 0 else -np.inf
    lweight_q = np.log(2 * tau_q / (tau_p + tau_q)) if tau_q > 0 else -np.inf
    assert allele_index < len(progeny)
    for i in range(len(progeny)):
        if progeny[i] == progeny[allele_index]:
            allele_index = i
            break
    set_allelic_dosage(progeny, dosage)
    set_dosage_frequencies(progeny, log_frequencies, dosage_log_frequencies)
    assert dosage.sum() == tau_p + tau_q
    if ploidy_p == 0:
        dosage_p[:] = 0
    else:
        set_parental_copies(parent_p, progeny, dosage_p)
    if ploidy_q == 0:
        dosage_q[:] = 0
    else:
        set_parental_copies(parent_q, progeny, dosage_q)
    for i in range(len(progeny)):
        constraint_p[i] = min(dosage[i], dosage_p[i])
        constraint_q[i] = min(dosage[i], dosage_q[i])
    if lambda_p > 0.0:
        if tau_p != 2:
            raise ValueError('Non-zero lambda is only supported for a gametic ploidy (tau) of 2')
        for i in range(len(dosage)):
            if dosage[i] >= 2 and constraint_p[i] == 1:
                constraint_p[i] = 2
    if lambda_q > 0.0:
        if tau_q != 2:
            raise ValueError('Non-zero lambda is only supported for a gametic ploidy (tau) of 2')
        for i in range(len(dosage)):
            if dosage[i] >= 2 and constraint_q[i] == 1:
                constraint_q[i] = 2
    valid_p = constraint_p.sum() >= tau_p
    valid_q = constraint_q.sum() >= tau_q
    valid_p &= tau_p > 0
    valid_q &= tau_q > 0
    valid_p &= error_p < 1.0
    valid_q &= error_q < 1.0
    lprob = -np.inf
    if valid_p and valid_q:
        set_initial_dosage(tau_p, constraint_p, gamete_p)
        set_complimentary_gamete(dosage, gamete_p, gamete_q)
        while True:
            lprob_gamete_p = gamete_log_pmf(gamete_dose=gamete_p, gamete_ploidy=tau_p, parent_dose=dosage_p, parent_ploidy=ploidy_p, gamete_lambda=lambda_p)
            lprob_const_p = gamete_const_log_pmf(allele_index=allele_index, gamete_dose=gamete_p, gamete_ploidy=tau_p, parent_dose=dosage_p, parent_ploidy=ploidy_p)
            lprob_allele_p = gamete_allele_log_pmf(gamete_count=gamete_p[allele_index], gamete_ploidy=tau_p, parent_count=dosage_p[allele_index], parent_ploidy=ploidy_p, gamete_lambda=lambda_p)
            lprob_gamete_q = gamete_log_pmf(gamete_dose=gamete_q, gamete_ploidy=tau_q, parent_dose=dosage_q, parent_ploidy=ploidy_q, gamete_lambda=lambda_q)
            lprob_const_q = gamete_const_log_pmf(allele_index=allele_index, gamete_dose=gamete_q, gamete_ploidy=tau_q, parent_dose=dosage_q, parent_ploidy=ploidy_q)
            lprob_allele_q = gamete_allele_log_pmf(gamete_count=gamete_q[allele_index], gamete_ploidy=tau_q, parent_count=dosage_q[allele_index], parent_ploidy=ploidy_q, gamete_lambda=lambda_q)
            lprob_p = lprob_gamete_q + lprob_const_p + lprob_allele_p + lweight_p
            lprob_q = lprob_gamete_p + lprob_const_q + lprob_allele_q + lweight_q
            lprob_pq = add_log_prob(lprob_p, lprob_q) + lcorrect_p + lcorrect_q
            lprob = add_log_prob(lprob, lprob_pq)
            lprob_gamete_q = log_unknown_dosage_prior(gamete_q, dosage_log_frequencies)
            lprob_const_q = log_unknown_const_prior(gamete_q, allele_index, dosage_log_frequencies)
            lprob_allele_q = dosage_log_frequencies[allele_index]
            lprob_p = lprob_gamete_q + lprob_const_p + lprob_allele_p + lweight_p
            lprob_q = lprob_gamete_p + lprob_const_q + lprob_allele_q + lweight_q
            lprob_pq = add_log_prob(lprob_p, lprob_q) + lcorrect_p + lerror_q
            lprob = add_log_prob(lprob, lprob_pq)
            try:
                increment_dosage(gamete_p, constraint_p)
            except:
                break
            else:
                for i in range(len(gamete_q)):
                    gamete_q[i] = dosage[i] - gamete_p[i]
    elif valid_p:
        set_initial_dosage(tau_p, constraint_p, gamete_p)
        set_complimentary_gamete(dosage, gamete_p, gamete_q)
        while True:
            lprob_gamete_p = gamete_log_pmf(gamete_dose=gamete_p, gamete_ploidy=tau_p, parent_dose=dosage_p, parent_ploidy=ploidy_p, gamete_lambda=lambda_p)
            lprob_const_p = gamete_const_log_pmf(allele_index=allele_index, gamete_dose=gamete_p, gamete_ploidy=tau_p, parent_dose=dosage_p, parent_ploidy=ploidy_p)
            lprob_allele_p = gamete_allele_log_pmf(gamete_count=gamete_p[allele_index], gamete_ploidy=tau_p, parent_count=dosage_p[allele_index], parent_ploidy=ploidy_p, gamete_lambda=lambda_p)
            lprob_gamete_q = log_unknown_dosage_prior(gamete_q, dosage_log_frequencies)
            lprob_const_q = log_unknown_const_prior(gamete_q, allele_index, dosage_log_frequencies)
            lprob_allele_q = dosage_log_frequencies[allele_index]
            lprob_p = lprob_gamete_q + lprob_const_p + lprob_allele_p + lweight_p
            lprob_q = lprob_gamete_p + lprob_const_q + lprob_allele_q + lweight_q
            lprob_pq = add_log_prob(lprob_p, lprob_q) + lcorrect_p + lerror_q
            lprob = add_log_prob(lprob, lprob_pq)
            try:
                increment_dosage(gamete_p, constraint_p)
            except:
                break
            else:
                for i in range(len(gamete_q)):
                    gamete_q[i] = dosage[i] - gamete_p[i]
    if valid_q:
        set_initial_dosage(tau_q, constraint_q, gamete_q)
        set_complimentary_gamete(dosage, gamete_q, gamete_p)
        while True:
            assert gamete_p.sum() == tau_p
            assert gamete_q.sum() == tau_q
            lprob_gamete_q = gamete_log_pmf(gamete_dose=gamete_q, gamete_ploidy=tau_q, parent_dose=dosage_q, parent_ploidy=ploidy_q, gamete_lambda=lambda_q)
            lprob_const_q = gamete_const_log_pmf(allele_index=allele_index, gamete_dose=gamete_q, gamete_ploidy=tau_q, parent_dose=dosage_q, parent_ploidy=ploidy_q)
            lprob_allele_q = gamete_allele_log_pmf(gamete_count=gamete_q[allele_index], gamete_ploidy=tau_q, parent_count=dosage_q[allele_index], parent_ploidy=ploidy_q, gamete_lambda=lambda_q)
            lprob_gamete_p = log_unknown_dosage_prior(gamete_p, dosage_log_frequencies)
            lprob_const_p = log_unknown_const_prior(gamete_p, allele_index, dosage_log_frequencies)
            lprob_allele_p = dosage_log_frequencies[allele_index]
            lprob_p = lprob_gamete_q + lprob_const_p + lprob_allele_p + lweight_p
            lprob_q = lprob_gamete_p + lprob_const_q + lprob_allele_q + lweight_q
            lprob_pq = add_log_prob(lprob_p, lprob_q) + lerror_p + lcorrect_q
            lprob = add_log_prob(lprob, lprob_pq)
            try:
                increment_dosage(gamete_q, constraint_q)
            except:
                break
            else:
                for i in range(len(gamete_p)):
                    gamete_p[i] = dosage[i] - gamete_q[i]
    lprob_const = log_unknown_const_prior(dosage, allele_index, dosage_log_frequencies)
    lprob_allele = dosage_log_frequencies[allele_index] + 0.6931471805599453
    lprob_pq = lprob_const + lprob_allele + lerror_p + lerror_q
    lprob = add_log_prob(lprob, lprob_pq)
    assert not np.isnan(lprob)
    return lprob


def gamete_allele_log_pmf(gamete_count, gamete_ploidy, parent_count, parent_ploidy, gamete_lambda=0.0):
    """Log probability of allele within a gamete drawn from a known genotype."""
    assert gamete_count <= gamete_ploidy
    assert parent_count <= parent_ploidy
    if gamete_count < 1:
        return -np.inf
    if parent_count == 0:
        return -np.inf
    const_count = gamete_count - 1
    const_ploidy = gamete_ploidy - 1
    available_count = max(parent_count - const_count, 0)
    available_total = parent_ploidy - const_ploidy
    prob = available_count / available_total * (1 - gamete_lambda)
    if gamete_lambda > 0.0:
        if gamete_ploidy != 2:
            raise ValueError('Lambda parameter is only supported for diploid gametes')
        if const_count >= 1:
            prob += const_count / const_ploidy * gamete_lambda
    if prob == 0.0:
        return -np.inf
    else:
        return np.log(prob)
