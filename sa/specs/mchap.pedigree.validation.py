"""Reference implementations for mchap.pedigree.validation (parsed, never imported); compared with the code by sa/refspec.py."""


def duo_valid(progeny, parent, tau, lambda_):
    ploidy = len(progeny)
    dosage = np.zeros(ploidy, dtype=np.int64)
    dosage_p = np.zeros(ploidy, dtype=np.int64)
    set_allelic_dosage(progeny, dosage)
    set_parental_copies(parent, progeny, dosage_p)
    constraint_p = np.minimum(dosage, dosage_p)
    if lambda_ > 0.0:
        if tau != 2:
            raise ValueError('Non-zero lambda is only supported for a gametic ploidy (tau) of 2')
        for i in range(len(dosage)):
            if dosage[i] >= 2 and constraint_p[i] == 1:
                constraint_p[i] = 2
    return constraint_p.sum() >= tau


def trio_valid(progeny, parent_p, parent_q, tau_p, tau_q, lambda_p, lambda_q):
    ploidy = len(progeny)
    dosage = np.zeros(ploidy, dtype=np.int64)
    dosage_p = np.zeros(ploidy, dtype=np.int64)
    dosage_q = np.zeros(ploidy, dtype=np.int64)
    gamete_p = np.zeros(ploidy, dtype=np.int64)
    gamete_q = np.zeros(ploidy, dtype=np.int64)
    set_allelic_dosage(progeny, dosage)
    set_parental_copies(parent_p, progeny, dosage_p)
    set_parental_copies(parent_q, progeny, dosage_q)
    constraint_p = np.minimum(dosage, dosage_p)
    constraint_q = np.minimum(dosage, dosage_q)
    if lambda_p > 0.0:
        if tau_p != 2:
            raise ValueError('Non-zero lambda is only supported for a gametic ploidy (tau) of 2')
        for i in range(len(dosage)):
            if dosage[i] >= 2 and constraint_p[i] == 1:
                constraint_p[i] = 2
    if lambda_q > 0.0:
        if tau_q != 2:
            raise ValueError('Non-zero lambda is only supported for a gametic ploidy (tau) of 2')
        for i in range(len(dosage)):
            if dosage[i] >= 2 and constraint_q[i] == 1:
                constraint_q[i] = 2
    if constraint_p.sum() < tau_p or constraint_q.sum() < tau_q:
        return False
    set_initial_dosage(tau_p, constraint_p, gamete_p)
    gamete_q[:] = dosage - gamete_p
    while True:
        match = True
        for i in range(len(dosage)):
            if gamete_q[i] > constraint_q[i]:
                match = False
                break
            if gamete_p[i] + gamete_q[i] != dosage[i]:
                match = False
                break
        if match:
            return True
        try:
            increment_dosage(gamete_p, constraint_p)
        except:
            break
        else:
            for i in range(len(gamete_q)):
                gamete_q[i] = dosage[i] - gamete_p[i]
    return False
