"""Use-def term reconstruction over structured Python AST (no execution).

Terms are hashable nested tuples:
  ('param', name)                         parameter at function entry
  ('const', value)
  ('name', dotted)                        module-level / external name (np.inf, FORMAT.GP, ...)
  ('call', qname, (args...), ((kw, term)...), uid)
        qname: resolved repo function/class/method, or external dotted name, or '.attr' for
        a method on an untyped receiver (receiver is then args[0]); for resolved methods the
        receiver is args[0] as well.  uid: (lineno, col) for effectful calls (RNG draws), else None
  ('bin', op, a, b) ('un', op, a) ('cmp', op, a, b) ('bool', op, a, b)
  ('idx', base, index) ('slice', lo, hi, step) ('tuple', items) ('list', items) ('attr', base, name)
  ('upd', base, index, value)             array after an in-place cell store
  ('havoc', base, index)                  array whose cell `index` is unknown (loop entry)
  ('out', qname, pname, call_term)        array after a mutating call (effect summary)
  ('phi', cond, a, b)
  ('carried', name, init)                 loop-carried value (init = value before the loop)
  ('after', lineno, body_value)           value of a loop-assigned name after the loop
  ('loopvar', name, iter_term)
  ('proj', k, term)
  ('opaque', text)
"""
from __future__ import annotations
import ast
from .model import Program, Func, AnalysisError
from .effects import Effects, _root_name

BINOPS = {
    ast.Add: 'Add', ast.Sub: 'Sub', ast.Mult: 'Mult', ast.Div: 'Div', ast.FloorDiv: 'FloorDiv',
    ast.Mod: 'Mod', ast.Pow: 'Pow', ast.BitAnd: 'BitAnd', ast.BitOr: 'BitOr', ast.BitXor: 'BitXor',
    ast.LShift: 'LShift', ast.RShift: 'RShift', ast.MatMult: 'MatMult',
}


class Event:
    __slots__ = ("kind", "conds", "data", "node")

    def __init__(self, kind, conds, data, node):
        self.kind, self.conds, self.data, self.node = kind, tuple(conds), data, node

    @property
    def lineno(self):
        return getattr(self.node, "lineno", 0)


class Recon:
    """Reconstructs terms for one function. After run(): .events, .env (final), .calls"""

    def __init__(self, prog: Program, eff: Effects, func: Func):
        self.prog, self.eff, self.f = prog, eff, func
        self.events: list[Event] = []
        self.calls: list[tuple] = []        # (call_term, conds, node)
        self.env = None
        self.return_envs: list[tuple] = []  # (conds, {param: term}) at every return statement
        self.falls_through = True           # the end of the body is reachable
        self.nonnull_dicts: set = set()     # local dictionaries all of whose stored values cannot be None (second pass of run())

    # ------------------------------------------------------------------ expressions
    def ex(self, n, env):
        if n is None:
            return ('const', None)
        if isinstance(n, ast.Constant):
            return ('const', n.value)
        if isinstance(n, ast.Name):
            if n.id in env:
                v = env.get('__views__', {}).get(n.id)
                if v is not None and isinstance(n.ctx, ast.Load) and env.get(v[0]) is not v[1] and env.get(v[0]) != v[1]:
                    # numpy basic slicing returns a view: the name now shows the array as it is *after* the stores made since
                    self.events.append(Event('stale_view', tuple(env.get('__conds__', ())), (n.id, v[0], v[2]), n))
                return env[n.id]
            return ('name', self._qual(n.id))
        if isinstance(n, ast.Attribute):
            base = n.value
            # dotted module path (np.inf, FORMAT.GP, vcf.filters.NOA.id)
            root = base
            while isinstance(root, ast.Attribute):
                root = root.value
            if isinstance(root, ast.Name) and root.id not in env:
                if root.id in self.f.module.consts and root.id not in self.f.module.imports:
                    # attribute of a module-level constant (TABLE.shape)
                    return ('attr', self.ex(base, env), n.attr)
                return ('name', self._qual(ast.unparse(n)))
            return ('attr', self.ex(base, env), n.attr)
        if isinstance(n, ast.BinOp):
            return mkbin(BINOPS.get(type(n.op), type(n.op).__name__), self.ex(n.left, env), self.ex(n.right, env))
        if isinstance(n, ast.UnaryOp):
            if isinstance(n.op, ast.Not):
                return mknot(self.ex(n.operand, env))
            return ('un', type(n.op).__name__, self.ex(n.operand, env))
        if isinstance(n, ast.BoolOp):
            vals = [self.ex(v, env) for v in n.values]
            vals = sorted(vals, key=lambda v: (v[0] == 'const', ckey(v)))      # `a and b` / `b and a`: one term
            t = vals[0]
            for v in vals[1:]:
                t = ('bool', type(n.op).__name__, t, v)
            return t
        if isinstance(n, ast.Compare):
            left = self.ex(n.left, env)
            parts = []
            for op, c in zip(n.ops, n.comparators):
                r = self.ex(c, env)
                opn = type(op).__name__
                if opn in ('Is', 'IsNot') and r == ('const', None) and isinstance(left, tuple) and left[:1] == ('dget',):
                    parts.append(mkcmp('NotIn' if opn == 'Is' else 'In', left[2], left[1]))
                else:
                    parts.append(mkcmp(opn, left, r))
                left = r
            t = parts[0]
            for p in parts[1:]:
                t = ('bool', 'And', t, p)
            return t
        if isinstance(n, ast.Subscript):
            return mkidx(self.ex(n.value, env), self.ex(n.slice, env))
        if isinstance(n, ast.Slice):
            return ('slice', self.ex(n.lower, env) if n.lower else None,
                    self.ex(n.upper, env) if n.upper else None,
                    self.ex(n.step, env) if n.step else None)
        if isinstance(n, ast.Tuple):
            return ('tuple', tuple(self.ex(e, env) for e in n.elts))
        if isinstance(n, ast.List):
            return ('list', tuple(self.ex(e, env) for e in n.elts))
        if isinstance(n, ast.IfExp):
            return mkphi(self.ex(n.test, env), self.ex(n.body, env), self.ex(n.orelse, env))
        if isinstance(n, ast.Call):
            return self.call(n, env)
        if isinstance(n, (ast.ListComp, ast.GeneratorExp, ast.SetComp, ast.DictComp)):
            return self.comp(n, env)
        if isinstance(n, ast.Dict):
            return ('dict', tuple((self.ex(k, env) if k else None, self.ex(v, env)) for k, v in zip(n.keys, n.values)))
        if isinstance(n, ast.Starred):
            return ('star', self.ex(n.value, env))
        if isinstance(n, ast.Set):
            return ('set', tuple(self.ex(e, env) for e in n.elts))
        if isinstance(n, ast.JoinedStr):
            return ('fstr', tuple(self.ex(v, env) for v in n.values))
        if isinstance(n, ast.FormattedValue):
            return ('fmt', self.ex(n.value, env), n.conversion, self.ex(n.format_spec, env) if n.format_spec else None)
        if isinstance(n, (ast.Yield, ast.YieldFrom)):
            t = ('yield', self.ex(n.value, env) if n.value is not None else ('const', None))
            self.events.append(Event('yield', tuple(env.get('__conds__', ())), (t[1],), n))
            return t
        if isinstance(n, ast.Lambda):
            e2 = dict(env)
            names = [a.arg for a in n.args.posonlyargs + n.args.args + n.args.kwonlyargs]
            for k, a in enumerate(names):
                e2[a] = ('lambdaarg', k)
            return ('lambda', len(names), self.ex(n.body, e2))
        return ('opaque', ast.unparse(n))

    def comp(self, n, env):
        """comprehension: element term with loop variables bound to loopvars"""
        e2 = dict(env)
        gens = []
        filters = []
        depth = env.get('__compdepth__', 0)
        e2['__compdepth__'] = depth + 1
        for gi, g in enumerate(n.generators):
            it = self.ex(g.iter, e2)
            k = 0
            for tn in ast.walk(g.target):
                if isinstance(tn, ast.Name):
                    # bound variables are named by position, not by spelling
                    e2[tn.id] = ('loopvar', f'#comp{depth}.{gi}.{k}', it)
                    k += 1
            gens.append(it)
            for cond in g.ifs:
                filters.append(self.ex(cond, e2))
        if isinstance(n, ast.DictComp):
            elt = ('tuple', (self.ex(n.key, e2), self.ex(n.value, e2)))
        else:
            elt = self.ex(n.elt, e2)
        if filters:
            return ('comp', type(n).__name__, elt, tuple(gens), tuple(filters))
        return ('comp', type(n).__name__, elt, tuple(gens))

    def _qual(self, dotted):
        m = self.f.module
        head = dotted.split('.')[0]
        if head in m.consts and head not in m.imports and head not in m.funcs and head not in m.classes:
            return f"{m.modname}.{dotted}"
        return self.prog.resolve_name(m, dotted)

    def call(self, n: ast.Call, env):
        q = self.prog.resolve_call(self.f, n)
        args = []
        # receiver handling for method calls
        if isinstance(n.func, ast.Attribute):
            v = n.func.value
            root = v
            while isinstance(root, (ast.Attribute, ast.Subscript, ast.Call)):
                root = root.func if isinstance(root, ast.Call) else root.value
            local_root = isinstance(root, ast.Name) and root.id in env
            is_method = False
            if q in self.prog.funcs and self.prog.funcs[q].cls is not None:
                is_method = True
            elif q.startswith('.') or q.startswith('self.'):
                is_method = True
            elif local_root and q not in self.prog.funcs and q not in self.prog.classes:
                # method on a local value (array.sum(), dict.get(), ...)
                is_method = True
                q = '.' + n.func.attr
            if is_method:
                args.append(self.ex(v, env))
                if not (q in self.prog.funcs):
                    q = '.' + n.func.attr
        args += [self.ex(a, env) for a in n.args]
        kws = tuple(sorted((k.arg or '**', self.ex(k.value, env)) for k in n.keywords))
        uid = None
        parts = q.split('.')
        if len(parts) >= 2 and parts[-2] == 'random' and parts[0] in ('np', 'numpy') and parts[-1] != 'seed':
            uid = (n.lineno, n.col_offset)
        if q in ('numpy.zeros', 'numpy.empty', 'numpy.ones', 'numpy.full', 'numpy.zeros_like', 'numpy.empty_like', 'numpy.full_like'):
            uid = (n.lineno, n.col_offset)      # every allocation is a distinct object
        args = tuple(args)
        if q in self.prog.funcs and not any(isinstance(a, ast.Starred) for a in n.args) and all(k.arg for k in n.keywords):
            # calls of repository functions are kept in one form whatever mix of positional and keyword arguments the source
            # uses: every supplied argument appears both at its signature position and under its parameter name
            params = self.prog.funcs[q].params
            if len(args) <= len(params) and all(k in params for k, _ in kws):
                supplied = dict(zip(params, args))
                supplied.update(dict(kws))
                last = max((params.index(k) for k in supplied), default=-1)
                args = tuple(supplied.get(p_, ('default', p_)) for p_ in params[:last + 1])
                kws = tuple(sorted(supplied.items()))
                DUAL.add(q)
        t = ('call', q, args, kws, uid)
        if q == '.get' and len(args) == 2 and not kws and isinstance(n.func, ast.Attribute) and isinstance(n.func.value, ast.Name) \
                and n.func.value.id in self.nonnull_dicts:
            # d.get(k) on a dictionary that never holds None: the element if present (its comparison with None is a membership test)
            return ('dget', args[0], args[1])
        if q == 'len' and len(args) == 1 and not kws:
            ln = _length_of(args[0])
            if ln is not None:
                return ln           # len(np.zeros(n).astype(bool)) is n
        self.calls.append((t, tuple(env.get('__conds__', ())), n))
        # list building: x.append(v) on a local list literal keeps the list structural
        if q == '.append' and isinstance(n.func, ast.Attribute) and isinstance(n.func.value, ast.Name) and len(args) == 2:
            name = n.func.value.id
            cur = env.get(name)
            new = _append(cur, args[1]) if cur is not None else None
            if new is not None:
                env[name] = new
                return t
        # in-place effects on local names
        for local, (callee, pname) in self.eff.mutated_args(self.f, n).items():
            if local in env or True:
                env[local] = ('out', callee, pname, t)
        return t

    # ------------------------------------------------------------------ statements
    def assign_target(self, tgt, val, env, conds, node):
        if isinstance(tgt, ast.Name):
            env[tgt.id] = val
            self.events.append(Event('assign', conds, (tgt.id, val), node))
        elif isinstance(tgt, (ast.Tuple, ast.List)):
            for k, e in enumerate(tgt.elts):
                if val[0] == 'tuple' and k < len(val[1]):
                    self.assign_target(e, val[1][k], env, conds, node)
                elif val[0] == 'idx' and not any(isinstance(x, ast.Starred) for x in tgt.elts):
                    # unpacking an element of an array or list is indexing it: `h, j = rows[i]` is rows[i, 0], rows[i, 1]
                    self.assign_target(e, mkidx(val, ('const', k)), env, conds, node)
                else:
                    self.assign_target(e, ('proj', k, val), env, conds, node)
        elif isinstance(tgt, ast.Subscript):
            root = _root_name(tgt.value)
            idx = self.ex(tgt.slice, env)
            if isinstance(tgt.value, ast.Name):
                name = tgt.value.id
                base = env.get(name, ('name', self._qual(name)))
                env[name] = upd(base, idx, val)
                self.events.append(Event('store', conds, (name, idx, val, base), node))
            else:
                # store through an attribute / nested subscript: data.sampledata[F][sample] = v
                self.events.append(Event('deepstore', conds, (self.ex(tgt.value, env), idx, val, ast.unparse(tgt)), node))
                if root is not None and root in env:
                    # the access path from the root to the stored-into object, without local names
                    path_, v_ = [], tgt.value
                    while isinstance(v_, (ast.Subscript, ast.Attribute)):
                        path_.append('.' + v_.attr if isinstance(v_, ast.Attribute) else '[' + ckey(self.ex(v_.slice, env)) + ']')
                        v_ = v_.value
                    env[root] = ('out', 'deepstore', ''.join(reversed(path_)), ('tuple', (env[root], idx, val)))
        elif isinstance(tgt, ast.Attribute):
            self.events.append(Event('attrstore', conds, (self.ex(tgt.value, env), tgt.attr, val), node))
            if isinstance(tgt.value, ast.Name) and tgt.value.id in env:
                base = env[tgt.value.id]
                env[tgt.value.id] = ('setattr', base, tgt.attr, val)

    def _note_view(self, s, env):
        """x = a[..., :, ...] with a basic index (slices and integer constants only) binds x to a view of a"""
        views = dict(env.get('__views__', {}))
        for t in s.targets:
            if isinstance(t, ast.Name):
                views.pop(t.id, None)
        if len(s.targets) == 1 and isinstance(s.targets[0], ast.Name) and isinstance(s.value, ast.Subscript) and isinstance(s.value.value, ast.Name) \
                and s.value.value.id in env:
            idx = s.value.slice
            parts = idx.elts if isinstance(idx, ast.Tuple) else [idx]
            basic = all(isinstance(p_, ast.Slice) or (isinstance(p_, ast.Constant) and isinstance(p_.value, int)) or
                        (isinstance(p_, ast.UnaryOp) and isinstance(p_.operand, ast.Constant)) for p_ in parts)
            if basic and any(isinstance(p_, ast.Slice) for p_ in parts):
                root = s.value.value.id
                if root != s.targets[0].id:         # x = x[1:] rebinds x, the old array is not written to afterwards
                    views[s.targets[0].id] = (root, env[root], ast.unparse(s.value))
        env['__views__'] = views

    def block(self, stmts, env, conds):
        # guard clauses: after `if c: continue/return/raise` the rest of the block runs under (c, False), exactly as if it
        # had been written in the else arm
        guards = []
        env.pop('__newguard__', None)
        env.pop('__newguards__', None)
        env.pop('__blockguards__', None)
        for s in stmts:
            if env.get('__dead__'):
                break
            self.stmt(s, env, conds + guards)
            g = env.pop('__newguard__', None)
            if g is not None:
                guards.append(g)
            guards.extend(env.pop('__newguards__', ()))
        if guards and not env.get('__dead__'):
            # what is known at the end of a block that was left early on some paths; the enclosing `if` hands it on (see stmt)
            env['__blockguards__'] = list(guards)

    def stmt(self, s, env, conds):
        env['__conds__'] = tuple(conds)
        if False:
            pass
        elif isinstance(s, ast.Assign):
            val = self.ex(s.value, env)
            self._note_view(s, env)
            if len(s.targets) == 1 and isinstance(s.targets[0], ast.Name) and s.targets[0].id in env and val[0] == 'bin':
                # x = x op e (also through a temporary holding x) is read as x op= e; decided on terms, not on syntax
                cur = env[s.targets[0].id]
                if val[2] == cur and cur[0] != 'const':
                    self.events.append(Event('augname', conds, (s.targets[0].id, val[1], val[3], cur), s))
                elif val[3] == cur and cur[0] != 'const' and val[1] in ('Add', 'Mult'):
                    self.events.append(Event('augname', conds, (s.targets[0].id, val[1], val[2], cur), s))
            for tgt in s.targets:
                self.assign_target(tgt, val, env, conds, s)
        elif isinstance(s, ast.AnnAssign):
            if s.value is not None:
                self.assign_target(s.target, self.ex(s.value, env), env, conds, s)
        elif isinstance(s, ast.AugAssign):
            cur = self.ex(s.target, env)
            inc = self.ex(s.value, env)
            val = mkbin(BINOPS.get(type(s.op), type(s.op).__name__), cur, inc)
            if isinstance(s.target, ast.Name):
                self.events.append(Event('augname', conds, (s.target.id, BINOPS.get(type(s.op), type(s.op).__name__), inc, cur), s))
            self.assign_target(s.target, val, env, conds, s)
        elif isinstance(s, ast.Expr):
            t = self.ex(s.value, env)
            self.events.append(Event('expr', conds, (t,), s))
        elif isinstance(s, ast.Return):
            t = self.ex(s.value, env) if s.value else ('const', None)
            self.events.append(Event('return', conds, (t,), s))
            self.return_envs.append((list(conds), {p_: env.get(p_) for p_ in self.f.params}))
            env['__dead__'] = 'return'
        elif isinstance(s, ast.Raise):
            self.events.append(Event('raise', conds, (self.ex(s.exc, env) if s.exc else None,), s))
            env['__dead__'] = 'raise'
        elif isinstance(s, (ast.Break, ast.Continue)):
            if isinstance(s, ast.Continue) and getattr(self, '_cont_stack', None):
                self._cont_stack[-1].append((list(conds), dict(env)))
            self.events.append(Event(type(s).__name__.lower(), conds, (), s))
            env['__dead__'] = type(s).__name__.lower()
        elif isinstance(s, ast.If):
            c, pol = strip_not(self.ex(s.test, env))
            e1, e2 = dict(env), dict(env)
            self.block(s.body, e1, conds + [(c, pol)])
            self.block(s.orelse, e2, conds + [(c, not pol)])
            if not pol:
                e1, e2 = e2, e1         # e1 is always the environment of the arm where c holds
            d1, d2 = e1.pop('__dead__', None), e2.pop('__dead__', None)
            g1, g2 = e1.pop('__blockguards__', []), e2.pop('__blockguards__', [])
            if d1 and d2:
                env['__dead__'] = d1
                return
            if d1:
                env.clear(); env.update(e2); env['__newguards__'] = [(c, False)] + g2; return
            if d2:
                env.clear(); env.update(e1); env['__newguards__'] = [(c, True)] + g1; return
            # an arm that was left early on some of its paths (`if a: if b: break`): what follows runs only where that did not
            # happen, i.e. under not (a and b) - the same as after the merged form `if a and b: break`
            new = []
            for arm_pol, gs in ((True, g1), (False, g2)):
                if gs:
                    left = None
                    for t_, p_ in gs:
                        lit = mknot(t_) if p_ else t_          # the negation of what is known: this is where the arm was left
                        left = lit if left is None else mkbool('Or', left, lit)
                    new.append((mkbool('And', c if arm_pol else mknot(c), left), False))
            if new:
                env['__newguards__'] = new
            for k in set(e1) | set(e2):
                if k.startswith('__'):
                    continue
                a = e1.get(k, ('undef', k)); b = e2.get(k, ('undef', k))
                env[k] = a if a == b else ('phi', c, a, b)
        elif isinstance(s, (ast.For, ast.While)):
            self.loop(s, env, conds)
        elif isinstance(s, ast.With):
            for item in s.items:
                v = self.ex(item.context_expr, env)
                if item.optional_vars is not None:
                    self.assign_target(item.optional_vars, ('call', '.__enter__', (v,), (), None), env, conds, s)
            self.block(s.body, env, conds)
        elif isinstance(s, ast.Try):
            self.events.append(Event('try', conds, (), s))
            self.block(s.body, env, conds)
            env.pop('__dead__', None) if s.handlers else None
            merged = []
            for h in s.handlers:
                eh = dict(env)
                if h.name:
                    eh[h.name] = ('exc', h.name)
                self.events.append(Event('handler', conds, (ast.unparse(h.type) if h.type else None,), h))
                self.block(h.body, eh, conds + [(('handler', h.lineno), True)])
                if not eh.pop('__dead__', None):
                    merged.append((('caught', ast.unparse(h.type) if h.type else 'BaseException'), eh))
            # a handler that completes normally continues after the try statement with what it assigned
            for tag, eh in merged:
                for k in set(eh) | set(env):
                    if k.startswith('__') or k == getattr(s.handlers[0], 'name', None):
                        continue
                    a, b = eh.get(k, ('undef', k)), env.get(k, ('undef', k))
                    if a != b:
                        env[k] = ('phi', tag, a, b)
            self.block(s.orelse, env, conds)
            self.block(s.finalbody, env, conds)
        elif isinstance(s, (ast.Assert, ast.Pass, ast.Import, ast.ImportFrom, ast.Global, ast.Nonlocal)):
            if isinstance(s, ast.Assert):
                self.events.append(Event('assert', conds, (self.ex(s.test, env),), s))
        elif isinstance(s, (ast.FunctionDef, ast.ClassDef)):
            pass
        elif isinstance(s, ast.Delete):
            pass
        else:
            self.events.append(Event('unhandled', conds, (type(s).__name__,), s))

    def loop(self, s, env, conds):
        is_for = isinstance(s, ast.For)
        it = self.ex(s.iter, env) if is_for else None
        assigned, stored = set(), {}
        tnames = set()
        if is_for:
            tnames = {m.id for m in ast.walk(s.target) if isinstance(m, ast.Name)}
        body_nodes = list(s.body) + list(s.orelse)
        for top in body_nodes:
            for n in ast.walk(top):
                if isinstance(n, (ast.Assign, ast.AugAssign, ast.AnnAssign)):
                    tgts = n.targets if isinstance(n, ast.Assign) else [n.target]
                    for t in tgts:
                        for tt in (t.elts if isinstance(t, (ast.Tuple, ast.List)) else [t]):
                            if isinstance(tt, ast.Name):
                                assigned.add(tt.id)
                            elif isinstance(tt, ast.Subscript) and isinstance(tt.value, ast.Name):
                                stored.setdefault(tt.value.id, []).append(tt)
                            elif isinstance(tt, (ast.Subscript, ast.Attribute)):
                                r = _root_name(tt)
                                if r:
                                    assigned.add(r)
                elif isinstance(n, ast.For):
                    for m in ast.walk(n.target):
                        if isinstance(m, ast.Name):
                            assigned.add(m.id)
                elif isinstance(n, ast.Call):
                    for local in self.eff.mutated_args(self.f, n):
                        assigned.add(local)
        body_env = dict(env)
        if is_for:
            tgt = s.target
            if isinstance(tgt, (ast.Tuple, ast.List)) and len(tgt.elts) == 2 and all(isinstance(e_, ast.Name) for e_ in tgt.elts) \
                    and it[0] == 'call' and it[1] == 'enumerate' and len(it[2]) == 1 and not it[3]:
                # `for i, x in enumerate(xs)` is `for i in range(len(xs)): x = xs[i]`
                xs = it[2][0]
                i_ = ('loopvar', tgt.elts[0].id, ('call', 'range', (('call', 'len', (xs,), (), None),), (), None))
                body_env[tgt.elts[0].id] = i_
                body_env[tgt.elts[1].id] = mkidx(xs, i_)
                it = i_[2]          # the loop is entered over range(len(xs)), like its index form
            elif isinstance(tgt, (ast.Tuple, ast.List)) and all(isinstance(e_, ast.Name) for e_ in tgt.elts):
                # the position in the target tuple, not the name, tells the variables of one loop apart
                for k_, e_ in enumerate(tgt.elts):
                    body_env[e_.id] = ('loopvar', e_.id, ('proj', k_, it))
            else:
                for tn in tnames:
                    body_env[tn] = ('loopvar', tn, it)
        for name in assigned - tnames:
            if name in env:
                body_env[name] = ('carried', name, env[name])
        for name, tgts in stored.items():
            if name in assigned:
                continue
            pre = env.get(name, ('name', self._qual(name)))
            idxs = {ast.unparse(t.slice) for t in tgts}
            if len(idxs) == 1:
                names = {m.id for m in ast.walk(tgts[0].slice) if isinstance(m, ast.Name)}
                if not (names & (assigned | tnames)):
                    body_env[name] = ('havoc', pre, self.ex(tgts[0].slice, env))
                    continue
            body_env[name] = ('carried', name, pre)
        tag = ('inloop', s.lineno)
        lvs = []
        if is_for:
            for m in ast.walk(s.target):
                if isinstance(m, ast.Name) and isinstance(body_env.get(m.id), tuple) and body_env[m.id][0] == 'loopvar':
                    lvs.append((body_env[m.id][1], body_env[m.id][2]))
        self.events.append(Event('loop_enter', conds, (it, tuple(sorted(tnames)), tuple(lvs)), s))
        if not is_for:
            c = self.ex(s.test, body_env)
            self.events.append(Event('while_test', conds, (c,), s))
        if not hasattr(self, '_cont_stack'):
            self._cont_stack = []
        self._cont_stack.append([])
        self.block(s.body, body_env, conds + [(tag, True)])
        body_env.pop('__dead__', None)
        # a `continue` ends the iteration with the values it had there: merge them with the fall-through values, so that
        # `if c: continue; x += v` carries the same value as `if not c: x += v`
        for cconds, cenv in reversed(self._cont_stack.pop()):
            extra = [cp for cp in cconds[len(conds) + 1:] if not (isinstance(cp[0], tuple) and cp[0] and cp[0][0] == 'inloop')]
            for name in (assigned | set(stored)) - tnames:
                a, b = cenv.get(name), body_env.get(name)
                if a is None or b is None or a == b:
                    continue
                t = a
                for c, pol in reversed(extra):
                    t = ('phi', c, t, b) if pol else ('phi', c, b, t)
                body_env[name] = t
        self.events.append(Event('loop_exit', conds, (), s))
        for name in sorted((assigned | set(stored)) - tnames):
            if name in body_env:
                entry = ('carried', name, env[name]) if name in env else None
                if entry is not None and body_env[name] != entry:
                    # how a loop-carried value is advanced by one iteration (needed even when the value after the loop is unused)
                    self.events.append(Event('carry', conds, (entry, body_env[name]), s))
                env[name] = ('after', s.lineno, body_env[name])
        for tn in tnames:
            env[tn] = ('after', s.lineno, body_env.get(tn))

    def run(self):
        env = {}
        a = self.f.node.args
        for arg in a.posonlyargs + a.args + a.kwonlyargs:
            env[arg.arg] = ('param', arg.arg)
        if a.vararg:
            env[a.vararg.arg] = ('param', '*' + a.vararg.arg)
        if a.kwarg:
            env[a.kwarg.arg] = ('param', '**' + a.kwarg.arg)
        self.block(self.f.node.body, env, [])
        self.falls_through = not env.get('__dead__')
        self.env = env
        if not self.nonnull_dicts and not getattr(self, '_second_pass', False):
            cands = self._nonnull_dict_candidates()
            if cands:
                # second pass: `d.get(k)` / `d.get(k) is None` on these dictionaries are read as element access / membership test
                self.events, self.calls, self.return_envs = [], [], []
                self.nonnull_dicts = cands
                self._second_pass = True
                return self.run()
        return self

    def _nonnull_dict_candidates(self):
        """local names that are dictionaries, receive `.get(k)` somewhere, and into which only values that cannot be None are stored"""
        got = set()
        for n in ast.walk(self.f.node):
            if isinstance(n, ast.Call) and isinstance(n.func, ast.Attribute) and n.func.attr == 'get' and isinstance(n.func.value, ast.Name) \
                    and len(n.args) == 1 and not n.keywords:
                got.add(n.func.value.id)
        if not got:
            return set()
        params = set(self.f.params)
        inits, ok = {}, {}
        for n in ast.walk(self.f.node):
            if isinstance(n, ast.Assign) and len(n.targets) == 1 and isinstance(n.targets[0], ast.Name) and n.targets[0].id in got:
                v = n.value
                empty = (isinstance(v, ast.Dict) and not v.keys) or (isinstance(v, ast.Call) and isinstance(v.func, ast.Name) and v.func.id == 'dict' and not v.args and not v.keywords)
                inits.setdefault(n.targets[0].id, []).append(empty)
        out = set()
        for name in got:
            if name in params or not inits.get(name) or not all(inits[name]):
                continue
            stores = [ev for ev in self.events if ev.kind == 'store' and ev.data[0] == name]
            if stores and all(_cannot_be_none(ev.data[2]) for ev in stores):
                out.add(name)
        return out


def _cannot_be_none(t, depth=0):
    if depth > 6 or not isinstance(t, tuple) or not t:
        return False
    h = t[0]
    if h == 'const':
        return t[1] is not None
    if h in ('loopvar', 'bin', 'tuple', 'list'):
        return True
    if h == 'call':
        return t[1] in ('len', 'int', 'float', 'str', 'tuple', 'list') or t[1].startswith('numpy.')
    if h in ('carried', 'after'):
        return _cannot_be_none(t[2], depth + 1) if len(t) > 2 else False
    if h == 'phi':
        return _cannot_be_none(t[2], depth + 1) and _cannot_be_none(t[3], depth + 1)
    return False


def _length_of(t):
    """length of a freshly allocated array as a term, if the allocation says it"""
    while t[0] == 'call' and t[1] in ('.astype', '.copy') and t[2]:
        t = t[2][0]
    if t[0] == 'call' and t[1] in ('numpy.zeros', 'numpy.ones', 'numpy.empty', 'numpy.full') and t[2]:
        shape = t[2][0]
        if shape[0] == 'tuple':
            return shape[1][0] if shape[1] else None
        if shape[0] in ('param', 'call', 'bin', 'attr', 'proj', 'const', 'idx'):
            return shape
    return None


def _append(lst, item):
    if lst[0] == 'list':
        return ('list', lst[1] + (item,))
    if lst[0] == 'phi':
        a, b = _append(lst[2], item), _append(lst[3], item)
        if a is not None and b is not None:
            return ('phi', lst[1], a, b)
    return None


def upd(base, idx, val):
    """in-place cell store with same-cell kill.

    A store to a cell kills every earlier store to the syntactically identical cell, also across
    intermediate stores to other cells (if the other cell aliases this one the later store still
    wins, so dropping the earlier one never changes the final content)."""
    chain = []
    b = base
    while b[0] in ('upd', 'havoc'):
        chain.append(b)
        b = b[1]
    if any(c[2] == idx for c in chain):
        rebuilt = b
        for c in reversed(chain):
            if c[2] == idx:
                continue
            rebuilt = (c[0], rebuilt) + tuple(c[2:])
        base = rebuilt
    return ('upd', base, idx, val)


# ---------------------------------------------------------------------- utilities
SIGNATURES = {}   # qualified name -> parameter names of repository functions (filled when a program is loaded)
DUAL = set()     # qualified names of repository functions whose call terms carry both views of their arguments


def _scalar_index(t):
    """an index that certainly selects one position of one axis: a loop variable over range() (an integer constant does too, but
    `np.where(m)[0][i]` indexes a tuple first, and a tuple cannot take `[0, i]`)"""
    if t[0] == 'loopvar':
        return isinstance(t[2], tuple) and t[2][:2] == ('call', 'range')
    return False


def mkidx(base, index):
    """a[i][j, k] and a[i, j, k] are one term when i certainly is a scalar index (so that naming a row `row = a[i]` and
    indexing the row is the same as indexing the array)"""
    if base[0] == 'idx':
        inner = base[2]
        parts = inner[1] if inner[0] == 'tuple' else (inner,)
        if all(_scalar_index(p_) for p_ in parts):
            outer = index[1] if index[0] == 'tuple' else (index,)
            return ('idx', base[1], ('tuple', tuple(parts) + tuple(outer)))
    return ('idx', base, index)


def mkcall(q, *args, uid=None, **kw):
    """call term of a repository function in the one form Recon produces, whatever mix of positional / keyword arguments"""
    params = SIGNATURES.get(q)
    if params is None:
        return ('call', q, tuple(args), tuple(sorted(kw.items())), uid)
    supplied = dict(zip(params, args))
    supplied.update(kw)
    last = max((params.index(k) for k in supplied), default=-1)
    return ('call', q, tuple(supplied.get(p_, ('default', p_)) for p_ in params[:last + 1]), tuple(sorted(supplied.items())), uid)


def walk(t):
    """pre-order walk over all sub-terms (the arguments of a repository call are visited once, through the keyword view)"""
    stack = [t]
    while stack:
        x = stack.pop()
        if isinstance(x, tuple):
            if x and isinstance(x[0], str):
                yield x
                if x[0] == 'call' and len(x) > 3 and x[1] in DUAL and len(x[2]) and len(x[3]) >= len([a for a in x[2] if a[:1] != ('default',)]):
                    stack.extend(v for _, v in x[3])
                    continue
            stack.extend(y for y in x if isinstance(y, tuple))


def calls_to(t, qname_suffix):
    return [x for x in walk(t) if x[0] == 'call' and (x[1] == qname_suffix or x[1].endswith('.' + qname_suffix))]


def subst(t, fn, memo=None):
    """bottom-up rewrite: fn(term) -> term or None. Shared sub-terms (same object) are rewritten once."""
    if memo is None:
        memo = {}
    if not isinstance(t, tuple):
        return t
    key = id(t)
    hit = memo.get(key)
    if hit is not None and hit[0] is t:
        return hit[1]
    changed = False
    items = []
    for x in t:
        y = subst(x, fn, memo) if isinstance(x, tuple) else x
        if y is not x:
            changed = True
        items.append(y)
    new = tuple(items) if changed else t
    r = fn(new)
    res = new if r is None else r
    memo[key] = (t, res)
    return res


def _same_name(n, tgt):
    return isinstance(n, ast.Name) and n.id == tgt.id


_CKEY = {}


def ckey(t):
    """ordering key that does not depend on local names: loop-variable names, carried names and allocation uids are masked"""
    if not isinstance(t, tuple) or not t:
        return repr(t)
    k = _CKEY.get(t)
    if k is not None:
        return k
    h = t[0]
    if not isinstance(h, str):
        k = '(' + ','.join(ckey(x) for x in t) + ')'
    elif h == 'loopvar':
        k = 'lv(' + ckey(t[2]) + ')'
    elif h == 'carried':
        k = 'cr(' + ckey(t[2]) + ')' if len(t) > 2 else 'cr'
    elif h == 'after':
        k = 'af(' + ckey(t[2]) + ')'          # the line number of the loop is not part of the ordering key
    elif h == 'call':
        k = 'call(' + t[1] + ',' + ','.join(ckey(x) for x in t[2]) + ';' + ','.join(kw + '=' + ckey(v) for kw, v in t[3]) + ')'
    else:
        k = h + '(' + ','.join(ckey(x) for x in t[1:]) + ')'
    if len(_CKEY) > 200000:
        _CKEY.clear()
    _CKEY[t] = k
    return k


_TEXT_CALLS = {'str', 'list', 'tuple', 'numpy.char.add', 'mchap.io.vcf.util.vcfstr'}


def _texty(t):
    """may denote a string / list / tuple, for which + is concatenation and must keep its order"""
    if not isinstance(t, tuple) or not t:
        return False
    if t[0] == 'const':
        return isinstance(t[1], (str, bytes))
    if t[0] in ('tuple', 'list', 'comp', 'dict'):
        return True
    if t[0] == 'call':
        return t[1] in _TEXT_CALLS or t[1].endswith('.format') or t[1].endswith('.join')
    if t[0] == 'bin' and t[1] in ('Add', 'Mult'):
        return _texty(t[2]) or _texty(t[3])
    return False


def mkbin(op, a, b):
    """binary term with the operands of + and * in a canonical order (constants last, then by name-independent key)"""
    if op in ('Add', 'Mult', 'BitAnd', 'BitOr') and not _texty(a) and not _texty(b):
        ka = (a[0] == 'const', ckey(a))
        kb = (b[0] == 'const', ckey(b))
        if kb < ka:
            a, b = b, a
    return ('bin', op, a, b)


_CMP_FLIP = {'Lt': 'Gt', 'Gt': 'Lt', 'LtE': 'GtE', 'GtE': 'LtE', 'Eq': 'Eq', 'NotEq': 'NotEq'}
_CMP_NEG = {'Eq': 'NotEq', 'NotEq': 'Eq', 'Is': 'IsNot', 'IsNot': 'Is', 'In': 'NotIn', 'NotIn': 'In'}


def _is_count(t):
    """a length or an extent: an integer that cannot be negative"""
    return isinstance(t, tuple) and t and ((t[0] == 'call' and t[1] == 'len') or (t[0] == 'proj' and isinstance(t[2], tuple) and t[2][:1] == ('attr',) and t[2][2] == 'shape')
                                           or (t[0] == 'attr' and t[2] == 'size'))


def mkcmp(op, a, b):
    """comparison with its operands in canonical order (constants last): `0 < x` and `x > 0` are one term; for a length,
    `> 0`, `>= 1` are `!= 0` and `<= 0`, `< 1` are `== 0`"""
    if op in _CMP_FLIP:
        ka = (a[0] == 'const', ckey(a))
        kb = (b[0] == 'const', ckey(b))
        if kb < ka:
            op, a, b = _CMP_FLIP[op], b, a
    if _is_count(a) and b[0] == 'const' and not isinstance(b[1], bool):
        if (op, b[1]) in (('Gt', 0), ('GtE', 1)):
            return ('cmp', 'NotEq', a, ('const', 0))
        if (op, b[1]) in (('LtE', 0), ('Lt', 1)):
            return ('cmp', 'Eq', a, ('const', 0))
    return ('cmp', op, a, b)


def mknot(x):
    """`not` pushed into ==, is, in (exact in Python) and double negation removed"""
    if x[0] == 'cmp' and x[1] in _CMP_NEG:
        return ('cmp', _CMP_NEG[x[1]], x[2], x[3])
    if x[0] == 'un' and x[1] == 'Not':
        return x[2]
    return ('un', 'Not', x)


# parameters of the function being summarised that it uses as array indices or range bounds (set by refspec.Summary for the time it
# summarises one function): they are integers, or the function would raise
INT_PARAMS: set = set()
INT_ARRAY_PARAMS: set = set()
INT_TERMS: set = set()      # terms the function uses as a scalar array index somewhere (set by refspec.Summary while it summarises)


def int_array_params(fn):
    """parameters that the numpy-style docstring declares as integer arrays (`name : ndarray, int, shape (..)`)"""
    import ast as _ast, re as _re
    doc = _ast.get_docstring(fn) or ''
    out = set()
    for m in _re.finditer(r'^\s*(\w+(?:\s*,\s*\w+)*)\s*:\s*(.+)$', doc, _re.M):
        typ = m.group(2).lower()
        if 'ndarray' in typ and _re.search(r'\bint\b', typ) and 'float' not in typ:
            for nm in m.group(1).split(','):
                out.add(nm.strip())
    params = {a.arg for a in fn.args.posonlyargs + fn.args.args + fn.args.kwonlyargs}
    return out & params


def int_params(fn):
    """names of parameters used as an element of a subscript index or as an argument of range() in the function"""
    import ast as _ast
    params = {a.arg for a in fn.args.posonlyargs + fn.args.args + fn.args.kwonlyargs}
    out = set()

    def names_of(e):
        if isinstance(e, _ast.Name):
            return {e.id}
        if isinstance(e, _ast.BinOp) and isinstance(e.op, (_ast.Add, _ast.Sub, _ast.Mult, _ast.FloorDiv, _ast.Mod)):
            return names_of(e.left) | names_of(e.right)
        if isinstance(e, _ast.Tuple):
            return set().union(*[names_of(x) for x in e.elts]) if e.elts else set()
        return set()
    for n in _ast.walk(fn):
        if isinstance(n, _ast.Subscript):
            out |= names_of(n.slice)
        elif isinstance(n, _ast.Call) and isinstance(n.func, _ast.Name) and n.func.id == 'range':
            for a in n.args:
                out |= names_of(a)
    return out & params


def is_int_term(t, depth=0):
    """the term is integer-valued whatever the inputs (lengths, shapes, range variables, integer constants and their sums, differences
    and products): for such operands `a <= b` is exactly `not a > b` (no NaN)"""
    if depth > 8 or not isinstance(t, tuple) or not t:
        return False
    h = t[0]
    if h == 'const':
        return isinstance(t[1], int) and not isinstance(t[1], bool)
    if h == 'param':
        return t[1] in INT_PARAMS
    if h == 'idx':
        # an element of a parameter that the docstring declares as an integer array
        b = t[1]
        while isinstance(b, tuple) and b and b[0] in ('carried', 'after') and len(b) > 2:
            b = b[2]
        if isinstance(b, tuple) and b[:1] == ('param',) and b[1] in INT_ARRAY_PARAMS:
            return True
    if h == 'call':
        return t[1] in ('len', 'int', '.count', '.index')
    if h == 'proj':
        return isinstance(t[2], tuple) and t[2][:1] == ('attr',) and t[2][2] == 'shape'
    if h == 'attr':
        return t[2] in ('size', 'ndim')
    if h == 'loopvar':
        it = t[2]
        return isinstance(it, tuple) and it[:2] == ('call', 'range')
    if h == 'bin':
        return t[1] in ('Add', 'Sub', 'Mult', 'FloorDiv', 'Mod') and is_int_term(t[2], depth + 1) and is_int_term(t[3], depth + 1)
    if h == 'un':
        return t[1] == 'USub' and is_int_term(t[2], depth + 1)
    if h == 'phi':
        if is_int_term(t[2], depth + 1) and is_int_term(t[3], depth + 1):
            return True
    if h == 'phitable':
        # a decision table (refspec._phitable) is an integer when every value it can select is one
        return len(t) > 3 and bool(t[3]) and all(is_int_term(x, depth + 1) for x in t[3])
    if INT_TERMS and h in ('idx', 'phi', 'carried', 'after'):
        try:
            return int_shape(t) in INT_TERMS
        except TypeError:
            return False
    return False


def int_shape(t):
    """the term with the names of loop variables and loop-carried values blanked: INT_TERMS is consulted at every stage of the
    normalisation (raw, renumbered, masked), and an index is an integer under any of those spellings"""
    if not isinstance(t, tuple) or not t:
        return t
    if t[0] == 'loopvar' and len(t) >= 3:
        return ('loopvar', '?', int_shape(t[2])) + tuple(int_shape(x) for x in t[3:])
    if t[0] == 'carried' and len(t) >= 2:
        return ('carried', '?') + tuple(int_shape(x) for x in t[2:])
    return tuple(int_shape(x) for x in t)


_INT_NEG = {'LtE': 'Gt', 'GtE': 'Lt'}


def strip_not(c):
    """(condition, polarity): `if not c: A else: B` is read as `if c: B else: A`"""
    pol = True
    while c[0] == 'un' and c[1] == 'Not':
        c = c[2]
        pol = not pol
    if c[0] == 'cmp' and c[1] in ('NotEq', 'NotIn', 'IsNot'):
        # decisions are kept in positive form: `if a != b: X else: Y` is `if a == b: Y else: X`
        c, pol = ('cmp', _CMP_NEG[c[1]], c[2], c[3]), not pol
    elif c[0] == 'cmp' and c[1] in _INT_NEG and is_int_term(c[2]) and is_int_term(c[3]):
        # integer operands: `if n <= k: X else: Y` is `if n > k: Y else: X`
        c, pol = mkcmp(_INT_NEG[c[1]], c[2], c[3]), not pol
    return c, pol


def positive(c, pol):
    """(condition, polarity) with !=, not in, is not rewritten to their positive form"""
    if isinstance(c, tuple) and c and c[0] == 'cmp' and c[1] in ('NotEq', 'NotIn', 'IsNot'):
        return ('cmp', _CMP_NEG[c[1]], c[2], c[3]), not pol
    if isinstance(c, tuple) and c and c[0] == 'cmp' and c[1] in _INT_NEG and is_int_term(c[2]) and is_int_term(c[3]):
        return mkcmp(_INT_NEG[c[1]], c[2], c[3]), not pol
    return c, pol


def path(ev, after=None):
    """path condition of an event: [(condition, polarity)] without the in-loop markers, in positive form; `after` drops
    everything up to and including the marker of the given loop statement"""
    out, seen = [], after is None
    for c, pol in ev.conds:
        if isinstance(c, tuple) and c and c[0] == 'inloop':
            if not seen and c[1] == after:
                seen, out = True, []
            continue
        out.append(positive(c, pol))
    return out if seen else None


def mkbool(op, a, b):
    a, b = sorted((a, b), key=lambda v: (v[0] == 'const', ckey(v)))
    return ('bool', op, a, b)


def atoms(conds):
    """path condition as a set of (atom, polarity): a true conjunction / false disjunction is split into its parts"""
    out = set()
    todo = list(conds)
    while todo:
        c, pol = todo.pop()
        c, pol = strip_not(c) if pol else (lambda cp: (cp[0], not cp[1]))(strip_not(c))
        if isinstance(c, tuple) and c and c[0] == 'bool' and ((c[1] == 'And' and pol) or (c[1] == 'Or' and not pol)):
            todo.append((c[2], pol))
            todo.append((c[3], pol))
        else:
            out.add((c, pol))
    return out


def mkphi(c, a, b):
    c, pol = strip_not(c)
    return ('phi', c, a, b) if pol else ('phi', c, b, a)


def canon(t):
    """re-establish the canonical operand order after a substitution"""
    def rule(x):
        if x and x[0] == 'bin':
            y = mkbin(x[1], x[2], x[3])
            if y != x:
                return y
        if x and x[0] == 'cmp':
            y = mkcmp(x[1], x[2], x[3])
            if y != x:
                return y
        return None
    return subst(t, rule)


def simplify(t):
    """idx(upd(x,c,v),c) -> v ; upd(x,c,idx(x,c)) -> x ; strip 'after' wrappers"""
    def rule(x):
        if x and x[0] == 'dget':
            return mkidx(x[1], x[2])
        if x and x[0] == 'phi' and isinstance(x[1], tuple) and x[1] and x[1][0] in ('cmp', 'bool') and x[2] == ('const', True) and x[3] == ('const', False):
            return x[1]                 # `flag = True if c else False` is `flag = c`
        if x and x[0] == 'phi' and isinstance(x[1], tuple) and x[1] and x[1][0] in ('cmp', 'bool') and x[2] == ('const', False) and x[3] == ('const', True):
            return mknot(x[1])
        if x and x[0] == 'idx' and isinstance(x[1], tuple) and x[1] and x[1][0] == 'upd' and x[1][2] == x[2]:
            return x[1][3]
        if x and x[0] == 'upd':
            y = upd(x[1], x[2], x[3])
            if y != x:
                return y
            # storing back the content the cell had in the root array, with no other store to it
            root = x[1]
            while root[0] == 'upd':
                root = root[1]
            if isinstance(x[3], tuple) and x[3] and x[3][0] == 'idx' and x[3][1] == root and x[3][2] == x[2]:
                return x[1]
        return None
    prev = None
    while prev != t:
        prev = t
        t = subst(t, rule)
    return canon(t)


def alpha(t):
    """canonical names for loop variables and loop-carried values (order of first appearance)"""
    names = {}

    def rule(x):
        if x and x[0] == 'loopvar':
            key = ('lv', x[1], x[2])
            if key not in names:
                names[key] = f"#v{len(names)}"
            return ('loopvar', names[key], x[2])
        if x and x[0] == 'carried':
            return ('carried', '#', x[2])
        if x and x[0] == 'call' and len(x) > 4 and x[4] is not None and not (isinstance(x[4], tuple) and x[4] and x[4][0] == '#a'):
            key = ('uid', x[4])
            if key not in names:
                names[key] = ('#a', sum(1 for k in names if k[0] == 'uid'))
            return x[:4] + (names[key],)
        return None
    return subst(t, rule)


OPS = {'Add': '+', 'Sub': '-', 'Mult': '*', 'Div': '/', 'FloorDiv': '//', 'Mod': '%', 'Pow': '**',
       'BitAnd': '&', 'BitOr': '|', 'Eq': '==', 'NotEq': '!=', 'Lt': '<', 'LtE': '<=', 'Gt': '>',
       'GtE': '>=', 'Is': 'is', 'IsNot': 'is not', 'In': 'in', 'NotIn': 'not in', 'And': 'and', 'Or': 'or'}


def show(t, short=True):
    if not isinstance(t, tuple) or not t:
        return repr(t)
    k = t[0]
    if k == 'param': return t[1]
    if k == 'name': return t[1].replace('mchap.', '') if short else t[1]
    if k == 'const': return repr(t[1])
    if k == 'loopvar': return t[1]
    if k in ('bin', 'cmp', 'bool'):
        return f"({show(t[2], short)} {OPS.get(t[1], t[1])} {show(t[3], short)})"
    if k == 'un':
        return {'USub': '-', 'Not': 'not ', 'Invert': '~', 'UAdd': '+'}.get(t[1], t[1]) + show(t[2], short)
    if k == 'call':
        name = t[1].split('.')[-1] if (short and t[1].startswith('mchap.')) else t[1]
        a = ([] if t[1] in DUAL and t[3] else [show(x, short) for x in t[2]]) + [f"{kw}={show(v, short)}" for kw, v in t[3]]
        return f"{name}({', '.join(a)})"
    if k == 'idx': return f"{show(t[1], short)}[{show(t[2], short)}]"
    if k == 'upd': return f"{show(t[1], short)}{{{show(t[2], short)}:={show(t[3], short)}}}"
    if k == 'havoc': return f"{show(t[1], short)}{{{show(t[2], short)}:=?}}"
    if k == 'out': return f"{t[1].split('.')[-1]}→{t[2]}<{show(t[3], short)}>"
    if k == 'phi': return f"φ[{show(t[1], short)} ? {show(t[2], short)} : {show(t[3], short)}]"
    if k in ('tuple', 'list'):
        return ("(" if k == 'tuple' else "[") + ", ".join(show(x, short) for x in t[1]) + (")" if k == 'tuple' else "]")
    if k == 'proj': return f"{show(t[2], short)}.{t[1]}"
    if k == 'attr': return f"{show(t[1], short)}.{t[2]}"
    if k == 'carried': return f"carried:{t[1]}"
    if k == 'after': return f"after{t[1]}<{show(t[2], short)}>"
    if k == 'slice':
        return f"{show(t[1], short) if t[1] else ''}:{show(t[2], short) if t[2] else ''}" + (f":{show(t[3], short)}" if t[3] else '')
    if k == 'comp': return f"[{show(t[2], short)} for … in {', '.join(show(g, short) for g in t[3])}]"
    if k == 'opaque': return f"‹{t[1]}›"
    return str(t)
