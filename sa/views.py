"""Stale views (zero expected).

numpy basic slicing (`v = a[:, 0]`) returns a view.  If `a` is stored into afterwards and `v` is read after that, `v` shows the new
content, although every reader - and the value semantics of the term reconstruction in terms.py - takes it for the content at the
time of the slice.  A seeded change of round b (find-snvs: `reference_identified = keep[:, 0]; keep[:, 0] = True;
reference_masked = ~reference_identified`, REFMASKED never emitted) showed that this is where value-semantic rules, reference
agreement included, are blind: both versions reconstruct to the same term.  The rule reports every read of such a view after a store
to its base array.  None exists on the confirmed tree; a built-in example must be found on every run."""
from __future__ import annotations
import ast
from .model import Func, AnalysisError
from .terms import Recon
from .mustpass import owners

_EXAMPLE = '''
def _stale_view_example(keep):
    seen = keep[:, 0]
    keep[:, 0] = True
    return ~seen
'''


def selftest(ctx):
    anyf = next(iter(ctx.prog.funcs.values()))
    node = ast.parse(_EXAMPLE).body[0]
    r = Recon(ctx.prog, ctx.eff, Func(anyf.module.modname + '._stale_view_example', anyf.module, node)).run()
    if not any(ev.kind == 'stale_view' for ev in r.events):
        raise AnalysisError("stale-view detector no longer recognises its built-in example")


def run(ctx, pid):
    selftest(ctx)
    rule = f"R{pid[1:]}.V/stale-view"
    n = 0
    hits = []
    for fq, f in ctx.prog.funcs.items():
        if pid not in owners(fq):
            continue
        n += 1
        r = ctx.recon(fq)
        for ev in r.events:
            if ev.kind == 'stale_view':
                hits.append((f, ev))
    scope = f"{n} functions of the modules this property owns"
    if not hits:
        ctx.ok(rule, f"mchap/**::views[{pid}]", f"{scope}: no view of an array is read after a store to that array (detector self-test passed)")
    for f, ev in hits:
        name, root, expr = ev.data
        ctx.violation(rule, f.construct(ctx.ordinal(f.qname, f"view {expr}")),
                      f"`{name} = {expr}` is a view of `{root}`; `{root}` is stored into before `{name}` is read at line {ev.lineno}, so `{name}` holds the "
                      f"new content, not the content at the time of the slice (copy it, or read it before the store)", f.where(ev.node))
    return n
