#!/usr/bin/env python3
"""Checker validation both ways: breaking edits must fire, neutral edits must stay silent."""
import sys, os, shutil, tempfile, pathlib, subprocess, json, importlib, io, contextlib
from concurrent.futures import ProcessPoolExecutor
HERE = pathlib.Path(__file__).resolve().parent
sys.path.insert(0, str(HERE))

def load_corpus(pid):
    mod = importlib.import_module(f"mutants.{pid.lower()}")
    return mod.MUTANTS

def run_one(args):
    pid, root, m = args
    name, relfile, old, new, expect, rule_sub = m
    tmp = tempfile.mkdtemp(prefix="sa_mut_")
    try:
        dst = pathlib.Path(tmp) / "mchap"
        shutil.copytree(pathlib.Path(root) / "mchap", dst, ignore=shutil.ignore_patterns("tests", "__pycache__", "*.nbi", "*.nbc"))
        p = pathlib.Path(tmp) / relfile
        s = p.read_text()
        if s.count(old) != 1:
            return (name, "BROKEN-MUTANT", f"pattern occurs {s.count(old)} times in {relfile}")
        p.write_text(s.replace(old, new))
        # must still compile
        try:
            compile(p.read_text(), str(p), "exec")
        except SyntaxError as e:
            return (name, "BROKEN-MUTANT", f"does not compile: {e}")
        out = subprocess.run([sys.executable, str(HERE / "check.py"), pid, "--root", tmp, "--evidence", tmp + "/ev"],
                             capture_output=True, text=True)
        fired = [l for l in out.stdout.splitlines() if l.strip().startswith("rule=")]
        if expect == "fire":
            if out.returncode == 1 and any(rule_sub in l for l in fired):
                return (name, "PASS", fired[0].strip()[:160])
            return (name, "FAIL", f"exit={out.returncode} fired={fired[:2]} tail={out.stdout.splitlines()[-2:]}")
        else:
            if out.returncode == 0:
                return (name, "PASS", "silent")
            if out.returncode == 1 and fired and all(('.H/reference-agreement' in l or '.S/slice-agreement' in l) for l in fired):
                # an edit the templates accept as behaviour-preserving but that changes the summary of a referenced function
                # (a redundant recomputation, an equivalence that holds for integers only): reported, by design - see DESIGN.md 10.3
                return (name, "REFERENCE-ONLY", fired[0].strip()[:160])
            return (name, "FAIL", f"exit={out.returncode} {fired[:2]} {[l for l in out.stdout.splitlines() if 'ANALYSIS' in l][:1]}")
    finally:
        shutil.rmtree(tmp, ignore_errors=True)

def main():
    pid = sys.argv[1]
    root = sys.argv[2] if len(sys.argv) > 2 else "/repo"
    corpus = load_corpus(pid)
    with ProcessPoolExecutor(max_workers=16) as ex:
        res = list(ex.map(run_one, [(pid, root, m) for m in corpus]))
    bad = 0
    for name, status, info in res:
        print(f"{status:14s} {name}: {info}")
        bad += status not in ("PASS", "REFERENCE-ONLY")
    print(f"{pid}: {len(res) - bad}/{len(res)} corpus entries behave as expected")
    sys.exit(2 if bad else 0)

if __name__ == "__main__":
    main()
