"""Thorough tier: the quick verdict is re-derived on behaviour-preserving rewritings of the whole tree (the analysis must not
depend on how a computation is written down) and the checker's sensitivity is re-confirmed by applying the corpus of breaking
and neutral edits to the *current* tree.  Neither part can turn a pass into a violation: disagreements are reported as
SELFTEST-WARNING lines and in the evidence file; only the analysis of the tree as it is decides the exit code."""
import os, sys, shutil, subprocess, pathlib, importlib
from concurrent.futures import ThreadPoolExecutor
HERE = pathlib.Path(__file__).resolve().parent
KINDS = ["T2", "T4", "T5", "T6", "T8", "T12", "T13", "TALL"]


def _verdict(pid, root):
    r = subprocess.run([sys.executable, str(HERE / "check.py"), pid, "--root", root, "--evidence", os.path.join(root, "ev")],
                       capture_output=True, text=True, env=dict(os.environ, VERIF_TIER="quick"))
    keys = sorted(l.strip().split(" at ")[0] for l in r.stdout.splitlines() if l.strip().startswith("rule="))
    known = sorted(l.split("rule=", 1)[1].split(" ")[0] + " " + l.split("construct=", 1)[1].split(" ")[0] for l in r.stdout.splitlines() if l.startswith("KNOWN-FINDING:") and "construct=" in l)
    return r.returncode, keys, known


def deepen(pid, root, base_keys):
    import neutral, selftest
    out = {"neutral": {}, "corpus": {}}
    warnings = []

    def one_kind(kind):
        tmp = neutral.transform(root, kind)
        try:
            code, keys, _ = _verdict(pid, tmp)
        finally:
            shutil.rmtree(tmp, ignore_errors=True)
        return kind, code, keys
    with ThreadPoolExecutor(max_workers=8) as ex:
        for kind, code, keys in ex.map(one_kind, KINDS):
            agree = code != 2 and keys == base_keys
            out["neutral"][kind] = "same verdict" if agree else f"exit {code}, {len(keys)} violation(s)"
            if not agree:
                warnings.append(f"SELFTEST-WARNING property={pid} verdict changes under behaviour-preserving rewriting {kind}: {[k for k in keys if k not in base_keys][:2]}")
    try:
        corpus = selftest.load_corpus(pid)
    except Exception:
        corpus = []
    with ThreadPoolExecutor(max_workers=8) as ex:
        res = list(ex.map(selftest.run_one, [(pid, root, m) for m in corpus]))
    applied = [r for r in res if r[1] != "BROKEN-MUTANT"]
    out["corpus"] = {"entries": len(corpus), "applicable_to_this_tree": len(applied), "as_expected": sum(1 for r in applied if r[1] == "PASS"),
                     "not_applicable": [r[0] for r in res if r[1] == "BROKEN-MUTANT"][:10]}
    for name, status, info in applied:
        if status != "PASS":
            warnings.append(f"SELFTEST-WARNING property={pid} corpus entry '{name}' did not behave as expected: {info[:160]}")
    return out, warnings
