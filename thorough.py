"""Thorough tier: the quick verdict is re-derived on behaviour-preserving rewritings of the whole tree (the analysis must not
depend on how a computation is written down) and the checker's sensitivity is re-confirmed by applying the corpus of breaking
and neutral edits to the *current* tree.  Neither part can turn a pass into a violation: disagreements are reported as
SELFTEST-WARNING lines and in the evidence file; only the analysis of the tree as it is decides the exit code."""
import os, sys, shutil, subprocess, pathlib, importlib
from concurrent.futures import ThreadPoolExecutor
HERE = pathlib.Path(__file__).resolve().parent
KINDS = ["T2", "T4", "T5", "T6", "T8", "T12", "T13", "TALL"]


def _verdict(pid, root):
    r = subprocess.run([sys.executable, str(HERE / "check.py"), pid, "--root", root, "--evidence", os.path.join(root, "ev")],
                       capture_output=True, text=True, env=dict(os.environ, VERIF_TIER="quick"))
    keys = sorted(l.strip().split(" at ")[0] for l in r.stdout.splitlines() if l.strip().startswith("rule="))
    known = sorted(l.split("rule=", 1)[1].split(" ")[0] + " " + l.split("construct=", 1)[1].split(" ")[0] for l in r.stdout.splitlines() if l.startswith("KNOWN-FINDING:") and "construct=" in l)
    return r.returncode, keys, known


def deepen(pid, root, base_keys):
    import neutral, selftest
    out = {"neutral": {}, "corpus": {}}
    warnings = []

    def one_kind(kind):
        tmp = neutral.transform(root, kind)
        try:
            code, keys, _ = _verdict(pid, tmp)
        finally:
            shutil.rmtree(tmp, ignore_errors=True)
        return kind, code, keys
    with ThreadPoolExecutor(max_workers=8) as ex:
        for kind, code, keys in ex.map(one_kind, KINDS):
            agree = code != 2 and keys == base_keys
            out["neutral"][kind] = "same verdict" if agree else f"exit {code}, {len(keys)} violation(s)"
            if not agree:
                warnings.append(f"SELFTEST-WARNING property={pid} verdict changes under behaviour-preserving rewriting {kind}: {[k for k in keys if k not in base_keys][:2]}")
    try:
        corpus = selftest.load_corpus(pid)
    except Exception:
        corpus = []
    with ThreadPoolExecutor(max_workers=8) as ex:
        res = list(ex.map(selftest.run_one, [(pid, root, m) for m in corpus]))
    applied = [r for r in res if r[1] != "BROKEN-MUTANT"]
    out["corpus"] = {"entries": len(corpus), "applicable_to_this_tree": len(applied), "as_expected": sum(1 for r in applied if r[1] == "PASS"),
                     "neutral_edits_reported_by_reference_agreement_only": [r[0] for r in applied if r[1] == "REFERENCE-ONLY"],
                     "not_applicable": [r[0] for r in res if r[1] == "BROKEN-MUTANT"][:10]}
    for name, status, info in applied:
        if status not in ("PASS", "REFERENCE-ONLY"):
            warnings.append(f"SELFTEST-WARNING property={pid} corpus entry '{name}' did not behave as expected: {info[:160]}")
    try:
        out["mutation_sweep"] = mutation_sweep(pid, root)
    except Exception as e:          # advisory, like everything in this tier
        out["mutation_sweep"] = {"error": f"{type(e).__name__}: {e}"}
    return out, warnings


def mutation_sweep(pid, root, per_function=6, cap=160):
    """Sensitivity of this property's check on the tree as it is: every function the check analyses is mutated mechanically at the
    AST level (relational / arithmetic operator, constant, argument or keyword exchange, statement deletion, parameter substitution;
    one site per mutant, sites drawn with VERIF_SEED), the check is run on each mutant, and the outcome is counted.  A silent
    mutant is not a defect of the tree and not necessarily one of the checker (many are equivalent: decorator flags, asserts,
    initial states); the list is kept in the evidence file for reading."""
    import ast, json, random, tempfile, collections
    import mutscore
    rng = random.Random(int(os.environ.get("VERIF_SEED", "0")) + 20260101)
    evd = tempfile.mkdtemp(prefix="sa_ev_")
    try:
        subprocess.run([sys.executable, str(HERE / "check.py"), pid, "--root", root, "--evidence", evd], capture_output=True, env=dict(os.environ, VERIF_TIER="quick"))
        funcs = json.load(open(os.path.join(evd, pid + ".json")))["coverage"]["functions_analysed"]
    finally:
        shutil.rmtree(evd, ignore_errors=True)
    mutants = []
    for fq in funcs:
        rel, qual = mutscore.module_of(root, fq)
        if rel is None:
            continue
        src = pathlib.Path(root, rel).read_text()
        fn = mutscore.find_function(ast.parse(src), qual)
        if fn is None:
            continue
        ss = [x for x in mutscore.sites(fn) if not (x[0] == 'CR' and 'True' in x[2] and 'line %d' % fn.lineno in x[2])]
        rng.shuffle(ss)
        bykind = collections.defaultdict(list)
        for x in ss:
            bykind[x[0]].append(x)
        chosen = []
        while len(chosen) < per_function and any(bykind.values()):
            for k in sorted(bykind):
                if bykind[k] and len(chosen) < per_function:
                    chosen.append(bykind[k].pop())
        base = ast.unparse(ast.parse(src))
        for kind, where, desc in chosen:
            t2 = ast.parse(src)
            mutscore.apply(mutscore.find_function(t2, qual), kind, where, rng)
            ast.fix_missing_locations(t2)
            new = ast.unparse(t2)
            if new == base:
                continue
            try:
                compile(new, rel, 'exec')
            except Exception:
                continue
            mutants.append(dict(file=rel, function=fq, kind=kind, desc=desc, props=[pid], source=new))
    rng.shuffle(mutants)
    mutants = mutants[:cap]
    with ThreadPoolExecutor(max_workers=8) as ex:
        res = list(ex.map(lambda m: mutscore.run_mutant(root, m, None), mutants))
    viol = sum(1 for h in res if any(x[1] == 'violation' for x in h))
    aerr = sum(1 for h in res if h and not any(x[1] == 'violation' for x in h))
    silent = [f"{m['function'].split('.')[-1]}: {m['kind']} {m['desc'][:90]}" for m, h in zip(mutants, res) if not h]
    return {"functions": len(funcs), "mutants": len(mutants), "reported_as_violation": viol, "analysis_error_only": aerr,
            "silent": len(silent), "silent_examples": silent[:40],
            "note": "silent mutants are listed for reading; equivalent mutants (asserts, decorator flags, initial states, tie-breaking) are expected among them"}
