#!/usr/bin/env python3
"""Development tool (not a registered check): writes a first draft of sa/specs/<module>.py from the tree given as ROOT for the
helpers named on the command line.  The draft is the helper with its docstring cut to the summary line; it becomes a reference
only after it has been read against the helper's documentation and unit tests (see DESIGN.md, "helper references").
usage: make_reference.py ROOT module name [name ...]      (appends to an existing file, never overwrites an entry)"""
import ast, pathlib, sys
HERE = pathlib.Path(__file__).resolve().parent.parent
root, mod, names = sys.argv[1], sys.argv[2], sys.argv[3:]
src = pathlib.Path(root, *mod.split('.')).with_suffix('.py').read_text()
tree = ast.parse(src)
out = HERE / 'sa' / 'specs' / (mod + '.py')
have = out.read_text() if out.exists() else f'"""Reference implementations for {mod} (parsed, never imported); compared with the code by sa/refspec.py."""\n'
existing = ast.parse(have)
ex_names = set()
for n in existing.body:
    if isinstance(n, ast.FunctionDef): ex_names.add(n.name)
    if isinstance(n, ast.ClassDef): ex_names |= {f"{n.name}.{m.name}" for m in n.body if isinstance(m, ast.FunctionDef)}


def strip(fn):
    d = ast.get_docstring(fn)
    fn.decorator_list = []
    fn.returns = None
    for a in fn.args.posonlyargs + fn.args.args + fn.args.kwonlyargs:
        a.annotation = None
    if d:
        fn.body[0] = ast.Expr(ast.Constant(d.strip().split('\n\n')[0].replace('\n', ' ').strip()))
    return fn


if names == ['*']:
    names = []
    for n in tree.body:
        if isinstance(n, ast.FunctionDef):
            names.append(n.name)
        elif isinstance(n, ast.ClassDef):
            names += [f"{n.name}.{m.name}" for m in n.body if isinstance(m, ast.FunctionDef)]
chunks = []
by_class = {}
for name in names:
    if name in ex_names:
        continue
    parts = name.split('.')
    body = tree.body
    node = None
    for p in parts:
        node = next((n for n in body if isinstance(n, (ast.FunctionDef, ast.ClassDef)) and n.name == p), None)
        if node is None:
            sys.exit(f"not found: {mod}.{name}")
        body = node.body
    if len(parts) == 1:
        chunks.append(ast.unparse(strip(node)))
    else:
        by_class.setdefault(parts[0], []).append(strip(node))
for cls, ms in by_class.items():
    chunks.append(f"class {cls}:\n" + "\n\n".join("    " + l if l else l for m in ms for l in (ast.unparse(m) + "\n").split("\n")).rstrip())
if chunks:
    out.write_text(have.rstrip("\n") + "\n\n\n" + "\n\n\n".join(chunks) + "\n")
print(f"{out}: added {len(chunks)} entries")
