#!/usr/bin/env python3
"""Runs all twenty checks against every behaviour-preserving refactoring under /verif/neutral_seeded (written by independent sub-agents,
each applied to a scratch copy of /repo's package) and prints which rules report it - every report is a false alarm.  Writes
neutral_seeded/MATRIX.md.  Development tool."""
import os, sys, json, shutil, subprocess, tempfile, pathlib
from concurrent.futures import ThreadPoolExecutor
HERE = pathlib.Path(__file__).resolve().parent.parent
PIDS = [f"C{i:02d}" for i in range(1, 21)]


def run(sd):
    tmp = tempfile.mkdtemp(prefix="neumx_")
    try:
        shutil.copytree("/repo/mchap", tmp + "/mchap", ignore=shutil.ignore_patterns("__pycache__", "*.nbi", "*.nbc"))
        r = subprocess.run(["patch", "-p1", "-s", "--fuzz=3", "-d", tmp, "-i", str(sd / "patch.diff")], capture_output=True, text=True)
        if r.returncode:
            return sd.name, None
        out = {}
        for pid in PIDS:
            r = subprocess.run([sys.executable, str(HERE / "check.py"), pid, "--root", tmp, "--evidence", tmp + "/ev"], capture_output=True, text=True)
            if r.returncode:
                out[pid] = (r.returncode, sorted({l.strip().split(" construct=")[0].replace("rule=", "") + " " + l.strip().split("::")[-2] for l in r.stdout.splitlines() if l.strip().startswith("rule=")}),
                            [l[:160] for l in r.stdout.splitlines() if l.startswith("ANALYSIS-ERROR")][:1])
        return sd.name, out
    finally:
        shutil.rmtree(tmp, ignore_errors=True)


seeds = sorted(p for p in (HERE / "neutral_seeded").iterdir() if (p / "patch.diff").exists())
with ThreadPoolExecutor(int(os.environ.get("MX_JOBS", "4"))) as ex:
    res = dict(ex.map(run, seeds))
lines = ["| refactoring | kind | functions | reported by |", "|---|---|---|---|"]
silent = 0
for s in seeds:
    m = json.load(open(s / "meta.json")) if (s / "meta.json").exists() else {}
    r = res[s.name]
    if r is None:
        txt = "(patch does not apply to HEAD)"
    elif not r:
        txt = "-"; silent += 1
    else:
        txt = "; ".join(f"{p}: {', '.join(v[1]) or v[2]}" for p, v in sorted(r.items()))
    lines.append(f"| {s.name} | {str(m.get('kind', ''))[:50]} | {', '.join(m.get('functions', []))[:120]} | {txt} |")
(HERE / "neutral_seeded" / "MATRIX.md").write_text("\n".join(lines) + "\n")
print("\n".join(lines))
print(f"\n{silent}/{len(seeds)} silent")
