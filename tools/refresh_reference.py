#!/usr/bin/env python3
"""Development tool: replace reference entries in sa/specs/<module>.py by the current source of /repo (after a repair of /repo that
was itself confirmed).  usage: refresh_reference.py ROOT module name [name ...]"""
import ast, pathlib, subprocess, sys
HERE = pathlib.Path(__file__).resolve().parent.parent
root, mod, names = sys.argv[1], sys.argv[2], sys.argv[3:]
sp = HERE / 'sa' / 'specs' / (mod + '.py')
text = sp.read_text()
tree = ast.parse(text)
lines = text.split('\n')
dels = []
for n in tree.body:
    if isinstance(n, ast.FunctionDef) and n.name in names:
        dels.append((n.lineno - 1, n.end_lineno))
    elif isinstance(n, ast.ClassDef):
        for m in n.body:
            if isinstance(m, ast.FunctionDef) and f"{n.name}.{m.name}" in names:
                dels.append((m.lineno - 1, m.end_lineno))
for a, b in sorted(dels, reverse=True):
    del lines[a:b]
sp.write_text('\n'.join(lines).rstrip('\n') + '\n')
# a class left without members would not parse
src = sp.read_text()
try:
    ast.parse(src)
except SyntaxError:
    import re
    src = re.sub(r"\nclass (\w+):\n(?=\n|\Z|class |def )", "\n", src)
    sp.write_text(src)
subprocess.run([sys.executable, str(HERE / 'tools' / 'make_reference.py'), root, mod] + names, check=True)
