#!/bin/bash
# runs all twenty checks (quick by default) in parallel against ROOT (default /repo); prints the SUMMARY lines
ROOT=${1:-/repo}; TIER=${2:-quick}
cd "$(dirname "$0")/.."
EV=${EVDIR:-evidence}
printf "C%02d\n" $(seq 1 20) | xargs -P 16 -I{} sh -c "python3 check.py {} --root $ROOT --tier $TIER --evidence $EV > /tmp/runall_{}.log 2>&1; echo \"{} exit=\$? \$(grep -c '^VIOLATION' /tmp/runall_{}.log) violation(s) \$(grep -c SELFTEST-WARNING /tmp/runall_{}.log) warning(s) \$(tail -1 /tmp/runall_{}.log)\"" | sort
