#!/usr/bin/env python3
"""usage: seed_check.py <patch.diff> [property ids...]   applies the patch to a scratch copy of /repo's mchap package and runs the
checks on it (development tool; the registered way is git -C /repo apply / run / git checkout)."""
import sys, os, shutil, subprocess, tempfile, pathlib
HERE = pathlib.Path(__file__).resolve().parent.parent
patch = os.path.abspath(sys.argv[1])
pids = sys.argv[2:] or [f"C{i:02d}" for i in range(1, 21)]
tmp = tempfile.mkdtemp(prefix="seedchk_")
try:
    shutil.copytree("/repo/mchap", tmp + "/mchap", ignore=shutil.ignore_patterns("__pycache__", "*.nbi", "*.nbc"))
    r = subprocess.run(["patch", "-p1", "-s", "-d", tmp, "-i", patch], capture_output=True, text=True)
    if r.returncode:
        print("PATCH FAILED", r.stdout, r.stderr); sys.exit(9)
    from concurrent.futures import ThreadPoolExecutor
    def one(pid):
        r = subprocess.run([sys.executable, str(HERE / "check.py"), pid, "--root", tmp, "--evidence", tmp + "/ev"], capture_output=True, text=True)
        rules = [l.strip()[:230] for l in r.stdout.splitlines() if l.strip().startswith("rule=")]
        err = [l[:300] for l in r.stdout.splitlines() if l.startswith("ANALYSIS-ERROR")]
        return pid, r.returncode, rules, err
    with ThreadPoolExecutor(8) as ex:
        for pid, code, rules, err in ex.map(one, pids):
            if code:
                print(pid, "exit", code)
                for x in rules[:4] + err[:2]:
                    print("    ", x)
finally:
    shutil.rmtree(tmp, ignore_errors=True)
