#!/bin/bash
# numba caches do not notice a changed callee in another file, so all caches are purged before each step
# usage: seed_confirm.sh <agent dir e.g. /tmp/seed/C06_a> <k>   -- confirms a seeded change in the agent's own scratch worktree:
# demo fails with the patch, the unedited suite shows only the 4 baseline failures, demo passes without the patch
D=$1; K=$2; WT=$D/wt; O=$D/out/$K
cd $WT || exit 9
git checkout -q -- . ; git apply --check $O/patch.diff || { echo "PATCH-DOES-NOT-APPLY"; exit 9; }
git apply $O/patch.diff
purge(){ find $WT -name __pycache__ -type d -prune -exec rm -rf {} + ; rm -f $WT/mchap/tests/test_io/data/wrong.fasta.fai; }
purge
timeout 600 /venv/bin/python $O/demo.py > $O/confirm_demo_with.log 2>&1; A=$?
/venv/bin/python -m pytest -q -p no:cacheprovider --timeout=900 -n 6 > $O/confirm_suite.log 2>&1
S=$(tail -1 $O/confirm_suite.log)
F=$(grep -c "^FAILED" $O/confirm_suite.log); FB=$(grep "^FAILED" $O/confirm_suite.log | grep -c -E "test_help_text\[(assemble|call|call-exact)\]|test_comb\[0-0\]")
RF=0
if [ "$F" != "$FB" ]; then
  # failures beyond the baseline: run exactly those tests again, serially and with warm caches (cold numba caches race under xdist)
  grep "^FAILED" $O/confirm_suite.log | grep -v -E "test_help_text\[(assemble|call|call-exact)\]|test_comb\[0-0\]" | sed 's/^FAILED //;s/ - .*//' > $O/confirm_refail.txt
  /venv/bin/python -m pytest -q -p no:cacheprovider --timeout=900 $(cat $O/confirm_refail.txt) > $O/confirm_resuite.log 2>&1
  RF=$(grep -c "^FAILED" $O/confirm_resuite.log)
fi
git checkout -q -- .
purge
timeout 600 /venv/bin/python $O/demo.py > $O/confirm_demo_without.log 2>&1; B=$?
echo "$D/$K demo_with=$A demo_without=$B failed=$F baseline_failed=$FB refailed=$RF suite: $S"
