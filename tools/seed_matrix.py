#!/usr/bin/env python3
"""Runs all twenty checks against every seeded change under /verif/seeded (each applied to a scratch copy of /repo's package, which
is removed at once) and prints which rules report it.  Writes seeded/MATRIX.md.  Development tool, not a registered check."""
import sys, os, json, shutil, subprocess, tempfile, pathlib
from concurrent.futures import ThreadPoolExecutor
HERE = pathlib.Path(__file__).resolve().parent.parent
PIDS = [f"C{i:02d}" for i in range(1, 21)]


def run_seed(sd):
    tmp = tempfile.mkdtemp(prefix="seedmx_")
    try:
        shutil.copytree("/repo/mchap", tmp + "/mchap", ignore=shutil.ignore_patterns("__pycache__", "*.nbi", "*.nbc"))
        r = subprocess.run(["patch", "-p1", "-s", "-d", tmp, "-i", str(sd / "patch.diff")], capture_output=True, text=True)
        if r.returncode:
            return sd.name, {"error": "patch does not apply: " + r.stdout[:200]}
        out = {}
        own = json.load(open(sd / "meta.json"))["property"]
        for pid in ([own] if OWN_ONLY else PIDS):
            r = subprocess.run([sys.executable, str(HERE / "check.py"), pid, "--root", tmp, "--evidence", tmp + "/ev"], capture_output=True, text=True)
            if r.returncode:
                rules = sorted({l.strip().split(" construct=")[0].replace("rule=", "") for l in r.stdout.splitlines() if l.strip().startswith("rule=")})
                out[pid] = {"exit": r.returncode, "rules": rules, "error": [l[:200] for l in r.stdout.splitlines() if l.startswith("ANALYSIS-ERROR")][:1]}
        return sd.name, out
    finally:
        shutil.rmtree(tmp, ignore_errors=True)


seeds = sorted(p for p in (HERE / "seeded").iterdir() if (p / "patch.diff").exists())
args = sys.argv[1:]
# --merge-from DIR: the seeds not named on the command line keep the result recorded in DIR/seeded/<id>/meta.json (a run of this tool from a
# snapshot of the same commit, see `vp run`), the named ones are run now, and MATRIX.md is written for all of them
merge_from = None
# --own-only: run only the check of the property each change was aimed at; what the other checks said is kept from the change's meta.json
OWN_ONLY = args[:1] == ["--own-only"]
if OWN_ONLY:
    args = args[1:]
if args[:1] == ["--merge-from"]:
    merge_from, args = pathlib.Path(args[1]), args[2:]
only = args
all_seeds = seeds
if only:
    seeds = [s for s in seeds if s.name in only]
with ThreadPoolExecutor(int(os.environ.get("MX_JOBS", "4"))) as ex:
    res = dict(ex.map(run_seed, seeds))
if OWN_ONLY:
    for s_ in seeds:
        prev = json.load(open(s_ / "meta.json")).get("detection", {})
        own_ = json.load(open(s_ / "meta.json"))["property"]
        merged = {k: v for k, v in prev.items() if k != own_}
        merged.update(res[s_.name])
        res[s_.name] = merged
if merge_from is not None:
    for s_ in all_seeds:
        if s_.name not in res:
            res[s_.name] = json.load(open(merge_from / "seeded" / s_.name / "meta.json"))["detection"]
    seeds, only = all_seeds, []
lines = ["| seeded change | property | what | reported by its own property's check | also reported by |", "|---|---|---|---|---|"]
missed = []
for s in seeds:
    meta = json.load(open(s / "meta.json"))
    pid = meta["property"]
    r = res[s.name]
    own = r.get(pid)
    others = {p: v for p, v in r.items() if p != pid and p != "error"}
    own_txt = ", ".join(own["rules"]) if own and own["exit"] == 1 else ("ANALYSIS-ERROR" if own else "**not reported**")
    if not (own and own["exit"] == 1):
        missed.append(s.name)
    lines.append(f"| {s.name} | {pid} | {meta.get('summary', '')[:110].replace('|', '/')} | {own_txt} | " + "; ".join(f"{p}: {', '.join(v['rules']) or v['error']}" for p, v in sorted(others.items())) + " |")
    meta["detection"] = r
    (s / "meta.json").write_text(json.dumps(meta, indent=1))
if not only:
    (HERE / "seeded" / "MATRIX.md").write_text("\n".join(lines) + "\n")
print("\n".join(lines))
print(f"\n{len(seeds) - len(missed)}/{len(seeds)} reported by the check of the property they were aimed at; missed: {missed}")
