#!/bin/bash
# usage: seed_rebase.sh <seed id>   re-creates seeded/<id>/patch.diff against /repo's HEAD when a later fix: commit changed its context
# lines (the original is kept as patch.original.diff); done in a scratch worktree, never in /repo itself
ID=$1; S=/verif/seeded/$ID; W=$(mktemp -d /root/scratch/rebase_XXXX)
git -C /repo worktree add -q --detach $W/wt HEAD || exit 9
cd $W/wt && patch -p1 -s --fuzz=3 < $S/patch.diff || { echo "cannot rebase $ID"; git -C /repo worktree remove --force $W/wt; exit 9; }
find . -name "*.orig" -delete; find . -name "*.rej" -delete
[ -f $S/patch.original.diff ] || cp $S/patch.diff $S/patch.original.diff
git diff > $S/patch.diff
cd /; git -C /repo worktree remove --force $W/wt; rmdir $W
echo "rebased $ID onto $(git -C /repo rev-parse --short HEAD)"
