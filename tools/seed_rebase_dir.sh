#!/bin/bash
# usage: seed_rebase_dir.sh <directory with patch.diff>   like seed_rebase.sh for any directory (round-c deliveries, neutral refactorings)
S=$(readlink -f $1); W=$(mktemp -d /root/scratch/rebase_XXXX)
git -C /repo worktree add -q --detach $W/wt HEAD || exit 9
cd $W/wt && patch -p1 -s --fuzz=3 < $S/patch.diff || { echo "cannot rebase $S"; cd /; git -C /repo worktree remove --force $W/wt; exit 9; }
find . -name "*.orig" -delete; find . -name "*.rej" -delete
[ -f $S/patch.original.diff ] || cp $S/patch.diff $S/patch.original.diff
git diff > $S/patch.diff
cd /; git -C /repo worktree remove --force $W/wt; rmdir $W
echo "rebased $S onto $(git -C /repo rev-parse --short HEAD)"
