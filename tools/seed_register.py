#!/usr/bin/env python3
"""usage: seed_register.py <agent dir> <k>   copies a confirmed seeded change into /verif/seeded/<PID>-<round><k>/ with a meta.json
that records what was run to confirm it (reads the logs written by seed_confirm.sh)."""
import sys, json, pathlib, shutil, re, subprocess
HERE = pathlib.Path(__file__).resolve().parent.parent
d, k = pathlib.Path(sys.argv[1]), sys.argv[2]
pid, rnd = d.name.split('_')
o = d / 'out' / k
name = f"{pid}-{rnd}{k}"
dst = HERE / 'seeded' / name
conf = [l for l in open('/tmp/seed/confirm.log') if l.startswith(f"{d}/{k} ")]
if not conf:
    sys.exit(f"no confirmation line for {d}/{k}")
line = conf[-1].strip()
m = re.search(r"demo_with=(\d+) demo_without=(\d+) failed=(\d+) baseline_failed=(\d+)(?: refailed=(\d+))? suite: (.*)", line)
dw, dwo, failed, bfailed, refailed, suite = int(m[1]), int(m[2]), int(m[3]), int(m[4]), (int(m[5]) if m[5] is not None else None), m[6]
extra = []
if failed != bfailed:
    extra = [l.strip() for l in open(o / 'confirm_suite.log') if l.startswith('FAILED') and not re.search(r"test_help_text\[(assemble|call|call-exact)\]|test_comb\[0-0\]", l)]
ok = dw != 0 and dwo == 0 and (failed == bfailed or refailed == 0)
if not ok:
    sys.exit(f"NOT CONFIRMED: {line} extra={extra}")
dst.mkdir(parents=True, exist_ok=True)
shutil.copy(o / 'patch.diff', dst / 'patch.diff')
shutil.copy(o / 'demo.py', dst / 'demo.py')
am = json.load(open(o / 'meta.json')) if (o / 'meta.json').exists() else {}
meta = dict(
    property=pid, name=name,
    summary=am.get('summary', ''), breaks=am.get('breaks', ''), needs_to_manifest=am.get('needs_to_manifest', ''), files=am.get('files', []),
    disguise=am.get('disguise', ''),
    origin="written by an independent sub-agent that was given only the text of the property and its own scratch worktree of /repo",
    confirmed=dict(
        how="tools/seed_confirm.sh in a scratch worktree of /repo (round a: commit d6dfac8, fix: commits A-F2; round b: commit 8d56954, A-G; round c: commit 7227517 or later, A-S; round d: commit 00d2c44, A-W; round e: commit dd3a5bb, A-Z): git apply patch.diff; all "
            "__pycache__/numba caches purged; demo.py; unedited suite (pytest -q -p no:cacheprovider --timeout=900 -n 6); any failure beyond the four "
            "baseline failures re-run serially; git checkout; caches purged; demo.py",
        demo_exit_with_patch=dw, demo_exit_without_patch=dwo, suite_with_patch=suite,
        suite_failures_beyond_baseline=extra,
        extra_failures_failing_again_when_rerun=refailed,
        note=("the extra failure did not recur when re-run; it is an unseeded statistical test (or a cold-cache race of numba under xdist) that fails occasionally on the unchanged tree as well" if extra else ""),
    ),
)
(dst / 'meta.json').write_text(json.dumps(meta, indent=1))
print("registered", dst)
